"""C07 -- addons cannot duplicate, lose or wedge traffic: at-most-once, fault-isolated (exhaustive fault enumeration).

Seam: ``InterceptingLLUDPProxyProtocol.datagram_received`` (hmc.udpharness: one session, one circuit opened by a real
UseCircuitCode datagram, main region set, virtual loop) with three addon objects registered through
``AddonManager.init([], sm, objs)``, one session-level and one region-level ``MessageHandler`` subscriber per addon
(subscribed to "*" in addon order) and a recording message logger.  Observation taps (instance attributes that call the
real method): ``protocol.deserializer.deserialize`` (identity of the original Message object) and
``circuit._send_prepared_message`` (which Message object every ``sendto`` carries).

Enumerated space.  Hook points x addons = slots: pp = ``handle_proxied_packet`` hook, ss = session subscriber, rs = region
subscriber, lu = ``handle_lludp_message`` hook (each x3 addons), rlv = ``handle_rlv_command`` hook (x3, RLV messages only),
cmd = command-channel command of addon 0 (command message only).  Behaviours (applied to the message under test only;
for every other datagram the hook logs its invocation and returns None):
  absent, none (default), false, zero, empty, true, obj, exc (Exception), valueerror, custom (own Exception subclass),
  take (msg.take()), drop (circuit.drop_message(msg)), send (circuit.send(msg)), sendcopy (circuit.send(msg.take())),
  mutate; rlv additionally true_first (truthy for the first command only); cmd: ok (default), absent, raise_async,
  raise_sync (missing parameter -> KeyError before the coroutine exists).
Messages: {viewer->sim, sim->viewer} x {unreliable, reliable + piggy-backed ack for a packet the proxy injected} x
{ordinary chat, ChatFromViewer on channel 524, RLV ChatFromSimulator with 1 and 2 commands, CloseCircuit, valid header +
unparseable body}.
Fault bound: every single non-default assignment (full behaviour list), every pair of slots (representative list), and
(thorough) every triple with one slot per addon (reduced list).  After the message under test a probe datagram is sent in
each direction.  Separately: every sequence of length <= 4 over {take, send, drop, queue, sendcopy} on one message on a
bare ``ProxiedCircuit`` x {OUT, IN} x {reliable, unreliable} x {acks, none}.

Async-subscriber family: an addon coroutine on the virtual loop owns ``subscribe_async`` (left by: normal exit or exception before
any message, cancellation while waiting, normal exit / exception / cancellation after message 1) or ``wait_for`` (satisfied,
timed out by advancing virtual time, future cancelled; with and without timeout) x {one message name, two names resolved by
the first / by the second} x {session, region handler} x take
{True, False} x direction x reliability of message 1 x order of the later messages; afterwards two matching datagrams
(reliable + unreliable) and one non-matching probe per direction must each be forwarded exactly once with no proxy-made
PacketAck, and the handler's subscriber count must be back at its baseline (clauses subscriber-leak,
next-datagram-forwarded, no-proxy-ack-for-forwarded; for a cancelled wait_for future: waitfor-cancel-leak).

Hot-reload family: a real addon script in a temporary directory (plain / calling AddonManager.hot_reload on a dependency), loaded
through AddonManager.init; {nothing edited, dependency edited, script edited, both} x direction x reliability; the 2 s reload
throttle is removed by clearing AddonManager.LAST_RELOAD and mtimes are set explicitly (no wall clock); a datagram before
the edit, two after it and one after a second edit must each be forwarded exactly once with the script's hook invoked.

Oracle (clause per sentence).  A boring reference model of the documented dispatch rules predicts which hooks run and
whether the message is claimed; the wire is observed through the taps.
  at-most-once                  the original Message object reaches ``sendto`` <= 1 times
  exactly-once-unless-claimed   == 1 unless a hook returned truthy from pp/lu/rlv, took or dropped it, or the command
                                channel claimed it
  claim-respected               a claimed message is not forwarded by the proxy itself (truthy return / take / drop mean
                                "do not forward"; this is the documented addon API and what "claimed" means in the statement)
  later-hooks-run               the hook invocation log equals the model's (a raising hook never prevents later addons'
                                hooks; reported as hook-dispatch when no hook raised)
  bookkeeping-drop-ack          a reliable message that a hook or the proxy itself (command channel, RLV, queued) drops is acknowledged
                                to its sender exactly once, an undropped one never (also when the command / a hook failed)
  bookkeeping-acks / -logger / -region-death
                                piggy-backed ack for the proxy's own reliable packet is collected, the message logger is
                                called once for the message, CloseCircuit kills the region unless a hook claimed it by
                                truthy return
  next-datagram-forwarded       both probes are forwarded exactly once to the right peer, with every hook invoked
  exception-escaped             nothing escapes datagram_received unless the model predicts the proxy's own RuntimeError
  rlv-partial-claim             [flagged as "unsure" in the report] a chat message with two RLV commands of which an addon
                                handled only one is still dropped
  finalized-resend-raises / finalized-redrop-raises / send-queued-raises / emission-count (state machine)
  truncated-forwarded-verbatim  messages with a valid header and an unparseable body (AgentThrottle / SimStats cut by two bytes):
                                whatever hooks do short of claiming or mutating, forwarded once, byte for byte
  predicate-raise-stops-later-subscribers  [flagged] a raising subscription predicate must be that subscription's failure only
Subscribers: addons 0 and 1 subscribe by message name, addon 2 to "*"; addon 1's subscriptions always carry a predicate;
behaviours pred_false / pred_raise make the slot's predicate return False / raise for the message under test; behaviour
touch reads message.blocks (raises naturally on the unparseable message).
Soundness (DESIGN §C07): "failure" = a hook raising.  Ownership combinations that are legal one by one but make the proxy's
own ``drop_message`` raise RuntimeError (subscriber take() + hook drop; take() on a command-channel message) are predicted
by the model, checked for the wire clauses and the probes only, and reported as counters
(``proxy_rejected_ownership_combo*``), not as violations.
"""
from __future__ import annotations

import itertools
import traceback
from typing import Any, Dict, List, Optional, Tuple

from hippolyzer.lib.base.message.message import Block, Message
from hippolyzer.lib.base.network.transport import AbstractUDPTransport, Direction
from hippolyzer.lib.proxy.circuit import ProxiedCircuit
from hippolyzer.lib.proxy.commands import handle_command

from hmc import udpharness as U
from hmc.core import Part, Run, pmap

LEVEL = "fault_enumeration"
OUT, IN = "out", "in"

RET = {"none": None, "false": False, "zero": 0, "empty": "", "true": True}
RAISES = ("exc", "valueerror", "custom")
OWN = ("take", "drop", "send", "sendcopy", "mutate")
PRED = ("pred_false", "pred_raise")      # subscriber slots only: the subscription carries a predicate that returns False / raises
SUB_NAMES = ("ChatFromViewer", "ChatFromSimulator", "CloseCircuit", "AgentThrottle", "SimStats")
TRUTHY = ("true", "obj")

BEH_ALL = {
    "pp": ["absent", "false", "zero", "empty", "true", "obj", "exc", "valueerror", "custom"],
    "ss": ["absent", "false", "zero", "empty", "true", "obj", "exc", "valueerror", "custom", *OWN, "touch", *PRED],
    "lu": ["absent", "false", "zero", "empty", "true", "obj", "exc", "valueerror", "custom", *OWN, "touch"],
    "rlv": ["absent", "false", "zero", "empty", "true", "obj", "true_first", "exc", "valueerror", "custom"],
    "cmd": ["absent", "raise_async", "raise_sync"],
}
BEH_ALL["rs"] = BEH_ALL["ss"]
BEH_REP = {
    "pp": ["absent", "true", "valueerror"],
    "ss": ["absent", "true", "valueerror", "take", "drop", "send", "sendcopy", "touch", *PRED],
    "lu": ["absent", "true", "valueerror", "take", "drop", "send", "sendcopy", "touch"],
    "rlv": ["absent", "true", "true_first", "valueerror"],
    "cmd": ["absent", "raise_async", "raise_sync"],
}
BEH_REP["rs"] = BEH_REP["ss"]
BEH_TRI = {
    "pp": ["true", "valueerror"],
    "ss": ["true", "valueerror", "take", "drop", "send", "sendcopy", "pred_raise"],
    "lu": ["true", "valueerror", "take", "drop", "send", "sendcopy"],
    "rlv": ["true", "true_first", "valueerror"],
    "cmd": ["raise_async", "raise_sync"],
}
BEH_TRI["rs"] = BEH_TRI["ss"]

MESSAGES = [(kind, d, rel)
            for kind, d in (("ordinary", OUT), ("command", OUT), ("close", OUT),
                            ("ordinary", IN), ("rlv1", IN), ("rlv2", IN), ("close", IN),
                            ("trunc", OUT), ("trunc", IN))
            for rel in (0, 1)]


class CustomAddonError(Exception):
    pass


class Ctl:
    """Shared between the harness and its addon objects."""

    def __init__(self, cfg: Dict[Tuple[str, int], str]):
        self.cfg = cfg
        self.phase = "setup"
        self.log: List[tuple] = []
        self.msgs: List[tuple] = []        # (phase, Message) as returned by the protocol's deserializer
        self.emissions: List[tuple] = []   # (phase, Message, number of sendto it caused)
        self.logged: List[tuple] = []      # (phase, Message) passed to the message logger
        self.taken: List[Any] = []
        self.world = None
        self.region = None


def _mutate(message):
    if message.name == "ChatFromViewer":
        message["ChatData"]["Type"] = 2
    elif message.name == "ChatFromSimulator":
        message["ChatData"]["FromName"] = "Mutated"
    else:
        message.send_flags ^= 0x20


def act(ctl: Ctl, slot, message=None, rlv_cmd=None):
    """Body of every hook / subscriber."""
    if ctl.phase == "setup":
        return None
    ctl.log.append((ctl.phase, slot[0], slot[1]) + ((rlv_cmd,) if rlv_cmd is not None else ()))
    if ctl.phase != "M":
        return None
    b = ctl.cfg.get(slot, "none")
    if b in RET:
        return RET[b]
    if b == "obj":
        return ("claimed",)
    if b == "true_first":
        return True if rlv_cmd == "cmda" else None
    if b == "exc":
        raise Exception("addon failure")
    if b == "valueerror":
        raise ValueError("addon failure")
    if b == "custom":
        raise CustomAddonError("addon failure")
    circuit = ctl.region.circuit
    if b == "take":
        ctl.taken.append(message.take())
    elif b == "drop":
        circuit.drop_message(message)
    elif b == "send":
        circuit.send(message)
    elif b == "sendcopy":
        circuit.send(message.take())
    elif b == "mutate":
        _mutate(message)
    elif b == "touch":
        _ = message.blocks          # what msg["Block"] does first: parse the body (raises for an unparseable one)
    elif b in PRED:
        raise AssertionError("handler invoked although its predicate said no")
    else:
        raise AssertionError(b)
    return None


def predicate_for(ctl: Ctl, slot):
    def predicate(message):
        if ctl.phase != "M":
            return True
        b = ctl.cfg.get(slot, "none")
        if b == "pred_false":
            return False
        if b == "pred_raise":
            raise ValueError("addon predicate failure")
        return True
    return predicate


def m_name(kind: str, d: str) -> str:
    if kind == "close":
        return "CloseCircuit"
    if kind == "trunc":
        return "AgentThrottle" if d == OUT else "SimStats"
    return "ChatFromViewer" if d == OUT else "ChatFromSimulator"


class Addon:
    def __init__(self, k: int, ctl: Ctl):
        self.k, self.ctl = k, ctl
        cfg = ctl.cfg
        if cfg.get(("pp", k)) != "absent":
            self.handle_proxied_packet = lambda sm, packet, session, region: act(ctl, ("pp", k))
        if cfg.get(("lu", k)) != "absent":
            self.handle_lludp_message = lambda session, region, message: act(ctl, ("lu", k), message)
        if cfg.get(("rlv", k)) != "absent":
            self.handle_rlv_command = lambda session, region, source, behaviour, options, param: \
                act(ctl, ("rlv", k), None, rlv_cmd=behaviour)

    def __repr__(self):
        return f"<Addon {self.k}>"


class CmdAddon(Addon):
    @handle_command(x=str)
    async def cmdx(self, session, region, x):
        self.ctl.log.append((self.ctl.phase, "cmd", 0))
        if self.ctl.cfg.get(("cmd", 0)) == "raise_async":
            raise ValueError("command failure")


class RecLogger:
    def __init__(self, ctl: Ctl):
        self.ctl = ctl

    def log_lludp_message(self, session, region, message):
        self.ctl.logged.append((self.ctl.phase, message))


# ---- messages ---------------------------------------------------------------------------------------------------------
def _msg(kind: str, d: str, pid: int, flags: int, acks, cmd_arg: bool = True) -> bytes:
    a = U.session_uuid(0, 2)
    direction = Direction.OUT if d == OUT else Direction.IN
    if kind == "trunc":
        # valid header, valid trailing acks, body cut short by two bytes: never parseable, forwardable verbatim
        g = _gen()
        case = dict(next(iter(g.value_rows(m_name(kind, d)))))
        case.update(flags=flags, packet_id=pid, acks=tuple(acks), extra=b"")
        whole = U.serialize(g.lib_message(case))
        tr = (4 * len(acks) + 1) if (flags & 0x10) else 0
        return whole[:len(whole) - tr - 2] + whole[len(whole) - tr:]
    if kind == "close":
        m = Message("CloseCircuit", packet_id=pid, flags=flags, acks=acks, direction=direction)
    elif d == OUT:
        chan, text = (524, "cmdx arg" if cmd_arg else "cmdx") if kind == "command" else (0, "hello")
        m = Message("ChatFromViewer", Block("AgentData", AgentID=a, SessionID=U.session_uuid(0, 0)),
                    Block("ChatData", Message=text, Type=1, Channel=chan), packet_id=pid, flags=flags, acks=acks)
    else:
        text = {"ordinary": "hello", "rlv1": "@cmda=n", "rlv2": "@cmda=n,cmdb=n"}[kind]
        m = Message("ChatFromSimulator",
                    Block("ChatData", FromName="Obj", SourceID=a, OwnerID=a, SourceType=2, ChatType=8, Audible=1,
                          Position=(1.0, 2.0, 3.0), Message=text), packet_id=pid, flags=flags, acks=acks, direction=direction)
    return U.serialize(m)


_GEN = None


def _gen():
    global _GEN
    if _GEN is None:
        from hmc import msggen
        _GEN = msggen.Gen(0)
    return _GEN


def _first_repo_frame(exc) -> str:
    tb = traceback.extract_tb(exc.__traceback__)
    for fr in reversed(tb):
        if "/hippolyzer/" in fr.filename:
            return f"{fr.filename.rsplit('/', 1)[-1]}:{fr.name}"
    return "?"


# ---- reference model of dispatch + ownership -------------------------------------------------------------------------
class Pred:
    def __init__(self):
        self.log: List[tuple] = []
        self.cmd_runs = False
        self.fin = self.queued = False
        self.emitted = 0
        self.claimed = False
        self.claimed_truthy = False
        self.claimed_pp = False
        self.escape = None          # which proxy-side drop_message is predicted to raise RuntimeError
        self.logger = False
        self.dead = False
        self.acks = False
        self.raised = False         # some invoked hook raised
        self.hook_sent = False
        self.rlv_handled: List[bool] = []
        self.pred_raised = False
        self.dropped = False        # the original was drop_message()d (by a hook or by the proxy): a reliable one is acked to its sender
        self.unsub: List[Tuple[str, int]] = []


def predict(cfg: Dict[Tuple[str, int], str], kind: str, rlv_per_command_drop: bool = False,
            pred_raise_aborts_level: bool = False) -> Pred:
    """Reference semantics.  RLV: the chat message is dropped (once) iff *every* command in it was handled by an addon --
    what the comment in AddonManager.handle_lludp_message promises.  ``rlv_per_command_drop=True`` models what the tree
    does at the time of writing (drop_message per handled command), used only to give that defect one specific clause."""
    p = Pred()

    def beh(slot):
        return cfg.get(slot, "ok" if slot[0] == "cmd" else "none")

    def fails(b) -> bool:
        """The hook raises on its own: explicit raise, or touching the body of the unparseable message."""
        return b in RAISES or (b == "touch" and kind == "trunc")

    def own(b):
        """Ownership op by a hook; an illegal one raises RuntimeError inside the hook (swallowed like any hook failure)."""
        if b in ("take", "sendcopy"):
            if not p.fin:
                p.queued = True
                p.claimed = True
        elif b == "drop":
            if p.fin:
                p.raised = True
            else:
                p.fin = True
                p.dropped = True
                p.claimed = True
        elif b == "send":
            if p.fin or p.queued:
                p.raised = True
            else:
                p.fin = True
                p.emitted += 1
                p.hook_sent = True

    # 1. handle_proxied_packet hooks: first truthy return swallows the packet before it is parsed
    for k in range(3):
        b = beh(("pp", k))
        if b == "absent":
            continue
        p.log.append(("pp", k))
        if b in RAISES:
            p.raised = True
        if b in TRUTHY:
            p.claimed = p.claimed_pp = p.claimed_truthy = True
            return p
    p.acks = True
    # 2. session subscribers, then region subscribers: every one is notified whatever the others do
    # A predicate is addon code too: one that raises is a failure of that one subscription (reference semantics).
    # ``pred_raise_aborts_level=True`` models Event.notify calling predicates outside its try: the exception leaves
    # MessageHandler.handle, i.e. every later subscriber of the same handler (same name, then "*") is skipped.
    for hp in ("ss", "rs"):
        aborted = False
        for k in range(3):
            b = beh((hp, k))
            if b == "absent" or aborted:
                continue
            if b == "pred_false":
                continue
            if b == "pred_raise":
                p.raised = True
                p.pred_raised = True
                aborted = pred_raise_aborts_level
                continue
            p.log.append((hp, k))
            if fails(b):
                p.raised = True
            elif b in TRUTHY:
                p.unsub.append((hp, k))   # a truthy return from a subscriber means "unsubscribe me", not a claim
            else:
                own(b)

    def lu_chain() -> bool:
        for k in range(3):
            b = beh(("lu", k))
            if b == "absent":
                continue
            p.log.append(("lu", k))
            if fails(b):
                p.raised = True
            elif b in TRUTHY:
                return True
            else:
                own(b)
        return False

    # 3. AddonManager.handle_lludp_message
    if kind == "command":
        if p.fin:
            p.escape = "command-channel drop of a finalized message"
            return p
        p.fin = True
        p.dropped = True
        p.claimed = True
        handled = True
        p.cmd_runs = beh(("cmd", 0)) in ("ok", "raise_async")
    elif kind in ("rlv1", "rlv2"):
        cmds = ["cmda"] if kind == "rlv1" else ["cmda", "cmdb"]
        all_handled = True
        for c in cmds:
            h = False
            for k in range(3):
                b = beh(("rlv", k))
                if b == "absent":
                    continue
                p.log.append(("rlv", k, c))
                if b in RAISES:
                    p.raised = True
                elif b in TRUTHY or (b == "true_first" and c == "cmda"):
                    h = True
                    break
            p.rlv_handled.append(h)
            if not h:
                all_handled = False
            elif rlv_per_command_drop:
                p.claimed = p.claimed_truthy = True
                if p.fin:
                    all_handled = False   # the per-command drop raises, the loop's except marks it unhandled
                else:
                    p.fin = True
                    p.dropped = True
        if all_handled:
            handled = True
            if not rlv_per_command_drop and not p.fin:
                p.fin = True
                p.dropped = True
        else:
            handled = lu_chain()
    else:
        handled = lu_chain()
    if handled:
        p.claimed = p.claimed_truthy = True
    # 4. tail of handle_proxied_packet
    if p.queued:
        if p.fin:
            p.escape = "tail drop of a queued message that is already finalized"
            return p
        p.fin = True
        p.dropped = True
    p.logger = True
    if handled:
        return p
    if kind == "close":
        p.dead = True
    if not p.fin:
        p.fin = True
        p.emitted += 1
    return p


def predict_probe(cfg, pm: Pred, same_name: bool) -> List[tuple]:
    """Addons 0 and 1 subscribe by message name, addon 2 to "*": a truthy return on the message under test unsubscribes
    from that one Event only."""
    log = []
    for hp in ("pp", "ss", "rs", "lu"):
        for k in range(3):
            if cfg.get((hp, k), "none") == "absent":
                continue
            if (hp, k) in pm.unsub and (k == 2 or same_name):
                continue
            log.append((hp, k))
    return log


# ---- one execution ----------------------------------------------------------------------------------------------------
def execute(msg, assign) -> Tuple[List[Dict[str, str]], Dict[str, Any]]:
    """Run one (message, assignment) case; returns (violations, info)."""
    kind, d, rel = msg
    cfg = {(h, int(k)): b for h, k, b in assign}
    ctl = Ctl(cfg)
    addons = [(CmdAddon if (k == 0 and cfg.get(("cmd", 0)) != "absent") else Addon)(k, ctl) for k in range(3)]
    w = U.fresh(1, addons, neighbour=False)
    ctl.world = w
    w.sm.message_logger = RecLogger(ctl)
    sends, exc = w.deliver(0, U.socks_wrap(U.use_circuit_code(0, 1), U.SIMS[0]), U.VIEWERS[0])
    if exc is not None or len(sends) != 1:
        raise RuntimeError(f"C07 setup: UseCircuitCode not forwarded ({sends!r}, {exc!r})")
    s = w.sessions[0]
    region = w.region(0, 0)
    ctl.region = region
    s.main_region = region
    # Addons 0 and 1 subscribe by message name, addon 2 to "*" (dispatch order stays 0, 1, 2).  Addon 1's subscriptions
    # always carry a predicate (returning True unless the slot says otherwise); the others only for predicate behaviours.
    for hp, handler in (("ss", s.message_handler), ("rs", region.message_handler)):
        for k in range(3):
            b = cfg.get((hp, k))
            if b == "absent":
                continue
            fn = (lambda hh, kk: lambda message: act(ctl, (hh, kk), message))(hp, k)
            pred = predicate_for(ctl, (hp, k)) if (k == 1 or b in PRED) else None
            for nm in (("*",) if k == 2 else SUB_NAMES):
                handler.register(nm).subscribe(fn, predicate=pred)
    # taps
    proto = w.protos[0]
    real_deser = proto.deserializer.deserialize

    def deser_tap(data):
        m = real_deser(data)
        ctl.msgs.append((ctl.phase, m))
        return m
    proto.deserializer.deserialize = deser_tap
    circuit = region.circuit
    real_send = circuit._send_prepared_message

    def send_tap(message, transport=None):
        n0 = len(w.sends)
        try:
            return real_send(message, transport)
        finally:
            ctl.emissions.append((ctl.phase, message, len(w.sends) - n0))
            wire.append((message, [x[1] for x in w.sends[n0:]]))
    circuit._send_prepared_message = send_tap
    base_sends = len(w.sends)
    wire: List[Tuple[Any, List[bytes]]] = []

    # the proxy's own reliable packet in the opposite direction, acknowledged by the message under test
    fut = None
    acks: Tuple[int, ...] = ()
    flags = 0
    if rel:
        opp = Direction.IN if d == OUT else Direction.OUT
        inj = Message("ChatFromSimulator" if d == OUT else "ChatFromViewer", direction=opp)
        if d == OUT:
            inj.add_block(Block("ChatData", FromName="Proxy", SourceID=U.session_uuid(0, 2), OwnerID=U.session_uuid(0, 2),
                                SourceType=0, ChatType=1, Audible=1, Position=(0.0, 0.0, 0.0), Message="injected"))
        else:
            inj.add_block(Block("AgentData", AgentID=U.session_uuid(0, 2), SessionID=U.session_uuid(0, 0)))
            inj.add_block(Block("ChatData", Message="injected", Type=1, Channel=0))
        ctl.phase = "inject"
        fut = circuit.send_reliable(inj)
        acks = (inj.packet_id,)
        flags = 0x40 | 0x10
    pid_out, pid_in = 2, 1

    def datagram(kind_, d_, flags_, acks_, cmd_arg=True):
        nonlocal pid_out, pid_in
        if d_ == OUT:
            lludp = _msg(kind_, OUT, pid_out, flags_, acks_, cmd_arg)
            pid_out += 1
            return U.socks_wrap(lludp, U.SIMS[0]), U.VIEWERS[0]
        lludp = _msg(kind_, IN, pid_in, flags_, acks_)
        pid_in += 1
        return lludp, U.SIMS[0]

    nd = sorted(f"{h}:{b}" for h, k, b in assign)
    tag = f"{kind}:{d}|" + ("+".join(nd) if nd else "default")
    # ---- the message under test
    ctl.phase = "M"
    data, src = datagram(kind, d, flags, acks, cmd_arg=cfg.get(("cmd", 0)) != "raise_sync")
    _, exc = w.deliver(0, data, src)
    origs = [m for ph, m in ctl.msgs if ph == "M"]
    orig = origs[0] if origs else None
    verbatim = None
    if kind == "trunc" and not rel and "mutate" not in cfg.values():
        lludp_in = data[10:] if d == OUT else data
        outs = [b for m, bl in wire if m is orig for b in bl]
        if d == IN:
            outs = [(U.socks_unwrap(b) or (None, b))[1] for b in outs]
        verbatim = all(b == lludp_in for b in outs)
    obs: Dict[str, Any] = {
        "verbatim": verbatim,
        "m_name": m_name(kind, d),
        "exc": exc,
        "n_orig": sum(n for ph, m, n in ctl.emissions if m is orig) if orig is not None else 0,
        "log_m": [e[1:] for e in ctl.log if e[0] == "M" and e[1] != "cmd"],
        "cmd_ran": any(e[0] == "M" and e[1] == "cmd" for e in ctl.log),
        "n_logged": sum(1 for ph, m in ctl.logged if m is orig) if orig is not None else 0,
        "fut_done": fut.done() if fut is not None else None,
        "acks": acks,
        "alive": bool(region.circuit.is_alive),
        "rel": bool(rel),
        "m_acks": sum(n for ph, m, n in ctl.emissions if ph == "M" and m is not orig and m.name == "PacketAck"),
        "probes": [],
    }
    # ---- probes: later traffic must be unaffected whatever happened above
    for pd in (d, IN if d == OUT else OUT):
        ctl.phase = "probe-" + pd
        n_log0 = len(ctl.log)
        data, src = datagram("ordinary", pd, 0, ())
        psends, pexc = w.deliver(0, data, src)
        pmsgs = [m for ph, m in ctl.msgs if ph == ctl.phase]
        po = pmsgs[0] if pmsgs else None
        peer = U.SIMS[0] if pd == OUT else U.VIEWERS[0]
        obs["probes"].append({
            "dir": pd, "exc": pexc,
            "n_orig": sum(n for ph, m, n in ctl.emissions if m is po) if po is not None else 0,
            "to_peer": sum(1 for x in psends if x[2] == peer), "sends": [(a_, addr) for a_, _, addr in psends],
            "log": [e[1:] for e in ctl.log[n_log0:]],
            "n_logged": sum(1 for ph, m in ctl.logged if m is po) if po is not None else 0,
        })
    total = sum(n for _, _, n in ctl.emissions)
    if total != len(w.sends) - base_sends:
        raise RuntimeError(f"C07 taps: {len(w.sends) - base_sends} sendto but {total} attributed to messages")

    viols, info = judge(cfg, kind, predict(cfg, kind), obs, tag)
    if viols and "pred_raise" in cfg.values():
        # Does the observation match "a raising predicate aborts the rest of that handler's dispatch" instead?  Then it is
        # that one defect (flagged in the report): other addons' subscribers at the same level were skipped.
        viols_now, info_now = judge(cfg, kind, predict(cfg, kind, pred_raise_aborts_level=True), obs, tag)
        if not viols_now:
            return [{"clause": "predicate-raise-stops-later-subscribers", "site": "Event.notify:predicate",
                     "detail": f"a subscriber's predicate raised; hook log {obs['log_m']} lacks later subscribers of the same "
                               f"MessageHandler that the reference dispatch {predict(cfg, kind).log} notifies"}], info_now
    if viols and kind in ("rlv1", "rlv2"):
        # Does the observation match "drop_message per handled RLV command" instead?  Then report that one defect under
        # its own clause/site (or, if the statement is not violated at all, count it) rather than as a dozen symptoms.
        viols_now, info_now = judge(cfg, kind, predict(cfg, kind, rlv_per_command_drop=True), obs, tag)
        if not viols_now:
            intended = predict(cfg, kind)
            info = info_now
            if obs["n_orig"] == 0 and intended.emitted == 1 and not intended.claimed:
                viols = [{"clause": "rlv-partial-claim", "site": "AddonManager.handle_lludp_message:rlv",
                          "detail": f"chat with RLV commands handled={intended.rlv_handled}: not every command was handled by an addon, "
                                    "yet the whole message was dropped (the viewer never sees the unhandled command)"}]
            else:
                viols = []
                info["rlv_per_command_drop_symptom"] = True
    return viols, info


def judge(cfg, kind: str, pm: Pred, obs: Dict[str, Any], tag: str) -> Tuple[List[Dict[str, str]], Dict[str, Any]]:
    """Pure: compare one execution's observations with a prediction."""
    viols: List[Dict[str, str]] = []

    def bad(clause, detail, site=None):
        viols.append({"clause": clause, "site": site or tag, "detail": detail})

    exc, n_orig = obs["exc"], obs["n_orig"]
    info = {"n_orig": n_orig, "exc": type(exc).__name__ if exc else None, "claimed": pm.claimed, "escape": bool(pm.escape),
            "log": obs["log_m"]}
    if n_orig > 1:
        bad("at-most-once", f"original datagram put on the wire {n_orig} times")
    if not pm.claimed and n_orig != 1:
        bad("exactly-once-unless-claimed", f"nobody claimed the message but it was emitted {n_orig} times (exception={exc!r})")
    if pm.claimed and n_orig != pm.emitted:
        bad("claim-respected", f"claimed message: model expects {pm.emitted} emission(s) of the original, observed {n_orig}")
    if exc is not None:
        # (for the unparseable message the proxy's RuntimeError text reprs the message, so a parse error comes out instead)
        if pm.escape and (isinstance(exc, RuntimeError) or kind == "trunc"):
            info["rejected"] = pm.escape
        else:
            bad("exception-escaped", f"{exc!r} escaped datagram_received (model predicted {pm.escape!r})",
                site=f"{type(exc).__name__}@{_first_repo_frame(exc)}|{tag}")
    elif pm.escape:
        info["rejected_not_raised"] = pm.escape
    quiet = exc is None and not pm.escape
    if quiet:
        if obs["log_m"] != pm.log:
            bad("later-hooks-run" if pm.raised else "hook-dispatch",
                f"hook invocations for the message: expected {pm.log}, observed {obs['log_m']}")
        if kind == "command" and obs["cmd_ran"] != pm.cmd_runs:
            bad("later-hooks-run" if pm.raised else "hook-dispatch", f"command coroutine ran={obs['cmd_ran']}, expected {pm.cmd_runs}")
        if obs["n_logged"] != (1 if pm.logger else 0):
            bad("bookkeeping-logger", f"message logger called {obs['n_logged']} times for the message, expected {1 if pm.logger else 0}"
                                      f" (a hook raised: {pm.raised})")
        if obs["fut_done"] is False and pm.acks:
            bad("bookkeeping-acks", f"piggy-backed ack {obs['acks']} for the proxy's own reliable packet was not collected (a hook raised: {pm.raised})")
        want_acks = 1 if (obs["rel"] and pm.dropped) else 0
        if obs["m_acks"] != want_acks:
            bad("bookkeeping-drop-ack", f"reliable={obs['rel']}, message dropped per model={pm.dropped}: the proxy emitted {obs['m_acks']} "
                                        f"PacketAck on its behalf, expected {want_acks} (a hook raised: {pm.raised})")
        if kind == "close" and pm.dead and obs["alive"]:
            bad("bookkeeping-region-death", f"CloseCircuit not claimed by any hook but the region is still alive (a hook raised: {pm.raised})")
    if obs["verbatim"] is False:
        bad("truncated-forwarded-verbatim", "a datagram with an unparseable body that no hook changed was not forwarded byte for byte")
    for pr in obs["probes"]:
        pd = pr["dir"]
        exp_probe = predict_probe(cfg, pm, obs["m_name"] == ("ChatFromViewer" if pd == OUT else "ChatFromSimulator")) if quiet else None
        if pr["n_orig"] != 1 or pr["exc"] is not None or pr["to_peer"] < 1:
            bad("next-datagram-forwarded", f"probe {pd} after the message: emitted {pr['n_orig']} times, sends={pr['sends']}, exception={pr['exc']!r}")
        if exp_probe is not None and pr["log"] != exp_probe:
            bad("later-hooks-run" if pm.raised else "hook-dispatch",
                f"hook invocations for probe {pd}: expected {exp_probe}, observed {pr['log']}", site="probe|" + tag)
        if exp_probe is not None and pr["n_logged"] != 1:
            bad("bookkeeping-logger", f"message logger called {pr['n_logged']} times for probe {pd}", site="probe|" + tag)
    return viols, info


# ---- enumeration ------------------------------------------------------------------------------------------------------
def slots_for(kind: str) -> List[Tuple[str, int]]:
    s = [(h, k) for h in ("pp", "ss", "rs", "lu") for k in range(3)]
    if kind in ("rlv1", "rlv2"):
        s += [("rlv", k) for k in range(3)]
    if kind == "command":
        s += [("cmd", 0)]
    return s


def assignments(kind: str, tier: str):
    slots = slots_for(kind)
    yield ()
    for (h, k) in slots:
        for b in BEH_ALL[h]:
            yield ((h, k, b),)
    for (s1, s2) in itertools.combinations(slots, 2):
        for b1 in BEH_REP[s1[0]]:
            for b2 in BEH_REP[s2[0]]:
                yield ((*s1, b1), (*s2, b2))
    if tier == "thorough":
        by_addon = {k: [s for s in slots if s[1] == k] for k in range(3)}
        for s0 in by_addon[0]:
            for s1 in by_addon[1]:
                for s2 in by_addon[2]:
                    for b0 in BEH_TRI[s0[0]]:
                        for b1 in BEH_TRI[s1[0]]:
                            for b2 in BEH_TRI[s2[0]]:
                                yield ((*s0, b0), (*s1, b1), (*s2, b2))


def _minimise(msg, assign, clause):
    """Drop assignments one at a time while the same clause still fails."""
    cur = list(assign)
    changed = True
    while changed and len(cur) > 1:
        changed = False
        for i in range(len(cur)):
            cand = cur[:i] + cur[i + 1:]
            try:
                vs, _ = execute(msg, tuple(cand))
            except Exception:
                continue
            if any(v["clause"] == clause for v in vs):
                cur, changed = cand, True
                break
    return tuple(cur)


def _worker(chunk):
    part = Part()
    for msg, assign in chunk:
        part.count("evaluations")
        part.count("hook_cases")
        viols, info = execute(msg, assign)
        part.outcome((msg, info["n_orig"], info["exc"], info["claimed"], tuple(info.get("log", ()))))
        if assign:
            part.mark_nontrivial((msg, assign))
        if info.get("rejected"):
            part.count("proxy_rejected_ownership_combo")
            part.count("proxy_rejected_ownership_combo:" + info["rejected"])
            if len(assign) == 1:
                part.count("proxy_rejected_single_addon_action")
        if info.get("rejected_not_raised"):
            part.count("model_predicted_rejection_not_raised")
        if info.get("rlv_per_command_drop_symptom"):
            part.count("rlv_per_command_drop_without_statement_violation")
        seen = set()
        for v in viols:
            if v["clause"] in seen:
                continue
            seen.add(v["clause"])
            small = _minimise(msg, assign, v["clause"]) if len(assign) > 1 else assign
            if small != assign:
                vs2, _ = execute(msg, small)
                v = next((x for x in vs2 if x["clause"] == v["clause"]), v)
            part.violation(v["clause"], v["site"], {"kind": "hooks", "msg": list(msg), "assign": [list(a) for a in small]}, v["detail"])
    return part.dump()


# ---- ownership state machine on the bare circuit ---------------------------------------------------------------------
class CapTransport(AbstractUDPTransport):
    def __init__(self):
        self.packets = []

    def send_packet(self, packet):
        self.packets.append(packet)

    def close(self):
        pass


OPS = ("take", "send", "drop", "queue", "sendcopy")


def machine_case(d: str, rel: int, with_acks: int, seq) -> List[Dict[str, str]]:
    from hmc import vloop
    import hippolyzer.lib.base.message.circuit as cmod
    loop = vloop.VLoop()
    vloop.install(loop, clock_modules=[cmod])
    tr = CapTransport()
    circuit = ProxiedCircuit(U.VIEWERS[0], U.SIMS[0], tr)
    flags = (0x40 if rel else 0) | (0x10 if with_acks else 0)
    wire = _msg("ordinary", d, 5, flags, (3, 4) if with_acks else ())
    msg = U._DESER.deserialize(wire)
    msg.direction = Direction.OUT if d == OUT else Direction.IN
    fin = queued = False
    orig_emitted = 0
    out = []

    def bad(clause, site, detail):
        out.append({"clause": clause, "site": site, "detail": f"after {list(seq[:n])} then {op}: {detail}"})

    for n, op in enumerate(seq):
        before = len(tr.packets)
        err = None
        try:
            if op == "take":
                msg.take()
            elif op == "send":
                circuit.send(msg)
            elif op == "drop":
                circuit.drop_message(msg)
            elif op == "queue":
                msg.queued = True
            else:
                circuit.send(msg.take())
        except Exception as e:
            err = e
        new = tr.packets[before:]
        names = [U.decode(bytes(p.data))[0] for p in new]
        if op == "send":
            if fin or queued:
                clause = "finalized-resend-raises" if fin else "send-queued-raises"
                if not isinstance(err, RuntimeError) or new:
                    bad(clause, "ProxiedCircuit.prepare_message", f"expected RuntimeError and no emission, got error={err!r} emissions={names}")
                if new:
                    orig_emitted += sum(1 for x in names if x != "PacketAck")
            else:
                if err is not None or names != [msg.name]:
                    bad("emission-count", "ProxiedCircuit.send", f"expected exactly the message on the wire, got error={err!r} emissions={names}")
                orig_emitted += len(new)
                fin = True
        elif op == "drop":
            if fin:
                if not isinstance(err, RuntimeError) or new:
                    bad("finalized-redrop-raises", "ProxiedCircuit.drop_message", f"expected RuntimeError and no emission, got error={err!r} emissions={names}")
            else:
                want = (["PacketAck"] if rel else []) + (["PacketAck"] if with_acks else [])
                if err is not None or names != want:
                    bad("emission-count", "ProxiedCircuit.drop_message", f"expected {want} on the wire, got error={err!r} emissions={names}")
                fin = True
        elif op in ("take", "queue"):
            if err is not None or new:
                bad("emission-count", "Message.take" if op == "take" else "Message.queued", f"expected nothing on the wire, got error={err!r} emissions={names}")
            if op == "queue" or not fin:
                queued = True
        else:  # sendcopy
            if err is not None or names != [msg.name]:
                bad("emission-count", "ProxiedCircuit.send(copy)", f"expected exactly one copy on the wire, got error={err!r} emissions={names}")
            if not fin:
                queued = True
        if (bool(msg.finalized), bool(msg.queued)) != (fin, queued):
            bad("ownership-flags", "Message.finalized/queued", f"model (finalized={fin}, queued={queued}) vs message ({msg.finalized}, {msg.queued})")
        if orig_emitted > 1:
            bad("at-most-once", "ProxiedCircuit.send", f"original emitted {orig_emitted} times")
    return out


def _machine_worker(chunk):
    part = Part()
    for d, rel, wa, seq in chunk:
        part.count("evaluations")
        part.count("machine_cases")
        vs = machine_case(d, rel, wa, seq)
        part.outcome(("machine", d, rel, wa, seq[-1], len(vs)))
        if len(seq) > 1:
            part.mark_nontrivial(("machine", d, rel, wa, seq))
        for v in vs:
            part.violation(v["clause"], v["site"], {"kind": "machine", "dir": d, "rel": rel, "acks": wa, "seq": list(seq)}, v["detail"])
    return part.dump()


# ---- async-subscriber family: subscribe_async / wait_for on the virtual loop -------------------------------------------
SA_BEH = ("exit_before", "raise_before", "cancel_waiting", "exit_after_1", "raise_after_1", "cancel_after_1")
WF_BEH = (("got_1", None), ("got_1", 5.0), ("timeout", 5.0), ("cancel", None), ("cancel", 5.0))


def async_cases():
    for level in ("session", "region"):
        for take in (True, False):
            for d in (OUT, IN):
                for rel1 in (0, 1):
                    for order in (0, 1):
                        # multi: 0 = one message name; "A"/"B" = two names, message 1 carries the first / the second
                        for multi in (0, "A", "B"):
                            for beh in SA_BEH:
                                yield ("subscribe_async", level, take, beh, None, d, rel1, order, multi)
                            for beh, tmo in WF_BEH:
                                yield ("wait_for", level, take, beh, tmo, d, rel1, order, multi)


def async_case(api, level, take, beh, tmo, d, rel1, order, multi=0) -> Tuple[List[Dict[str, str]], Dict[str, Any]]:
    """An addon coroutine owns an async subscription (what BaseAddon tasks, XferManager, TransferManager do), leaves it by
    some route, and *afterwards* two matching datagrams (unreliable/reliable in both orders) and one non-matching probe
    per direction arrive.  After the subscription has ended by ANY route: every later datagram is forwarded exactly once,
    the proxy makes no PacketAck on its behalf, the handler's subscriber count is back to its baseline."""
    import asyncio
    ctl = Ctl({})
    w = U.fresh(1, [], neighbour=False)
    sends, exc = w.deliver(0, U.socks_wrap(U.use_circuit_code(0, 1), U.SIMS[0]), U.VIEWERS[0])
    if exc is not None or len(sends) != 1:
        raise RuntimeError(f"C07 async setup: UseCircuitCode not forwarded ({sends!r}, {exc!r})")
    s = w.sessions[0]
    region = w.region(0, 0)
    s.main_region = region
    proto = w.protos[0]
    real_deser = proto.deserializer.deserialize

    def deser_tap(data):
        m = real_deser(data)
        ctl.msgs.append((ctl.phase, m))
        return m
    proto.deserializer.deserialize = deser_tap
    circuit = region.circuit
    real_send = circuit._send_prepared_message

    def send_tap(message, transport=None):
        n0 = len(w.sends)
        try:
            return real_send(message, transport)
        finally:
            ctl.emissions.append((ctl.phase, message, len(w.sends) - n0))
    circuit._send_prepared_message = send_tap

    H = s.message_handler if level == "session" else region.message_handler
    name = "ChatFromViewer" if d == OUT else "ChatFromSimulator"
    # the second name of a two-name subscription is the name of the same-direction "probe" datagram
    names = (name,) if not multi else (name, "AgentPause" if d == OUT else "HealthMessage")
    first = "probe" if multi == "B" else "match"

    def n_subs():
        return sum(len(H.handlers[nm]) for nm in names if nm in H.handlers)
    baseline = n_subs()
    site = (f"async:{api}:{level}:{beh}" + (f":timeout={tmo}" if api == "wait_for" else "") + f":take={take}"
            + (f":names=2,first={multi}" if multi else ""))
    viols: List[Dict[str, str]] = []

    def bad(clause, detail):
        viols.append({"clause": clause, "site": site, "detail": detail})

    pids = {OUT: 2, IN: 1}

    def send(kind_or_msg, dd, flags, phase):
        ctl.phase = phase
        pid = pids[dd]
        pids[dd] += 1
        if kind_or_msg == "match":
            lludp = _msg("ordinary", dd, pid, flags, ())
        elif dd == OUT:
            lludp = U.serialize(Message("AgentPause", Block("AgentData", AgentID=U.session_uuid(0, 2), SessionID=U.session_uuid(0, 0),
                                                            SerialNum=1), packet_id=pid, flags=flags))
        else:
            lludp = U.serialize(Message("HealthMessage", Block("HealthData", Health=1.0), packet_id=pid, flags=flags,
                                        direction=Direction.IN))
        data, src = (U.socks_wrap(lludp, U.SIMS[0]), U.VIEWERS[0]) if dd == OUT else (lludp, U.SIMS[0])
        psends, pexc = w.deliver(0, data, src)
        om = [m for ph, m in ctl.msgs if ph == phase]
        o = om[0] if om else None
        peer = U.SIMS[0] if dd == OUT else U.VIEWERS[0]
        return {"exc": pexc, "n_orig": sum(n for ph, m, n in ctl.emissions if m is o) if o is not None else 0,
                "to_peer": sum(1 for x in psends if x[2] == peer),
                "proxy_acks": sum(n for ph, m, n in ctl.emissions if ph == phase and m is not o and m.name == "PacketAck"),
                "other": sum(n for ph, m, n in ctl.emissions if ph == phase and m is not o and m.name != "PacketAck")}

    got: List[Any] = []
    task = fut = None
    if api == "subscribe_async":
        async def addon_task():
            with H.subscribe_async(names, take=take) as get_msg:
                if beh == "raise_before":
                    raise Exception("addon failure before any message")
                if beh == "exit_before":
                    return
                got.append(await get_msg())
                if beh == "raise_after_1":
                    raise Exception("addon failure after message 1")
                if beh == "cancel_after_1":
                    got.append(await get_msg())
        task = w.loop.create_task(addon_task())
        w.loop.run_ready()
        inside = beh in ("cancel_waiting", "exit_after_1", "raise_after_1", "cancel_after_1")
        if inside and n_subs() != baseline + len(names):
            bad("subscriber-count", f"inside the block: {n_subs()} subscribers, expected {baseline + len(names)}")
        if beh == "cancel_waiting":
            task.cancel()
            w.loop.run_ready()
        elif beh in ("exit_after_1", "raise_after_1", "cancel_after_1"):
            r = send(first, d, 0x40 if rel1 else 0, "msg1")
            want = 0 if take else 1
            if r["n_orig"] != want or r["exc"] is not None:
                bad("claim-respected" if take else "exactly-once-unless-claimed",
                    f"message 1 inside the block (take={take}): original emitted {r['n_orig']} times, expected {want}; exception={r['exc']!r}")
            if take and r["proxy_acks"] != (1 if rel1 else 0):
                bad("claim-respected", f"message 1 taken by the subscriber (reliable={rel1}): {r['proxy_acks']} proxy PacketAck, expected {1 if rel1 else 0}")
            if len(got) != 1:
                bad("subscriber-count", f"the subscriber coroutine received {len(got)} messages, expected 1")
            if beh == "cancel_after_1":
                task.cancel()
                w.loop.run_ready()
        if not task.done():
            bad("subscriber-count", "the addon task has not finished although its block was left")
        elif not task.cancelled():
            task.exception()   # retrieve, so that the loop does not log it
    else:
        fut = H.wait_for(names, timeout=tmo, take=take)
        w.loop.run_ready()
        if n_subs() != baseline + len(names):
            bad("subscriber-count", f"while waiting: {n_subs()} subscribers, expected {baseline + len(names)}")
        if beh == "got_1":
            r = send(first, d, 0x40 if rel1 else 0, "msg1")
            want = 0 if take else 1
            if r["n_orig"] != want or r["exc"] is not None or not fut.done():
                bad("claim-respected" if take else "exactly-once-unless-claimed",
                    f"awaited message (take={take}): original emitted {r['n_orig']} times, expected {want}; future done={fut.done()} exception={r['exc']!r}")
            if tmo:
                w.loop.advance(tmo + 0.5)   # the cancelled timeout task must not disturb anything later
        elif beh == "timeout":
            w.loop.advance(tmo + 0.5)
            if not fut.done() or fut.cancelled() or not isinstance(fut.exception(), asyncio.TimeoutError):
                bad("subscriber-count", f"wait_for(timeout={tmo}) did not fail with TimeoutError after {tmo + 0.5}s of virtual time")
        else:
            fut.cancel()
            w.loop.run_ready()
    # ---- the subscription is over: later traffic
    # A cancelled wait_for future: the statement is about traffic, so only lost/acked later datagrams are violations
    # (own clause, flagged in the report); the subscriber that merely lingers until the next matching message is counted.
    wf_cancel = api == "wait_for" and beh == "cancel"
    leak_clause = "waitfor-cancel-leak" if wf_cancel else "subscriber-leak"
    left_behind = n_subs() - baseline
    if left_behind and not wf_cancel:
        bad(leak_clause, f"after the subscription ended ({beh}): handler has {n_subs()} subscribers for {names}, baseline {baseline}")
    later = [("match", d, 0), ("match", d, 0x40)] if order == 0 else [("match", d, 0x40), ("match", d, 0)]
    later += [("probe", d, 0), ("probe", IN if d == OUT else OUT, 0x40)]
    if multi:   # the other subscribed name, reliable too (a stale taking subscriber would make the proxy ack + drop it)
        later += [("probe", d, 0x40), ("match", d, 0)]
    for n, (what, dd, flags) in enumerate(later):
        r = send(what, dd, flags, f"later{n}")
        lost = r["n_orig"] != 1 or r["to_peer"] < 1 or r["exc"] is not None
        if lost:
            bad(leak_clause if what == "match" and leak_clause == "waitfor-cancel-leak" else "next-datagram-forwarded",
                f"later datagram #{n} ({what}, {dd}, flags={flags:#x}) after {beh}: original emitted {r['n_orig']} times, "
                f"to right peer {r['to_peer']}, exception={r['exc']!r}")
        if r["proxy_acks"] or r["other"]:
            bad(leak_clause if what == "match" and leak_clause == "waitfor-cancel-leak" else "no-proxy-ack-for-forwarded",
                f"later datagram #{n} ({what}, {dd}, flags={flags:#x}) after {beh}: proxy emitted {r['proxy_acks']} PacketAck and "
                f"{r['other']} other messages of its own")
    if n_subs() != baseline:
        bad(leak_clause, f"at the end: handler has {n_subs()} subscribers for {names}, baseline {baseline}")
    info = {"n_viol": len(viols), "subs": left_behind, "wf_cancel_left_behind": bool(wf_cancel and left_behind), "task": None if task is None else ("cancelled" if task.cancelled() else "done")}
    return viols, info


def _async_worker(chunk):
    part = Part()
    for case in chunk:
        part.count("evaluations")
        part.count("async_cases")
        viols, info = async_case(*case)
        part.outcome(("async", case[0], case[3], case[2], info["subs"], info["task"], info["n_viol"]))
        if info["wf_cancel_left_behind"]:
            part.count("waitfor_cancelled_subscriber_left_until_next_message")
        part.mark_nontrivial(("async", case))
        seen = set()
        for v in viols:
            if v["clause"] in seen:
                continue
            seen.add(v["clause"])
            part.violation(v["clause"], v["site"], {"kind": "async", "case": list(case)}, v["detail"])
    return part.dump()


# ---- hot-reload family: real addon files, AddonManager._reload_addons on the datagram path ---------------------------
HR_VARIANTS = ("plain", "importer+dep-edited", "importer-edited", "importer+dep-both-edited")

_DEP_SRC = "VALUE = {v}\n"
_IMPORTER_SRC = """from hippolyzer.lib.proxy.addons import AddonManager
import hmc_c07_dep
{hot}
import hmc.udpharness as U


class FileAddon:
    def handle_lludp_message(self, session, region, message):
        U.HOOK_LOG.append(("file-addon", message.name, message.packet_id, hmc_c07_dep.VALUE))


addons = [FileAddon()]
"""


def hotreload_case(variant: str, d: str, rel: int) -> Tuple[List[Dict[str, str]], Dict[str, Any]]:
    """An addon *script* (optionally AddonManager.hot_reload()ing a dependency) is loaded through AddonManager.init, files
    are edited on disk (mtime moved forward explicitly) while the session is up, the 2-second throttle is taken out by
    clearing AddonManager.LAST_RELOAD (no sleeping, no wall clock), and datagrams are proxied: whatever the reload
    machinery does, each is put on the wire exactly once, the script's hook sees it, nothing escapes."""
    import importlib
    import os
    import shutil
    import sys
    import tempfile
    from hippolyzer.lib.proxy.addons import AddonManager
    tmp = tempfile.mkdtemp(prefix="hmc-c07-addons-")
    dep_path, imp_path = os.path.join(tmp, "hmc_c07_dep.py"), os.path.join(tmp, "hmc_c07_importer.py")
    viols: List[Dict[str, str]] = []
    site0 = f"hotreload:{variant}"

    def bad(clause, detail, site=None):
        viols.append({"clause": clause, "site": site or site0, "detail": detail})

    def write(path, text, mtime):
        with open(path, "w") as f:
            f.write(text)
        os.utime(path, (mtime, mtime))

    outcomes = []
    try:
        t0 = 1_600_000_000
        write(dep_path, _DEP_SRC.format(v=1), t0)
        write(imp_path, _IMPORTER_SRC.format(hot="" if variant == "plain" else "AddonManager.hot_reload(hmc_c07_dep)"), t0)
        importlib.invalidate_caches()
        del U.HOOK_LOG[:]
        ctl = Ctl({})
        w = U.fresh(1, [], neighbour=False)
        AddonManager.init([imp_path], w.sm, [])
        w.loop.run_ready()
        if not any(getattr(m, "addons", None) for m in AddonManager.FRESH_ADDON_MODULES.values()):
            raise RuntimeError("C07 hot-reload family: the addon script did not load")
        sends, exc = w.deliver(0, U.socks_wrap(U.use_circuit_code(0, 1), U.SIMS[0]), U.VIEWERS[0])
        if exc is not None or len(sends) != 1:
            raise RuntimeError(f"C07 hot-reload setup: UseCircuitCode not forwarded ({sends!r}, {exc!r})")
        region = w.region(0, 0)
        w.sessions[0].main_region = region
        proto = w.protos[0]
        real_deser = proto.deserializer.deserialize

        def deser_tap(data):
            m = real_deser(data)
            ctl.msgs.append((ctl.phase, m))
            return m
        proto.deserializer.deserialize = deser_tap
        real_send = region.circuit._send_prepared_message

        def send_tap(message, transport=None):
            n0 = len(w.sends)
            try:
                return real_send(message, transport)
            finally:
                ctl.emissions.append((ctl.phase, message, len(w.sends) - n0))
        region.circuit._send_prepared_message = send_tap
        pids = {OUT: 2, IN: 1}

        def proxied(phase):
            ctl.phase = phase
            AddonManager.LAST_RELOAD = None          # "more than two seconds since the last check"
            pid = pids[d]
            pids[d] += 1
            lludp = _msg("ordinary", d, pid, 0x40 if rel else 0, ())
            data, src = (U.socks_wrap(lludp, U.SIMS[0]), U.VIEWERS[0]) if d == OUT else (lludp, U.SIMS[0])
            n_log = len(U.HOOK_LOG)
            _, exc_ = w.deliver(0, data, src)
            om = [m for ph, m in ctl.msgs if ph == phase]
            o = om[0] if om else None
            n_orig = sum(n for ph, m, n in ctl.emissions if m is o) if o is not None else 0
            hooked = [e for e in U.HOOK_LOG[n_log:] if e[2] == pid]
            outcomes.append((phase, n_orig, type(exc_).__name__ if exc_ else None, len(hooked), hooked[0][3] if hooked else None))
            if exc_ is not None:
                bad("exception-escaped", f"{phase}: {exc_!r} escaped datagram_received", site=f"{type(exc_).__name__}@{_first_repo_frame(exc_)}|{site0}")
            if n_orig != 1:
                bad("exactly-once-unless-claimed", f"{phase}: nobody claimed the message but it was emitted {n_orig} times (exception={exc_!r})")
            if len(hooked) != 1:
                bad("later-hooks-run", f"{phase}: the addon script's handle_lludp_message ran {len(hooked)} times for the message")

        proxied("before-edit")
        if variant in ("importer+dep-edited", "importer+dep-both-edited"):
            write(dep_path, _DEP_SRC.format(v=2), t0 + 10)
        if variant in ("importer-edited", "importer+dep-both-edited"):
            write(imp_path, _IMPORTER_SRC.format(hot="AddonManager.hot_reload(hmc_c07_dep)") + "# edited\n", t0 + 10)
        importlib.invalidate_caches()
        proxied("first-after-edit")
        proxied("second-after-edit")
        if variant != "plain":
            write(dep_path, _DEP_SRC.format(v=3), t0 + 20)
            importlib.invalidate_caches()
            proxied("after-second-edit")
    finally:
        for name in [n for n in sys.modules if n in ("hmc_c07_dep", "hippolyzer.user_addon_hmc_c07_importer")]:
            sys.modules.pop(name, None)
        while tmp in sys.path:
            sys.path.remove(tmp)
        real = os.path.realpath(tmp)
        while real in sys.path:
            sys.path.remove(real)
        shutil.rmtree(tmp, ignore_errors=True)
        U.reset_addon_manager()
    return viols, {"outcomes": outcomes}


def _hotreload_worker(chunk):
    part = Part()
    for case in chunk:
        part.count("evaluations")
        part.count("hotreload_cases")
        viols, info = hotreload_case(*case)
        part.outcome(("hotreload", case[0], tuple(info["outcomes"])))
        part.mark_nontrivial(("hotreload", case))
        seen = set()
        for v in viols:
            if v["clause"] in seen:
                continue
            seen.add(v["clause"])
            part.violation(v["clause"], v["site"], {"kind": "hotreload", "case": list(case)}, v["detail"])
    return part.dump()


def _chunks(items, n):
    return [items[i:i + n] for i in range(0, len(items), n)]


# ---- long-run family: an addon that fails on EVERY message, for a long time ---------------------------------------------------
LONGRUN_N = {"quick": [199, 200, 201, 256, 257, 1025], "thorough": [199, 200, 201, 256, 257, 1025, 4097, 10001]}


class LongRunAddon:
    """Two instances of this ONE class are registered: instance 0 raises from every hook on every datagram, instance 1 is healthy and
    only records that it ran (addon objects sharing a class are what the addon API's own examples produce)."""

    def __init__(self, k: int, log: list, raises: bool):
        self.k, self.log, self.raises = k, log, raises

    def handle_proxied_packet(self, session_manager, packet, session, region):
        self.log.append(("pp", self.k))
        if self.raises:
            raise ValueError("addon 0 always fails")

    def handle_lludp_message(self, session, region, message):
        self.log.append(("lu", self.k))
        if self.raises:
            raise ValueError("addon 0 always fails")


def longrun_case(n: int, d: str) -> List[Dict[str, str]]:
    """n ordinary chat datagrams in direction d through a proxy with [always-failing instance, healthy instance] of one addon class, a
    session and a region subscriber that always fail and one healthy subscriber each: EVERY datagram must be forwarded exactly once, with every
    hook and subscriber invoked once, the failing ones included (a failure count must not change how later messages are treated)."""
    log: list = []
    addons = [LongRunAddon(0, log, True), LongRunAddon(1, log, False)]
    w = U.fresh(1, addons, neighbour=False)
    sends, exc = w.deliver(0, U.socks_wrap(U.use_circuit_code(0, 1), U.SIMS[0]), U.VIEWERS[0])
    if exc is not None or len(sends) != 1:
        raise RuntimeError(f"C07 longrun setup: UseCircuitCode not forwarded ({sends!r}, {exc!r})")
    s = w.sessions[0]
    region = w.region(0, 0)
    s.main_region = region

    def boom(message):
        log.append(("sub-bad", 0))
        raise ValueError("subscriber always fails")

    for hp, handler in (("ss", s.message_handler), ("rs", region.message_handler)):
        handler.register("*").subscribe(boom)
        handler.register("*").subscribe((lambda hh: lambda message: log.append((hh, 1)) and None)(hp))
    expected = sorted([("pp", 0), ("pp", 1), ("lu", 0), ("lu", 1), ("sub-bad", 0), ("sub-bad", 0), ("ss", 1), ("rs", 1)])
    viols: List[Dict[str, str]] = []
    for i in range(n):
        del log[:]
        if d == OUT:
            data, src = U.socks_wrap(_msg("ordinary", OUT, 2 + i, 0, ()), U.SIMS[0]), U.VIEWERS[0]
        else:
            data, src = _msg("ordinary", IN, 1 + i, 0, ()), U.SIMS[0]
        sends, exc = w.deliver(0, data, src)
        site = f"longrun:{d}"
        if exc is not None:
            viols.append({"clause": "exception-escaped", "site": site, "detail": f"datagram {i + 1} of {n}: {exc!r}"})
        if len(sends) != 1:
            viols.append({"clause": "exactly-once-unless-claimed", "site": site,
                          "detail": f"datagram {i + 1} of {n} (nobody claims anything): forwarded {len(sends)} times"})
        if sorted(log) != expected:
            missing = [x for x in expected if x not in log]
            viols.append({"clause": "later-hooks-run", "site": site,
                          "detail": f"datagram {i + 1} of {n}, after {i} datagrams on which addon 0 and one subscriber failed: hooks invoked {sorted(log)}, "
                                    f"expected {expected}; missing {missing}"})
        if viols:
            break
    return viols


def _longrun_worker(case):
    part = Part()
    part.count("evaluations")
    part.count("longrun_cases")
    n, d = case
    for v in longrun_case(n, d):
        part.violation(v["clause"], v["site"], {"kind": "longrun", "case": [n, d]}, v["detail"])
    part.mark_nontrivial(("longrun", n, d))
    part.outcome(("longrun", d))
    return part.dump()


def run(run: Run):
    run.rule = ("for each of 14 messages: every single non-default hook behaviour, every pair of slots over the representative "
                "behaviour list, (thorough) every one-slot-per-addon triple over the reduced list; each followed by a probe "
                "datagram per direction; plus every op sequence of length <= 4 on a bare ProxiedCircuit x 8 message variants. "
                "non-trivial = cases with >= 1 non-default behaviour / sequences of length >= 2; plus long-run family: n datagrams (n around 200, 256, 1024; "
                "thorough to 10001) x direction through two instances of one addon class of which one fails in every hook on every datagram, with an always-failing "
                "and a healthy subscriber per handler: every datagram forwarded once with every hook invoked")
    run.assumptions += [
        "hook behaviours are applied to the message under test only; for other datagrams hooks log and return None",
        "a truthy return from a MessageHandler subscriber means 'unsubscribe me' (library contract), not a claim",
        "ownership combinations the proxy itself rejects with RuntimeError are checked for the wire clauses and probes only and counted (DESIGN soundness note)",
        "BaseException subclasses outside Exception (KeyboardInterrupt/SystemExit-like) are not raised by hooks",
        "pairs use the representative behaviour list (valueerror stands for every raise; falsy returns and mutate only in singles), triples the reduced list; singles use the full list",
        "in the hook enumeration async subscribers are represented by the sync subscriber behaviour 'take' (what their wrappers do); the "
        "subscription life cycle itself (subscribe_async left normally / by exception / by cancellation, wait_for satisfied / timed out / "
        "cancelled) is enumerated separately on the virtual loop (async family)",
    ]
    items = []
    for msg in MESSAGES:
        for a in assignments(msg[0], run.tier):
            items.append((msg, a))
    for d in pmap(_worker, _chunks(items, 64), run.jobs, chunksize=1):
        run.merge(d)
    mitems = []
    for d in (OUT, IN):
        for rel in (0, 1):
            for wa in (0, 1):
                for n in range(1, 5):
                    for seq in itertools.product(OPS, repeat=n):
                        mitems.append((d, rel, wa, seq))
    for d in pmap(_machine_worker, _chunks(mitems, 128), run.jobs, chunksize=1):
        run.merge(d)
    for d in pmap(_async_worker, _chunks(list(async_cases()), 16), run.jobs, chunksize=1):
        run.merge(d)
    hr = [(v, d, rel) for v in HR_VARIANTS for d in (OUT, IN) for rel in (0, 1)]
    for d in pmap(_hotreload_worker, _chunks(hr, 2), run.jobs, chunksize=1):
        run.merge(d)
    lr = [(n, d) for n in LONGRUN_N[run.tier] for d in (OUT, IN)]
    for d in pmap(_longrun_worker, lr, run.jobs, chunksize=1):
        run.merge(d)
    run.coverage_extra.update(longrun_cases=lr)
    run.coverage_extra.update(hotreload_cases=int(run.counters.get("hotreload_cases", 0)))
    run.coverage_extra.update(async_cases=int(run.counters.get("async_cases", 0)), hook_cases=int(run.counters.get("hook_cases", 0)), machine_cases=int(run.counters.get("machine_cases", 0)),
                              messages=len(MESSAGES), fault_bound="singles+pairs" + ("+triples(one per addon)" if run.tier == "thorough" else ""))
    run.sample({"msg": ["command", OUT, 1], "assign": [["ss", 0, "take"]], "note": "single legal action + command channel"})
    run.sample({"msg": ["rlv2", IN, 0], "assign": [["rlv", 1, "true_first"], ["lu", 0, "valueerror"]]})
    run.sample({"machine": [OUT, 1, 1, ["take", "drop", "send", "sendcopy"]]})
    U.shutdown()


def replay(witness):
    kind = witness.get("kind", "hooks")
    if kind == "hooks":
        vs, info = execute(tuple(witness["msg"]), tuple(tuple(a) for a in witness["assign"]))
        return vs
    if kind == "hotreload":
        return hotreload_case(*witness["case"])[0]
    if kind == "longrun":
        return longrun_case(int(witness["case"][0]), witness["case"][1])
    if kind == "async":
        c = list(witness["case"])
        return async_case(*c)[0]
    if kind == "machine":
        return machine_case(witness["dir"], int(witness["rel"]), int(witness["acks"]), tuple(witness["seq"]))
    raise ValueError(kind)

"""C20 -- inventory, animation, mesh and chunked-transfer codecs round-trip (bounded exhaustive enumeration, DESIGN §4 C20).

Four parts, each a finite enumerated space (generators in hmc/assetgen.py).  Clauses (one per oracle sentence):

INVENTORY  (flavours: legacy text, legacy LLSD, AIS LLSD; node level and InventoryModel level; wearables; lookup enums)
  serialize-raises / parse-raises   a generated in-domain value cannot be serialised / its serialisation cannot be parsed
  node-roundtrip        parse(serialize(node)) == node                (site names class, flavour and the differing fields)
  node-fixed-point      serialize(parse(serialize(node))) == serialize(node)
  model-roundtrip       every node of the model comes back, equal, and nothing else (site names flavour + node kind + what)
  model-root            the re-parsed model has the same root container
  model-fixed-point     serialize(parse(serialize(model))) == serialize(model)
  lookup-name-roundtrip from_lookup_name(to_lookup_name(member)) is member, for every member of the four lookup enums
  wearable-roundtrip / wearable-fixed-point
ANIMATIONS (wire-first: the case is a reference wire image written with struct; quantised members are U16 grid values)
  anim-decode           from_bytes(wire) has the structure and values the wire image encodes
  anim-roundtrip        from_bytes(to_bytes(a)) == a
  anim-fixed-point      to_bytes(from_bytes(to_bytes(a))) == to_bytes(a), and to_bytes(a) == the wire image a was read from
MESH (wire-first: template-covered arrays are given as bytes, the asset is read back once to obtain the model m)
  mesh-decode           m has the vertex / triangle / weight structure the bytes encode, header extras come back equal
  mesh-roundtrip        deserialize(serialize(m)) equals m (deep, arrays by value)
  mesh-segment-bytes    serialize(m) reproduces the file m was read from; every segment inflates to the same LLSD
  mesh-raw-roundtrip    include_raw_segments / parse_segment_contents=False modes round-trip byte-identically
EDIT-AFTER-PARSE ("any model" includes models that came out of a parse and were then modified in place)
  mesh-edit-roundtrip   read with each LLMeshSerializer configuration (incl. include_raw_segments=True), edit the parsed model,
                        write with each configuration, read again: equals the EDITED model (site names edit + reader config)
  anim-edit-roundtrip   from_bytes, edit (scalars / keyframe / keyframe count / joints / constraints), to_bytes, from_bytes: equal
  model-edit-roundtrip  parse an inventory model, edit (rename / item fields / category fields / unlink / add / upsert), round trip
TRANSFERS (every arrival sequence of length n+2 over the n<=4 chunk indices, oracle after every prefix)
  sender-chunks         the sender's chunk list concatenates to length-prefix + payload, EOF flag on the last chunk only
  complete-early        done() is true before every chunk 0..eof has arrived
  complete-late         every chunk 0..eof has arrived and done() is false (or the future failed)
  complete-reverts      done() was true and is false later
  reassembly            once all chunks arrived, reassemble_chunks() == the payload that was sent
  length-prefix         after chunk 0 arrived, expected_size == len(payload)                         (Xfer only)
  handler-raises        the receive handler raised / the loop recorded an unhandled exception
  e2e-upload            XferManager.upload_asset -> XferManager.request end to end (in order) delivers the payload

Deviations from DESIGN: (1) TransferManager has no sender side in the library, so TransferPacket lists are built the way the
repo's own test (and the simulator) does it: 1000-byte chunks, Status=DONE on the last.  (2) "acks sent for every packet" is
not in the property statement and is not an oracle clause (the acks are only folded into the observed outcomes).
(3) Both ENSEMBLE folder types are exercised at enum level only (own site); node-level legacy flavours never generate them.
"""
from __future__ import annotations

import copy
import dataclasses
import itertools
import datetime as dt
import re
import struct
import warnings
import zlib
from io import StringIO
from typing import Any, Dict, List, Optional, Tuple

import numpy as np

import hippolyzer.lib.base.serialization as se
from hippolyzer.lib.base import llsd as hllsd
from hippolyzer.lib.base.datatypes import UUID, TupleCoord
from hippolyzer.lib.base.inventory import (InventoryCategory, InventoryItem, InventoryModel, InventoryObject, SchemaEnumField)
from hippolyzer.lib.base.llanim import Animation
from hippolyzer.lib.base.mesh import LLMeshSerializer, MeshAsset
from hippolyzer.lib.base.message.circuit import Circuit, ConnectionHolder
from hippolyzer.lib.base.message.message import Block, Message
from hippolyzer.lib.base.message.message_handler import MessageHandler
from hippolyzer.lib.base.message.udpdeserializer import UDPMessageDeserializer
from hippolyzer.lib.base.message.udpserializer import UDPMessageSerializer
from hippolyzer.lib.base.network.transport import Direction
from hippolyzer.lib.base.templates import (AssetType, FolderType, InventoryType, SaleType, TransferChannelType,
                                           TransferRequestParamsSimEstate, TransferSourceType, TransferStatus,
                                           TransferTargetType, EstateAssetType)
from hippolyzer.lib.base.transfer_manager import Transfer, TransferManager
from hippolyzer.lib.base.wearables import Wearable
from hippolyzer.lib.base import xfer_manager as xfer_mod
from hippolyzer.lib.base.xfer_manager import Xfer, XferManager

from hmc import assetgen as ag
from hmc import introspect as ins
from hmc import vloop
from hmc.core import Part, Run, pmap

LEVEL = "exploration"
FLAVORS = ("text", "legacy", "ais")
TRANSFER_CHUNK = 1000   # what the simulator (and tests/base/test_xfer_transfer.py) uses for TransferPacket data

warnings.simplefilter("ignore", DeprecationWarning)   # datetime.utcfromtimestamp inside the library


# =====================================================================================================================
# helpers
# =====================================================================================================================
def _exc_site(e: BaseException) -> str:
    msg = re.sub(r"[0-9a-f]{8}-[0-9a-f-]{27}", "<uuid>", str(e))
    msg = re.sub(r"b'.*|b\".*", "<bytes>", msg, flags=re.S)
    msg = re.sub(r"\d+", "#", msg)
    return f"{type(e).__name__}({msg[:60]})"


def _diff_fields(a: Any, b: Any) -> str:
    if a is None or b is None or type(a) is not type(b) or not dataclasses.is_dataclass(a):
        return f"{type(b).__name__}-for-{type(a).__name__}"
    names = []
    for f in dataclasses.fields(a):
        if not f.compare:
            continue
        va, vb = getattr(a, f.name), getattr(b, f.name)
        if va != vb or (va is None) != (vb is None):
            if dataclasses.is_dataclass(va) and dataclasses.is_dataclass(vb):
                names.append(f.name + "." + _diff_fields(va, vb))
            else:
                names.append(f.name)
    return "+".join(names[:3]) or "eq"


def _diff_keys(a: Any, b: Any) -> str:
    if isinstance(a, dict) and isinstance(b, dict):
        ks = [k for k in dict.fromkeys(list(a) + list(b)) if a.get(k, "<absent>") != b.get(k, "<absent>")]
        return "+".join(str(k) for k in ks[:3]) or "order"
    if isinstance(a, str) and isinstance(b, str):
        la, lb = a.splitlines(), b.splitlines()
        for x, y in zip(la, lb):
            if x != y:
                return (x.split() or ["?"])[0]
        return "length"
    return "value"


def _short(x: Any, n: int = 160) -> str:
    r = repr(x)
    return r if len(r) <= n else r[:n] + "..."


def _kind(node) -> str:
    if isinstance(node, InventoryCategory):
        return "category"
    if isinstance(node, InventoryObject):
        return "object"
    if isinstance(node, InventoryItem):
        return "link" if node.type == AssetType.LINK else "item"
    return type(node).__name__


# =====================================================================================================================
# INVENTORY
# =====================================================================================================================
def _codec(cls, flavor: str):
    if flavor == "text":
        return ((lambda x: x.to_str()), (lambda s: cls.from_reader(StringIO(s), read_header=True)),
                f"{cls.__name__}.to_writer", f"{cls.__name__}.from_reader")
    return ((lambda x: x.to_llsd(flavor)), (lambda d: cls.from_llsd(copy.deepcopy(d), flavor)),
            f"{cls.__name__}.to_llsd", f"{cls.__name__}.from_llsd")


def check_node(part: Part, spec: Dict[str, Any], flavor: str, family: str = "node"):
    spec = ag.restrict(spec, flavor)
    witness = {"part": "inv-node", "flavor": flavor, "spec": spec, "family": family}
    part.count("evaluations")
    part.count(f"inv_node_{flavor}")
    node = ag.build_node(spec)
    cls = type(node)
    kind = _kind(node)
    ser, par, ser_name, par_name = _codec(cls, flavor)
    tag = ""
    if family != "node":   # one root cause per family: name the family, keep kind / flavour in the detail
        ser_name = par_name = f"InventoryNodeBase:{family}"
        flavor_site = "any"
    else:
        flavor_site = flavor
    try:
        s1 = ser(node)
    except Exception as e:
        part.violation("serialize-raises", f"{ser_name}:{flavor_site}:{kind}{tag}:{_exc_site(e)}", witness, f"{e!r} for {_short(node)}")
        part.outcome(("inv", kind, flavor, "ser-raise"))
        return
    keep = copy.deepcopy(s1)
    try:
        n2 = par(s1)
    except Exception as e:
        if family != "node":
            part.violation("parse-raises", f"{par_name}:{type(e).__name__}", witness, f"{flavor} {kind}: {e!r} parsing {_short(s1, 300)}")
        else:
            part.violation("parse-raises", f"{par_name}:{flavor}:{kind}:{_exc_site(e)}", witness, f"{e!r} parsing {_short(s1, 300)}")
        part.outcome(("inv", kind, flavor, "par-raise"))
        return
    ok = True
    if n2 is None or not (n2 == node):
        ok = False
        part.violation("node-roundtrip", f"{par_name}:{flavor_site}:{kind}{tag}:{_diff_fields(node, n2)}", witness,
                       f"sent {_short(node, 400)} got {_short(n2, 400)}")
    else:
        try:
            s2 = ser(n2)
            if s2 != keep:
                ok = False
                part.violation("node-fixed-point", f"{ser_name}:{flavor_site}:{kind}{tag}:{_diff_keys(keep, s2)}", witness,
                               f"first {_short(keep, 300)} second {_short(s2, 300)}")
        except Exception as e:
            ok = False
            part.violation("node-fixed-point", f"{ser_name}:{flavor_site}:{kind}{tag}:{_exc_site(e)}", witness, repr(e))
    if flavor == "text" and ok:
        # the bytes entry points (utf-8, header line skipped as an unknown key)
        try:
            n3 = cls.from_bytes(node.to_bytes())
            if not (n3 == node):
                part.violation("node-roundtrip", f"{cls.__name__}.from_bytes:text:{kind}{tag}:{_diff_fields(node, n3)}", witness,
                               f"sent {_short(node, 300)} got {_short(n3, 300)}")
        except Exception as e:
            part.violation("parse-raises", f"{cls.__name__}.from_bytes:text:{kind}{tag}:{_exc_site(e)}", witness, repr(e))
    sig = tuple(sorted(k for k, v in spec.items() if v is not None and k not in ("k", "id", "parent", "perm")))
    part.mark_nontrivial(("inv-node", kind, flavor, sig, spec.get("meta"), spec.get("perm", {}).get("iog") is not None))
    part.outcome(("inv-node", kind, flavor, ok, zlib.crc32(repr(keep).encode("utf8", "replace")) & 0xFFFF))


def build_model(mspec) -> InventoryModel:
    model = InventoryModel()
    for s in mspec["nodes"]:
        model.add(ag.build_node(s))
    return model


def check_model(part: Part, mspec: Dict[str, Any], flavor: str):
    mspec = {"nodes": [ag.restrict(s, flavor) for s in mspec["nodes"]]}
    witness = {"part": "inv-model", "flavor": flavor, "spec": mspec}
    part.count("evaluations")
    part.count(f"inv_model_{flavor}")
    model = build_model(mspec)
    if flavor == "text":
        ser, par, ser_name, par_name = (lambda m: m.to_str()), InventoryModel.from_str, "InventoryModel.to_writer", "InventoryModel.from_reader"
    else:
        ser, par = (lambda m: m.to_llsd(flavor)), (lambda d: InventoryModel.from_llsd(copy.deepcopy(d), flavor))
        ser_name, par_name = "InventoryModel.to_llsd", "InventoryModel.from_llsd"
    try:
        s1 = ser(model)
    except Exception as e:
        part.violation("serialize-raises", f"{ser_name}:{flavor}:{_exc_site(e)}", witness, repr(e))
        return
    keep = copy.deepcopy(s1)
    try:
        m2 = par(s1)
    except Exception as e:
        part.violation("parse-raises", f"{par_name}:{flavor}:{_exc_site(e)}", witness, f"{e!r} parsing {_short(s1, 300)}")
        return
    ok = True
    for nid, node in model.nodes.items():
        got = m2.nodes.get(nid)
        if got is None:
            ok = False
            part.violation("model-roundtrip", f"{par_name}:{flavor}:{_kind(node)}-dropped", witness,
                           f"{_kind(node)} {nid} of a {len(model.nodes)}-node model is missing after the round trip "
                           f"(serialised entry: {_short([d for d in keep if nid in d.values()] if isinstance(keep, list) else '', 300)})")
        elif not (got == node):
            ok = False
            part.violation("model-roundtrip", f"{par_name}:{flavor}:{_kind(node)}:{_diff_fields(node, got)}", witness,
                           f"sent {_short(node, 300)} got {_short(got, 300)}")
    for nid in m2.nodes:
        if nid not in model.nodes:
            ok = False
            part.violation("model-roundtrip", f"{par_name}:{flavor}:extra-node", witness, f"unexpected node {nid}")
    if ok and not (m2 == model and model == m2):
        ok = False
        part.violation("model-roundtrip", f"InventoryModel.__eq__:{flavor}", witness, "node-wise equal but models compare unequal")
    if ok:
        r1 = model.root.node_id if model.root is not None else None
        r2 = m2.root.node_id if m2.root is not None else None
        if r1 != r2:
            ok = False
            part.violation("model-root", f"{par_name}:{flavor}", witness, f"root {r1} became {r2}")
        try:
            s2 = ser(m2)
            if s2 != keep:
                ok = False
                part.violation("model-fixed-point", f"{ser_name}:{flavor}", witness, f"first {_short(keep, 300)} second {_short(s2, 300)}")
        except Exception as e:
            ok = False
            part.violation("model-fixed-point", f"{ser_name}:{flavor}:{_exc_site(e)}", witness, repr(e))
    if ok and flavor == "text":
        try:
            m3 = InventoryModel.from_bytes(model.to_bytes())
            if not (m3 == model) or list(m3.nodes) != list(m2.nodes):
                ok = False
                part.violation("model-roundtrip", "InventoryModel.from_bytes:text", witness, "bytes entry points disagree with the str ones")
        except Exception as e:
            ok = False
            part.violation("parse-raises", f"InventoryModel.from_bytes:text:{_exc_site(e)}", witness, repr(e))
    kinds = tuple(_kind(n) for n in model.nodes.values())
    part.mark_nontrivial(("inv-model", flavor, kinds, tuple(s["parent"] == ag.ZERO for s in mspec["nodes"])))
    part.outcome(("inv-model", flavor, ok, kinds, len(m2.nodes), zlib.crc32(repr(keep).encode("utf8", "replace")) & 0xFFF))


def check_enum(part: Part, cls_name: str, value: int):
    cls = {"AssetType": AssetType, "InventoryType": InventoryType, "FolderType": FolderType, "SaleType": SaleType}[cls_name]
    member = cls(value)
    witness = {"part": "enum", "cls": cls_name, "value": value}
    part.count("evaluations")
    part.count("enum_members")
    try:
        name = member.to_lookup_name()
        back = cls.from_lookup_name(name)
    except Exception as e:
        part.violation("lookup-name-roundtrip", f"{cls_name}.{member.name}", witness, f"raised {e!r}")
        return
    if back is not member:
        part.violation("lookup-name-roundtrip", f"{cls_name}.{member.name}", witness,
                       f"{member!r} -> {name!r} -> {back!r}")
    field = SchemaEnumField(cls)
    for flavor in ("legacy", "ais"):
        try:
            got = field.from_llsd(field.to_llsd(member, flavor), flavor)
            if got is not member and (flavor == "ais" or back is member):
                part.violation("lookup-name-roundtrip", f"SchemaEnumField({cls_name}):{flavor}:{member.name}", witness, f"{member!r} -> {got!r}")
        except Exception as e:
            part.violation("lookup-name-roundtrip", f"SchemaEnumField({cls_name}):{flavor}:{member.name}", witness, f"raised {e!r}")
    part.mark_nontrivial(("enum", cls_name, value))
    part.outcome(("enum", cls_name, name))


def check_wearable(part: Part, spec: Dict[str, Any]):
    witness = {"part": "wearable", "spec": spec}
    part.count("evaluations")
    part.count("wearables")
    w = ag.build_wearable(spec)
    try:
        s1 = w.to_str()
    except Exception as e:
        part.violation("serialize-raises", f"Wearable.to_writer:{_exc_site(e)}", witness, repr(e))
        return
    try:
        w2 = Wearable.from_str(s1)
        w3 = Wearable.from_bytes(w.to_bytes())
    except Exception as e:
        part.violation("parse-raises", f"Wearable.from_reader:{_exc_site(e)}", witness, f"{e!r} parsing {_short(s1, 300)}")
        return
    ok = True
    for got, how in ((w2, "from_str"), (w3, "from_bytes")):
        if not (got == w):
            ok = False
            part.violation("wearable-roundtrip", f"Wearable.{how}:{_diff_fields(w, got)}", witness, f"sent {_short(w, 300)} got {_short(got, 300)}")
    if ok and w2.to_str() != s1:
        ok = False
        part.violation("wearable-fixed-point", "Wearable.to_writer", witness, f"first {_short(s1, 200)} second {_short(w2.to_str(), 200)}")
    if ok and (list(w2.parameters) != list(w.parameters) or list(w2.textures) != list(w.textures)):
        part.violation("wearable-roundtrip", "Wearable.from_reader:dict-order", witness, "parameter / texture order changed")
    part.mark_nontrivial(("wearable", spec["type"], len(spec["params"]), len(spec["textures"])))
    part.outcome(("wearable", ok, zlib.crc32(s1.encode("utf8")) & 0xFFFF))


# =====================================================================================================================
# ANIMATIONS
# =====================================================================================================================
def _close(a: float, b: float, tol: float) -> bool:
    return abs(a - b) <= tol


def _anim_decode_problems(a: Animation, s: Dict[str, Any]) -> List[Tuple[str, str]]:
    """Compare the parsed animation with what the reference wire image encodes (exact for raw members, one grid step for
    quantised ones)."""
    out: List[Tuple[str, str]] = []
    quant = tuple(s["ver"]) == (1, 0)

    def exact(site, got, exp):
        if not (got == exp) or (isinstance(exp, float) and struct.pack("<d", float(got)) != struct.pack("<d", exp) and exp != 0.0):
            out.append((site, f"got {got!r} expected {exp!r}"))

    exact("Animation.version", (a.major_version, a.minor_version), tuple(s["ver"]))
    for name in ("base_priority", "duration", "loop_in", "loop_out", "loop", "ease_in", "ease_out"):
        attr = {"loop_in": "loop_in_point", "loop_out": "loop_out_point", "ease_in": "ease_in_duration", "ease_out": "ease_out_duration"}.get(name, name)
        exact(f"Animation.{attr}", getattr(a, attr), s[name])
    exact("Animation.emote_name", a.emote_name, s["emote"])
    exact("Animation.hand_pose", int(a.hand_pose), s["hand_pose"])
    joints = list(a.joints.items(multi=True))
    if [n for n, _ in joints] != [j["name"] for j in s["joints"]]:
        out.append(("Animation.joints", f"joint names {[n for n, _ in joints]} expected {[j['name'] for j in s['joints']]}"))
        return out
    for (jname, joint), js in zip(joints, s["joints"]):
        exact("Joint.priority", joint.priority, js["priority"])
        for key, attr, lo, hi in (("rot", "rot_keyframes", -1.0, 1.0), ("pos", "pos_keyframes", -5.0, 5.0)):
            kfs = getattr(joint, attr)
            if len(kfs) != len(js[key]):
                out.append((f"Joint.{attr}", f"{len(kfs)} keyframes expected {len(js[key])}"))
                continue
            for kf, (t, v) in zip(kfs, js[key]):
                val = kf.rot if key == "rot" else kf.pos
                comps = (val.X, val.Y, val.Z)
                if quant:
                    if not _close(kf.time, ag.dequant(t, 0.0, s["duration"]), s["duration"] / 65535.0 * 1.001 + 1e-12):
                        out.append((f"{type(kf).__name__}.time", f"wire {t} duration {s['duration']} decoded {kf.time!r}"))
                    for c, u in zip(comps, v):
                        if not _close(c, ag.dequant(u, lo, hi), (hi - lo) / 65535.0 * 1.001):
                            out.append((f"{type(kf).__name__}.{key}", f"wire {u} decoded {c!r}"))
                else:
                    exact(f"{type(kf).__name__}.time", kf.time, t)
                    exact(f"{type(kf).__name__}.{key}", tuple(comps), tuple(v))
    if len(a.constraints) != len(s["constraints"]):
        out.append(("Animation.constraints", f"{len(a.constraints)} constraints expected {len(s['constraints'])}"))
        return out
    for c, cs in zip(a.constraints, s["constraints"]):
        exact("Constraint.chain_length", c.chain_length, cs["chain_length"])
        exact("Constraint.type", int(c.type), cs["type"])
        exact("Constraint.source_volume", c.source_volume, cs["source_volume"])
        exact("Constraint.target_volume", c.target_volume, cs["target_volume"])
        for nm in ("source_offset", "target_offset", "target_dir"):
            exact(f"Constraint.{nm}", tuple(getattr(c, nm)), tuple(cs[nm]))
        exact("Constraint.ease", (c.ease_in_start, c.ease_in_stop, c.ease_out_start, c.ease_out_stop), tuple(cs["ease"]))
    return out


def _anim_diff(a: Animation, b: Animation) -> str:
    for f in dataclasses.fields(a):
        va, vb = getattr(a, f.name), getattr(b, f.name)
        if va != vb:
            if f.name == "joints":
                ja, jb = list(va.items(multi=True)), list(vb.items(multi=True))
                if len(ja) != len(jb):
                    return "joints:count"
                for (na, x), (nb, y) in zip(ja, jb):
                    if na != nb:
                        return "joints:name"
                    for g in dataclasses.fields(x):
                        if getattr(x, g.name) != getattr(y, g.name):
                            return f"Joint.{g.name}"
            return f.name
    return "eq"


def _first_diff(a: bytes, b: bytes) -> int:
    return next((i for i in range(min(len(a), len(b))) if a[i] != b[i]), min(len(a), len(b)))


def check_anim(part: Part, spec: Dict[str, Any], witness: Dict[str, Any], tag: str = ""):
    part.count("evaluations")
    part.count("anims" + tag)
    ver = f"v{spec['ver'][0]}.{spec['ver'][1]}"
    wire = ag.anim_wire(spec)
    try:
        a = Animation.from_bytes(wire)
    except Exception as e:
        part.violation("anim-decode", f"Animation.from_bytes:{ver}{tag}:{_exc_site(e)}", witness, repr(e))
        return
    ok = True
    for site, detail in _anim_decode_problems(a, spec)[:4]:
        ok = False
        part.violation("anim-decode", f"{site}:{ver}{tag}", witness, detail)
    try:
        b1 = a.to_bytes()
        a2 = Animation.from_bytes(b1)
    except Exception as e:
        part.violation("anim-roundtrip", f"Animation.to_bytes:{ver}{tag}:{_exc_site(e)}", witness, repr(e))
        return
    if not (a2 == a):
        ok = False
        part.violation("anim-roundtrip", f"Animation:{ver}{tag}:{_anim_diff(a, a2)}", witness, f"first {_short(a, 300)} second {_short(a2, 300)}")
    b2 = a2.to_bytes()
    if b2 != b1:
        ok = False
        part.violation("anim-fixed-point", f"Animation.to_bytes:{ver}{tag}:reserialise", witness, f"differs at byte {_first_diff(b1, b2)}")
    if b1 != wire:
        ok = False
        i = _first_diff(b1, wire)
        part.violation("anim-fixed-point", f"Animation.to_bytes:{ver}{tag}:wire-image", witness,
                       f"to_bytes(from_bytes(wire)) differs from wire at byte {i}: {bytes(b1[i:i + 8]).hex()} vs {wire[i:i + 8].hex()}")
    part.mark_nontrivial(("anim", ver, tuple((len(j["rot"]), len(j["pos"])) for j in spec["joints"]), len(spec["constraints"]),
                          spec["hand_pose"], len({j["name"] for j in spec["joints"]}), tag, witness.get("spec", {}).get("offset")))
    part.outcome(("anim", ok, len(wire), zlib.crc32(wire)))


# =====================================================================================================================
# MESH
# =====================================================================================================================
def deep_diff(a: Any, b: Any, path: str = "") -> Optional[str]:
    """Path of the first difference between two decoded structures (numpy arrays by value), None if equal."""
    if isinstance(a, np.ndarray) or isinstance(b, np.ndarray):
        if not (isinstance(a, np.ndarray) and isinstance(b, np.ndarray)) or a.shape != b.shape or not np.array_equal(a, b):
            return path or "."
        return None
    if isinstance(a, dict):
        if not isinstance(b, dict) or set(a) != set(b):
            return f"{path}:keys"
        for k in a:
            d = deep_diff(a[k], b[k], f"{path}.{k}" if path else str(k))
            if d:
                return d
        return None
    if isinstance(a, TupleCoord):
        return None if type(a) is type(b) and tuple(a) == tuple(b) else path
    if isinstance(a, (list, tuple)) and not hasattr(a, "_fields"):
        if not isinstance(b, (list, tuple)) or len(a) != len(b):
            return f"{path}:len"
        for i, (x, y) in enumerate(zip(a, b)):
            d = deep_diff(x, y, f"{path}[]")
            if d:
                return d
        return None
    try:
        same = bool(a == b)
    except Exception:
        same = False
    return None if same else path


def _norm_path(p: str) -> str:
    """Stable site from a difference path: index brackets collapsed, concrete segment names replaced by their kind."""
    p = re.sub(r"(\[\])+", "[]", p)
    parts = p.split(".")
    for i, seg in enumerate(parts[:2]):
        base = seg.split("[")[0].split(":")[0]
        if base in ag.SEGMENT_KINDS:
            parts[i] = seg.replace(base, _seg_label(base), 1)
    return ".".join(parts)


def _mesh_write(ser, mesh, outer) -> bytes:
    w = se.BufferWriter(outer)
    w.write(ser, mesh)
    return bytes(w.copy_buffer())


def _mesh_read(ser, data, outer) -> MeshAsset:
    return se.BufferReader(outer, data).read(ser)


def _mesh_decode_problems(m: MeshAsset, spec, raw_segs) -> List[Tuple[str, str]]:
    out: List[Tuple[str, str]] = []
    extras = ag.mesh_header_extras(spec["extras"])
    for k, v in extras.items():
        if deep_diff(v, m.header.get(k)):
            out.append((f"header.{k}", f"sent {v!r} got {m.header.get(k)!r}"))
    if m.header.get("version") != 1:
        out.append(("header.version", repr(m.header.get("version"))))
    if set(m.segments) != set(raw_segs):
        out.append(("segments:keys", f"{sorted(m.segments)} expected {sorted(raw_segs)}"))
        return out
    for kind, raw in raw_segs.items():
        got = m.segments[kind]
        if kind in ag.LODS or kind == "physics_mesh":
            if len(got) != len(raw):
                out.append((f"{kind}:materials", f"{len(got)} expected {len(raw)}"))
                continue
            for gm, rm, ms in zip(got, raw, spec["materials"][kind]):
                if list(gm) != list(rm):
                    out.append((f"lod.keys", f"{list(gm)} expected {list(rm)}"))
                    continue
                if ms["nogeo"]:
                    if gm != {"NoGeometry": True}:
                        out.append(("lod.NoGeometry", repr(gm)))
                    continue
                for fld, ncomp, lo, hi in (("Position", 3, 0.0, 1.0), ("Normal", 3, -1.0, 1.0), ("TexCoord0", 2, 0.0, 1.0)):
                    if fld not in rm:
                        continue
                    us = struct.unpack("<%dH" % (len(rm[fld]) // 2), rm[fld])
                    if len(gm[fld]) != ms["nv"]:
                        out.append((f"lod.{fld}:count", f"{len(gm[fld])} vertices expected {ms['nv']}"))
                        continue
                    flat = [float(c) for v in gm[fld] for c in tuple(v)]
                    if len(flat) != len(us) or any(not _close(c, ag.dequant(u, lo, hi), (hi - lo) / 65535.0 * 0.01 + 1e-12) for c, u in zip(flat, us)):
                        out.append((f"lod.{fld}:values", f"decoded {flat[:6]} from wire {us[:6]}"))
                tris = struct.unpack("<%dH" % (len(rm["TriangleList"]) // 2), rm["TriangleList"])
                if [int(x) for t in gm["TriangleList"] for x in t] != list(tris) or any(len(t) != 3 for t in gm["TriangleList"]):
                    out.append(("lod.TriangleList", f"{gm['TriangleList']!r} expected {tris}"))
                if ms["weights"] is not None:
                    exp = ag.material_weights(ms)
                    gw = gm["Weights"]
                    if [len(x) for x in gw] != [len(x) for x in exp]:
                        out.append(("lod.Weights:lengths", f"{[len(x) for x in gw]} expected {[len(x) for x in exp]}"))
                    elif any(int(g[0]) != e[0] or not _close(float(g[1]), e[1] / 65535.0, 1e-9) for gl, el in zip(gw, exp) for g, e in zip(gl, el)):
                        out.append(("lod.Weights:values", f"{gw!r} expected {exp!r}"))
                for fld in ("PositionDomain", "TexCoord0Domain"):
                    if fld in rm and gm[fld] != rm[fld]:
                        out.append((f"lod.{fld}", f"{gm[fld]!r} expected {rm[fld]!r}"))
        elif kind == "physics_convex":
            for fld in ("BoundingVerts", "Positions"):
                if fld in raw:
                    us = struct.unpack("<%dH" % (len(raw[fld]) // 2), raw[fld])
                    flat = [float(c) for v in got[fld] for c in tuple(v)]
                    if len(flat) != len(us) or any(not _close(c, ag.dequant(u, -1.0, 1.0), 2.0 / 65535.0 * 1.001) for c, u in zip(flat, us)):
                        out.append((f"physics_convex.{fld}", f"decoded {flat[:6]} from wire {us[:6]}"))
            if "HullList" in raw and list(got["HullList"]) != list(raw["HullList"]):
                out.append(("physics_convex.HullList", repr(got["HullList"])))
            if got.get("Max") != raw["Max"] or got.get("Min") != raw["Min"]:
                out.append(("physics_convex.domain", repr(got)))
        else:
            d = deep_diff(raw, got)
            if d is not None:
                out.append((f"{'unknown' if kind.startswith('x_') else kind}.{_norm_path(d)}", f"sent {_short(raw, 200)} got {_short(got, 200)}"))
    return out


def _segment_llsd(data: bytes, outer: str) -> Tuple[Dict[str, Any], Dict[str, Any], Dict[str, bytes]]:
    """Independent split of a mesh file: header LLSD, per-segment inflated LLSD, per-segment raw bytes."""
    m = _mesh_read(LLMeshSerializer(parse_segment_contents=False, include_raw_segments=True), data, outer)
    return m.header, dict(m.segments), dict(m.raw_segments)


def _seg_label(kind: str) -> str:
    if kind in ag.LODS:
        return "lod"
    return "unknown" if kind.startswith("x_") else kind


def check_mesh(part: Part, spec: Dict[str, Any], witness: Dict[str, Any], prebuilt=None, tag: str = ""):
    part.count("evaluations")
    part.count("meshes" + tag)
    outer = spec.get("outer", "!")
    m0, raw_segs = prebuilt if prebuilt is not None else ag.build_mesh_raw(spec)
    ser = LLMeshSerializer()
    try:
        w0 = _mesh_write(ser, m0, outer)
        m = _mesh_read(ser, w0, outer)
    except Exception as e:
        part.violation("mesh-decode", f"LLMeshSerializer{tag}:{_exc_site(e)}", witness, repr(e))
        return
    ok = True
    if prebuilt is None:
        for site, detail in _mesh_decode_problems(m, spec, raw_segs)[:4]:
            ok = False
            part.violation("mesh-decode", f"mesh:{site}{tag}", witness, detail)
    try:
        w1 = _mesh_write(ser, m, outer)
        m2 = _mesh_read(ser, w1, outer)
    except Exception as e:
        part.violation("mesh-roundtrip", f"LLMeshSerializer.serialize{tag}:{_exc_site(e)}", witness, repr(e))
        return
    d = deep_diff(m.segments, m2.segments) or deep_diff(m.header, m2.header, "header")
    if d is not None:
        ok = False
        part.violation("mesh-roundtrip", f"mesh:{_norm_path(d)}{tag}", witness, f"first difference at {d}")
    if w1 != w0:
        ok = False
        try:
            h0, s0, _ = _segment_llsd(w0, outer)
            h1, s1, _ = _segment_llsd(w1, outer)
            dd = deep_diff(s0, s1) or deep_diff(h0, h1, "header") or "compressed-bytes"
        except Exception as e:
            dd = _exc_site(e)
        part.violation("mesh-segment-bytes", f"mesh:{_norm_path(dd)}{tag}", witness,
                       f"serialize(deserialize(file)) != file; first differing member {dd}")
    elif _mesh_write(ser, m2, outer) != w1:
        ok = False
        part.violation("mesh-segment-bytes", f"mesh:reserialise{tag}", witness, "second serialisation differs from the first")
    # raw-segment and unparsed modes
    try:
        ser_raw = LLMeshSerializer(include_raw_segments=True)
        mr = _mesh_read(ser_raw, w0, outer)
        raws = dict(mr.raw_segments)
        if set(raws) != set(mr.segments):
            ok = False
            part.violation("mesh-raw-roundtrip", f"mesh:raw-keys{tag}", witness, f"{sorted(raws)} vs {sorted(mr.segments)}")
        for kind, rb in raws.items():
            hdr = mr.header[kind]
            body = w0[len(w0) - _body_len(mr.header):]
            if body[hdr["offset"]:hdr["offset"] + hdr["size"]] != rb:
                ok = False
                part.violation("mesh-raw-roundtrip", f"mesh:raw-slice:{_seg_label(kind)}{tag}", witness, "raw segment is not the file slice")
        mr.segments.clear()
        w2 = _mesh_write(ser_raw, mr, outer)
        if w2 != w0:
            ok = False
            part.violation("mesh-raw-roundtrip", f"mesh:raw-mode{tag}", witness, f"file built from raw segments differs at byte {_first_diff(w2, w0)}")
        mr2 = _mesh_read(ser_raw, w2, outer)
        if dict(mr2.raw_segments) != raws:
            ok = False
            part.violation("mesh-raw-roundtrip", f"mesh:raw-mode:segments{tag}", witness, "raw segments changed")
        ser_un = LLMeshSerializer(parse_segment_contents=False)
        mu = _mesh_read(ser_un, w0, outer)
        w3 = _mesh_write(ser_un, mu, outer)
        if w3 != w0:
            ok = False
            part.violation("mesh-raw-roundtrip", f"mesh:unparsed-mode{tag}", witness, f"differs at byte {_first_diff(w3, w0)}")
    except Exception as e:
        ok = False
        part.violation("mesh-raw-roundtrip", f"mesh:raw-mode{tag}:{_exc_site(e)}", witness, repr(e))
    sig = tuple((k, tuple((ms.get("nv"), ms.get("ntri"), tuple(ms["weights"]) if ms.get("weights") is not None else None, ms["nogeo"])
                          for ms in spec["materials"].get(k, []))) for k in spec["kinds"]) if prebuilt is None else (tag, witness["spec"]["grid"])
    part.mark_nontrivial(("mesh", sig, spec.get("extras"), spec.get("reverse_header")))
    part.outcome(("mesh", ok, len(w0), zlib.crc32(w0)))


def _body_len(header: Dict[str, Any]) -> int:
    return max([h["offset"] + h["size"] for h in header.values() if isinstance(h, dict) and "offset" in h and "size" in h] or [0])


def mesh_grid_asset(g: Dict[str, Any]):
    vals = ag.grid_values(g["full"])
    member = g["grid"]
    n = len(vals)
    if member == "BoundingVerts":
        pad = (-n) % 3
        arr = vals + vals[:pad]
        seg = {"BoundingVerts": struct.pack("<%dH" % len(arr), *arr), "Max": [0.5] * 3, "Min": [-0.5] * 3}
        m = MeshAsset(header={"version": 1, "physics_convex": {"offset": 0, "size": 0}}, segments={"physics_convex": seg})
        return m, {"physics_convex": seg}
    ncomp = 2 if member == "TexCoord0" else 3
    if member == "Weights":
        # four influences per vertex and groups of 1..3 with terminator, sweeping every U16 weight value
        per_vertex, i = [], 0
        while i < n:
            ln = (len(per_vertex) % 4) + 1
            per_vertex.append([((i + j) % 255, vals[i + j]) for j in range(min(ln, n - i))])
            i += ln
        nv = len(per_vertex)
        mat = {"Position": struct.pack("<%dH" % (nv * 3), *[vals[(3 * j) % n] for j in range(nv * 3)]),
               "PositionDomain": {"Max": [0.5] * 3, "Min": [-0.5] * 3}, "TriangleList": b"", "Weights": ag.weights_wire(per_vertex)}
    else:
        pad = (-n) % ncomp
        arr = vals + vals[:pad]
        nv = len(arr) // ncomp
        mat = {"Position": struct.pack("<%dH" % (nv * 3), *([0] * (nv * 3))), "PositionDomain": {"Max": [0.5] * 3, "Min": [-0.5] * 3},
               "TriangleList": b""}
        mat[member] = struct.pack("<%dH" % len(arr), *arr)
        if member == "TexCoord0":
            mat["TexCoord0Domain"] = {"Max": [1.0, 1.0], "Min": [0.0, 0.0]}
    m = MeshAsset(header={"version": 1, "high_lod": {"offset": 0, "size": 0}}, segments={"high_lod": [mat]})
    return m, {"high_lod": [mat]}


# =====================================================================================================================
# TRANSFERS
# =====================================================================================================================
class RecCircuit(Circuit):
    """Circuit that records prepared messages instead of serialising them to a transport."""

    def __init__(self):
        super().__init__(("127.0.0.1", 1), ("127.0.0.1", 2), None)
        self.sent: List[Message] = []

    def _send_prepared_message(self, message: Message, transport=None):
        self.sent.append(message)


class CrossCircuit(Circuit):
    """Delivers to the peer's message handler on the (virtual) loop, like the repo's MockHandlingCircuit."""

    def __init__(self, loop, handler):
        super().__init__(("127.0.0.1", 1), ("127.0.0.1", 2), None)
        self._loop, self._handler = loop, handler

    def _send_prepared_message(self, message: Message, transport=None):
        self._loop.call_soon(self._handler.handle, message)


class Holder(ConnectionHolder):
    def __init__(self, circuit, handler):
        self.circuit, self.message_handler = circuit, handler


_SER = UDPMessageSerializer()
_DE = UDPMessageDeserializer()
XFER_ID = 0x1122334455
TRANSFER_ID = UUID(ag.uid(0x7F))


def _fresh_loop():
    loop = vloop.VLoop()
    vloop.install(loop)
    return loop


def _drop_loop(loop):
    import asyncio
    for t in asyncio.all_tasks(loop):
        t.cancel()
    loop.run_ready()
    excs = loop.collect_exceptions()
    vloop.uninstall()
    loop.close()
    return excs


def xfer_sender_wire(size: int) -> Tuple[List[bytes], List[str]]:
    """Run the real sender (Xfer(data=...) + serve_inbound_xfer_request) under the virtual loop; return one datagram per
    SendXferPacket in the order sent, plus sender-side problems."""
    data = ag.payload(size)
    loop = _fresh_loop()
    problems: List[str] = []
    try:
        circ, mh = RecCircuit(), MessageHandler()
        mgr = XferManager(Holder(circ, mh))
        xfer = Xfer(data=data)
        chunks = [bytes(xfer.chunks[i]) for i in sorted(xfer.chunks)]
        if sorted(xfer.chunks) != list(range(len(chunks))):
            problems.append(f"chunk indices {sorted(xfer.chunks)}")
        if b"".join(chunks) != struct.pack("<i", size) + data:
            problems.append("chunks do not concatenate to <S32 length> + payload")
        if any(len(c) > xfer_mod.MAX_CHUNK_SIZE or len(c) == 0 for c in chunks) or any(len(c) != xfer_mod.MAX_CHUNK_SIZE for c in chunks[:-1]):
            problems.append(f"chunk sizes {[len(c) for c in chunks]} (max {xfer_mod.MAX_CHUNK_SIZE})")
        task = loop.create_task(mgr.serve_inbound_xfer_request(xfer, lambda m: True, wait_for_confirm=False))
        loop.run_ready()
        mh.handle(Message("RequestXfer", Block("XferID", ID=XFER_ID, Filename=b"", FilePath=0, DeleteOnCompletion=False,
                                               UseBigPackets=False, VFileID=UUID(ag.uid(9)), VFileType=0), direction=Direction.IN))
        loop.run_ready()
        if not task.done() or task.exception() is not None:
            problems.append(f"serve_inbound_xfer_request did not finish: {task!r}")
        wires = []
        for i, m in enumerate(circ.sent):
            if m.name != "SendXferPacket":
                problems.append(f"unexpected {m.name}")
                continue
            raw = bytes(_SER.serialize(m))
            wires.append(raw)
            d = _DE.deserialize(raw)
            pkt = d["XferID"]["Packet"]
            if pkt & 0x7FFFFFFF != i or bool(pkt >> 31) != (i == len(circ.sent) - 1) or d["XferID"]["ID"] != XFER_ID:
                problems.append(f"packet {i}: id field {pkt:#x} (EOF flag must be on the last of {len(circ.sent)} only)")
            if bytes(d["DataPacket"]["Data"]) != chunks[i]:
                problems.append(f"packet {i} data differs from chunk {i}")
        if len(wires) != len(chunks):
            problems.append(f"{len(wires)} packets for {len(chunks)} chunks")
    finally:
        _drop_loop(loop)
    return wires, problems


def transfer_sender_wire(size: int) -> List[bytes]:
    """TransferPacket datagrams as the simulator sends them (the library has no Transfer sender): 1000-byte chunks,
    Status=OK except DONE on the last, an empty DONE packet for an empty payload."""
    data = ag.payload(size)
    chunks = [data[i:i + TRANSFER_CHUNK] for i in range(0, len(data), TRANSFER_CHUNK)] or [b""]
    out = []
    for i, c in enumerate(chunks):
        m = Message("TransferPacket", Block("TransferData", TransferID=TRANSFER_ID, ChannelType=int(TransferChannelType.MISC), Packet=i,
                                            Status=int(TransferStatus.DONE if i == len(chunks) - 1 else TransferStatus.OK), Data=c))
        m.packet_id = i + 1
        out.append(bytes(_SER.serialize(m)))
    return out


def transfer_info_wire(size: int) -> bytes:
    m = Message("TransferInfo", Block("TransferInfo", TransferID=TRANSFER_ID, ChannelType=int(TransferChannelType.MISC),
                                      TargetType=int(TransferTargetType.UNKNOWN), Status=int(TransferStatus.OK), Size=size, Params=b""))
    m.packet_id = 99
    return bytes(_SER.serialize(m))


MODES = ("xfer-pump", "xfer-direct", "xfer-turbo", "transfer-pump", "transfer-direct")
_HANDLER_SITE = {"xfer": "XferManager._handle_send_xfer_packet", "transfer": "TransferManager._handle_transfer_packet"}


def _await_failure(obj) -> Optional[BaseException]:
    """The exception a finished Xfer/Transfer would raise when awaited, through its public __await__ only."""
    try:
        next(obj.__await__())
    except StopIteration:
        return None
    except BaseException as e:  # noqa: BLE001
        return e
    return None


def run_history(mode: str, size: int, wires: List[bytes], seq: Tuple[int, ...], info_wire: Optional[bytes] = None) -> Tuple[List[Dict[str, str]], tuple]:
    """Deliver chunk datagrams in the order `seq` to a fresh receiver; evaluate the oracle after every arrival."""
    proto, how = mode.split("-")
    site = _HANDLER_SITE[proto]
    data = ag.payload(size)
    n = len(wires)
    viol: List[Dict[str, str]] = []

    def bad(clause, s, detail):
        if not any(v["clause"] == clause and v["site"] == s for v in viol):
            viol.append({"clause": clause, "site": s, "detail": detail})

    loop = _fresh_loop()
    try:
        circ, mh = RecCircuit(), MessageHandler()
        if proto == "xfer":
            mgr = XferManager(Holder(circ, mh))
            if how == "direct":
                obj = Xfer(XFER_ID, direction=Direction.OUT)
            else:
                obj = mgr.request(xfer_id=XFER_ID, vfile_id=UUID(ag.uid(9)), vfile_type=AssetType.BODYPART, turbo=(how == "turbo"))
        else:
            mgr = TransferManager(Holder(circ, mh), UUID(ag.uid(1)), UUID(ag.uid(2)))
            if how == "direct":
                obj = Transfer(TRANSFER_ID)
            else:
                obj = mgr.request(source_type=TransferSourceType.SIM_ESTATE, transfer_id=TRANSFER_ID,
                                  params=TransferRequestParamsSimEstate(EstateAssetType=EstateAssetType.COVENANT))
        loop.run_ready()
        direct_handler = None
        if how == "direct":
            # the per-packet handler is private; when a refactoring renames it the direct seam is skipped (the subscribed seams
            # 'plain'/'turbo'/'request' drive the same code through MessageHandler) and the skip is counted
            direct_handler = getattr(mgr, site.split(".")[1], None)
            if direct_handler is None:
                ins.note_fallback(site)
                return [], ("direct-seam-unavailable",)
        if how != "direct" and info_wire is not None:
            mh.handle(_DE.deserialize(info_wire))
            loop.run_ready()
            if obj.expected_size != size:
                bad("length-prefix", "TransferManager._handle_transfer_info", f"expected_size {obj.expected_size} for a {size}-byte payload")
        seen = set()
        was_done = False
        trace = []
        completed_early = False
        for step, idx in enumerate(seq):
            msg = _DE.deserialize(wires[idx])
            msg.direction = Direction.IN
            try:
                if how == "direct":
                    direct_handler(msg, obj)
                else:
                    mh.handle(msg)
                loop.run_ready()
            except Exception as e:
                bad("handler-raises", f"{site}:{_exc_site(e)}", f"arrival {step} (chunk {idx}) raised {e!r}")
                break
            seen.add(idx)
            model_done = len(seen) == n          # chunks 0..eof, eof = n-1
            done = bool(obj.done())
            trace.append(int(done))
            prefix = list(seq[:step + 1])
            if done and not model_done:
                completed_early = True
                bad("complete-early", site, f"{n} chunks, arrivals {prefix}: done() is true but chunks {sorted(set(range(n)) - seen)} have not arrived")
            if model_done and not done:
                bad("complete-late", site, f"{n} chunks, arrivals {prefix}: all chunks arrived, done() is false")
            if done and (obj.cancelled() or _await_failure(obj) is not None):
                bad("complete-late", site + ":failed", f"arrivals {prefix}: future failed: {_await_failure(obj)!r}")
            if was_done and not done:
                bad("complete-reverts", site, f"arrivals {prefix}: done() went back to false")
            was_done = was_done or done
            if proto == "xfer" and 0 in seen and obj.expected_size != size and not (how != "direct" and completed_early):
                bad("length-prefix", site, f"expected_size {obj.expected_size} for a {size}-byte payload")
            if model_done and not (how != "direct" and completed_early):
                got = bytes(obj.reassemble_chunks())
                if got != data:
                    i = _first_diff(got, data)
                    bad("reassembly", f"{'Xfer' if proto == 'xfer' else 'Transfer'}.reassemble_chunks",
                        f"{n} chunks, arrivals {prefix}: {len(got)} bytes reassembled for a {len(data)}-byte payload, first difference at {i}")
        acks = sum(1 for m in circ.sent if m.name == "ConfirmXferPacket")
    finally:
        excs = _drop_loop(loop)
    for e in excs:
        if "CancelledError" not in str(e):
            bad("handler-raises", f"{site}:loop", f"unhandled on the loop: {e}")
    return viol, (mode, n, tuple(trace), acks if how != "turbo" else min(acks, 99))


def e2e_upload(size: int) -> List[Dict[str, str]]:
    """The repo's own upload scenario (client upload_asset <-> server XferManager.request) on the virtual loop."""
    data = ag.payload(size)
    viol: List[Dict[str, str]] = []
    loop = _fresh_loop()
    received: Dict[str, Any] = {}
    try:
        server_mh, client_mh = MessageHandler(), MessageHandler()
        client = Holder(CrossCircuit(loop, server_mh), client_mh)
        server = Holder(CrossCircuit(loop, client_mh), server_mh)
        secure = UUID(ag.uid(0x5E))
        cm = XferManager(client, secure)

        async def serve():
            msg = await server_mh.wait_for(("AssetUploadRequest",), timeout=10.0)
            blk = msg["AssetBlock"]
            asset_id = UUID.combine(blk["TransactionID"], secure)
            if blk["AssetData"]:
                received["data"], received["path"] = bytes(blk["AssetData"]), "inline"
            else:
                xfer = await XferManager(server).request(xfer_id=XFER_ID, vfile_id=asset_id, vfile_type=AssetType.BODYPART)
                received["data"], received["path"], received["size"] = bytes(xfer.reassemble_chunks()), "xfer", xfer.expected_size
            server.circuit.send(Message("AssetUploadComplete", Block("AssetBlock", UUID=asset_id, Type=blk["Type"], Success=True),
                                        direction=Direction.IN))

        st = loop.create_task(serve())
        loop.run_ready()
        fut = cm.upload_asset(AssetType.BODYPART, data, transaction_id=UUID(ag.uid(0x7A)))
        loop.run_ready()
        if not fut.done() or fut.exception() is not None or not st.done() or st.exception() is not None:
            viol.append({"clause": "e2e-upload", "site": "XferManager.upload_asset:incomplete",
                         "detail": f"{size}-byte upload did not complete: upload={fut!r} server={st!r}"})
        elif received.get("data") != data:
            viol.append({"clause": "e2e-upload", "site": f"XferManager.upload_asset:{received.get('path')}",
                         "detail": f"{size}-byte upload delivered {len(received.get('data', b''))} bytes via {received.get('path')}"})
        elif received.get("path") == "xfer" and received.get("size") != size:
            viol.append({"clause": "length-prefix", "site": "XferManager.upload_asset:xfer", "detail": f"size hint {received.get('size')} for {size} bytes"})
    except Exception as e:
        viol.append({"clause": "e2e-upload", "site": f"XferManager.upload_asset:{_exc_site(e)}", "detail": repr(e)})
    finally:
        excs = _drop_loop(loop)
    for e in excs:
        if "CancelledError" not in str(e):
            viol.append({"clause": "e2e-upload", "site": "XferManager.upload_asset:loop", "detail": str(e)})
    return viol


_WIRE_CACHE: Dict[Tuple[str, int], Any] = {}


def _wires_for(proto: str, size: int):
    key = (proto, size)
    if key not in _WIRE_CACHE:
        if proto == "xfer":
            _WIRE_CACHE[key] = xfer_sender_wire(size)
        else:
            _WIRE_CACHE[key] = (transfer_sender_wire(size), [])
    return _WIRE_CACHE[key]


def check_sender(part: Part, proto: str, size: int):
    wires, problems = _wires_for(proto, size)
    n = len(wires)
    part.count("evaluations")
    part.count("sender_runs")
    for p in problems:
        part.violation("sender-chunks", "Xfer.__init__/XferManager.serve_inbound_xfer_request", {"part": "sender", "size": size}, p)
    exp_n = _n_chunks(proto, size)
    if n != exp_n:
        part.violation("sender-chunks", "Xfer.__init__:count", {"part": "sender", "size": size}, f"{n} chunks for {size} bytes, expected {exp_n}")


def long_orders(n: int) -> List[Tuple[str, Tuple[int, ...]]]:
    """Closed-form arrival orders for a transfer of MANY chunks (the exhaustive sequences stop at 4 chunks): every chunk j arriving last
    (all others in order), reverse order, evens then odds, rotation by every k, and each of those followed by a duplicate of chunk 0 and of the
    end-marked chunk.  Anything keyed on "how far behind / ahead of the newest chunk" (ack-ahead windows, stale-resend filters) is crossed."""
    base: List[Tuple[str, Tuple[int, ...]]] = [("in-order", tuple(range(n))), ("reverse", tuple(reversed(range(n)))),
                                              ("evens-odds", tuple(range(0, n, 2)) + tuple(range(1, n, 2)))]
    for j in range(n):
        base.append((f"late-{j}", tuple(i for i in range(n) if i != j) + (j,)))
    for k in range(1, n):
        base.append((f"rot-{k}", tuple(range(k, n)) + tuple(range(k))))
    out = []
    for name, seq in base:
        out.append((name, seq))
        out.append((name + "+dups", seq + (0, n - 1)))
    return out


def check_transfer_long(part: Part, mode: str, nchunks: int):
    proto = mode.split("-")[0]
    chunk = xfer_mod.MAX_CHUNK_SIZE if proto == "xfer" else TRANSFER_CHUNK
    size = chunk * nchunks - (7 if proto == "xfer" else 3)     # nchunks chunks, the last one partial
    wires, _problems = _wires_for(proto, size)
    n = len(wires)
    if n != nchunks:
        raise RuntimeError(f"C20 long family: {size} bytes gave {n} chunks, wanted {nchunks}")
    info = transfer_info_wire(size) if proto == "transfer" else None
    for name, seq in long_orders(n):
        part.count("evaluations")
        part.count("long_histories")
        part.count("arrivals", len(seq))
        viol, obs = run_history(mode, size, wires, seq, info)
        for v in viol:
            part.violation(v["clause"], v["site"] + ":many-chunks", {"part": "transfer", "mode": mode, "size": size, "seq": list(seq)}, v["detail"])
        part.outcome(("long", mode, name.split("-")[0], obs[1] if len(obs) > 1 else None))
        part.mark_nontrivial(("transfer-long", mode, n, name))


def check_transfer_block(part: Part, mode: str, size: int, first: Optional[Tuple[int, ...]], extra: int = 2):
    """All arrival sequences (length n+extra) of one (mode, payload size), optionally only those starting with the index
    tuple `first` (work split)."""
    proto = mode.split("-")[0]
    wires, problems = _wires_for(proto, size)
    n = len(wires)
    info = transfer_info_wire(size) if proto == "transfer" else None
    if (first is None or not any(first)) and mode == "xfer-direct":
        check_sender(part, proto, size)
    if n == 0:
        return
    for seq in ag.arrival_sequences(n, extra):
        if first is not None and seq[:len(first)] != tuple(first):
            continue
        part.count("evaluations")
        part.count("histories")
        part.count("arrivals", len(seq))
        viol, obs = run_history(mode, size, wires, seq, info)
        for v in viol:
            part.violation(v["clause"], v["site"], {"part": "transfer", "mode": mode, "size": size, "seq": list(seq)}, v["detail"])
        part.outcome(obs)
        if len(set(seq)) == n and list(seq[:n]) != sorted(seq[:n]):
            part.mark_nontrivial(("transfer", mode, size, seq))


# =====================================================================================================================
# EDIT-AFTER-PARSE ("serialise-then-parse of any model", including models that came out of a parse)
# =====================================================================================================================
# LLMeshSerializer(parse_segment_contents, allow_invalid_segments, include_raw_segments): every combination is used as a
# writer; the four parse_segment_contents=True ones as readers whose output is edited, the other four as no-edit readers.
MESH_CFGS = [(p, a, r) for p in (True, False) for a in (False, True) for r in (False, True)]
MESH_READERS_QUICK = [(True, False, True), (True, False, False)]
MESH_WRITERS_QUICK = [(True, False, False), (True, False, True), (True, True, False)]


def _cfg_name(c) -> str:
    return "".join(ch for ch, on in zip("PAR", c) if on) or "none"   # P=parse contents, A=allow invalid, R=include raw


def _mk_ser(c) -> LLMeshSerializer:
    return LLMeshSerializer(parse_segment_contents=c[0], allow_invalid_segments=c[1], include_raw_segments=c[2])


def _geo_materials(m: MeshAsset):
    for kind, seg in m.segments.items():
        if (kind in ag.LODS or kind == "physics_mesh") and isinstance(seg, list):
            for mat in seg:
                if isinstance(mat, dict) and "Position" in mat:
                    yield kind, mat


def _e_vertex(m):
    from hippolyzer.lib.base.datatypes import Vector3
    for _, mat in _geo_materials(m):
        pos = mat["Position"]
        if pos:
            new = Vector3(0.0, 0.0, 0.0) if tuple(pos[0]) != (0.0, 0.0, 0.0) else (copy.deepcopy(pos[-1]) if tuple(pos[-1]) != tuple(pos[0]) else None)
            if new is None:
                continue
            pos[0] = new
            return True
    return False


def _e_vertex_add(m):
    from hippolyzer.lib.base.datatypes import Vector2, Vector3
    for _, mat in _geo_materials(m):
        mat["Position"].append(Vector3(0.0, 0.0, 0.0))       # grid points of each member's domain
        if "Normal" in mat:
            mat["Normal"].append(Vector3(-1.0, -1.0, -1.0))
        if "TexCoord0" in mat:
            mat["TexCoord0"].append(Vector2(0.0, 0.0))
        if "Weights" in mat:
            mat["Weights"].append([])
        return True
    return False


def _e_weight(m):
    from hippolyzer.lib.base.mesh import VertexWeight
    for _, mat in _geo_materials(m):
        for infl in mat.get("Weights", ()):
            if infl:
                infl[0] = VertexWeight((int(infl[0].joint_idx) + 1) % 255, infl[0].weight)
                return True
    for _, mat in _geo_materials(m):
        for infl in mat.get("Weights", ()):
            infl.append(VertexWeight(3, 1.0))
            return True
    return False


def _e_weight_drop(m):
    for _, mat in _geo_materials(m):
        for infl in mat.get("Weights", ()):
            if infl:
                infl.pop()
                return True
    return False


def _e_material_add(m):
    for kind, seg in m.segments.items():
        if (kind in ag.LODS or kind == "physics_mesh") and isinstance(seg, list) and seg:
            seg.append(copy.deepcopy(seg[0]))
            return True
    return False


def _e_material_drop(m):
    for kind, seg in m.segments.items():
        if (kind in ag.LODS or kind == "physics_mesh") and isinstance(seg, list) and len(seg) > 1:
            seg.pop()
            return True
    return False


def _e_lod_remove(m):
    for kind in list(m.segments):
        if kind in ag.LODS:
            m.segments.pop(kind)
            m.raw_segments.pop(kind, None)
            m.header.pop(kind, None)
            return True
    return False


def _e_lod_add(m):
    have = [k for k in m.segments if k in ag.LODS]
    free = [k for k in ag.LODS if k not in m.segments and k not in m.header]
    if have and free:
        m.segments[free[0]] = copy.deepcopy(m.segments[have[0]])
        m.header[free[0]] = {"offset": 0, "size": 0}
        return True
    return False


def _e_segment_add(m):
    m.segments["x_added_segment"] = {"note": "added after parse", "n": [1, 2, 3]}
    m.header["x_added_segment"] = {"offset": 0, "size": 0}
    return True


def _e_header(m):
    m.header["creator"] = UUID(ag.uid(0x99))
    m.header["physics_cost_data"] = {"hull": 0.5, "mesh_triangles": 3}
    return True


def _e_skin(m):
    skin = m.segments.get("skin")
    if isinstance(skin, dict) and "joint_names" in skin:
        skin["pelvis_offset"] = 0.75
        skin["joint_names"] = list(skin["joint_names"]) + ["mAdded"]
        return True
    return False


def _e_convex(m):
    from hippolyzer.lib.base.datatypes import Vector3
    cv = m.segments.get("physics_convex")
    if isinstance(cv, dict) and cv.get("BoundingVerts"):
        cv["BoundingVerts"] = list(cv["BoundingVerts"]) + [Vector3(-1.0, -1.0, -1.0)]
        return True
    return False


MESH_EDITS = (("none", lambda m: True), ("vertex", _e_vertex), ("vertex-add", _e_vertex_add), ("weight", _e_weight),
              ("weight-drop", _e_weight_drop), ("material-add", _e_material_add), ("material-drop", _e_material_drop),
              ("lod-remove", _e_lod_remove), ("lod-add", _e_lod_add), ("segment-add", _e_segment_add), ("header", _e_header),
              ("skin", _e_skin), ("convex", _e_convex))


def _header_view(h: Dict[str, Any]) -> Dict[str, Any]:
    """Header without the offset/size members the writer owns."""
    out = {}
    for k, v in h.items():
        if isinstance(v, dict) and "offset" in v and "size" in v:
            out[k] = {a: b for a, b in v.items() if a not in ("offset", "size")}
        else:
            out[k] = v
    return out


def check_mesh_edits(part: Part, spec: Dict[str, Any], grid: str):
    """Parse the case with each reader configuration, edit the *parsed* model in place, write it with each writer
    configuration, parse again: the result must equal the edited model.  grid = 'quick' | 'full' (reader x writer grid)."""
    outer = spec.get("outer", "!")
    m0, _ = ag.build_mesh_raw(spec)
    try:
        w0 = _mesh_write(LLMeshSerializer(), m0, outer)
    except Exception:
        return   # reported by check_mesh
    readers = [c for c in MESH_CFGS if c[0]] if grid == "full" else MESH_READERS_QUICK
    writers = MESH_CFGS if grid == "full" else MESH_WRITERS_QUICK
    plain = LLMeshSerializer()
    for rc in readers:
        rname = _cfg_name(rc)
        try:
            base = _mesh_read(_mk_ser(rc), w0, outer)
        except Exception as e:
            part.violation("mesh-edit-roundtrip", f"mesh:read-{rname}:{_exc_site(e)}", {"part": "mesh-edit", "spec": spec, "grid": grid}, repr(e))
            continue
        for ename, edit in MESH_EDITS:
            m = copy.deepcopy(base)
            if not edit(m):
                continue
            want_segments, want_header = copy.deepcopy(dict(m.segments)), _header_view(copy.deepcopy(dict(m.header)))
            for wc in (writers if grid == "full" or ename == "none" else writers[:1]):
                part.count("evaluations")
                part.count("mesh_edit_roundtrips")
                witness = {"part": "mesh-edit", "spec": spec, "grid": grid, "reader": list(rc), "edit": ename, "writer": list(wc)}
                site = f"mesh:edited-{ename}:read-{rname}"
                try:
                    w1 = _mesh_write(_mk_ser(wc), m, outer)
                    m2 = _mesh_read(plain, w1, outer)
                except Exception as e:
                    part.violation("mesh-edit-roundtrip", f"{site}:{_exc_site(e)}", witness, f"writer {_cfg_name(wc)}: {e!r}")
                    continue
                d = deep_diff(want_segments, dict(m2.segments)) or deep_diff(want_header, _header_view(m2.header), "header")
                if d is not None:
                    part.violation("mesh-edit-roundtrip", f"{site}:{_norm_path(d)}", witness,
                                   f"reader {rname}, edit {ename}, writer {_cfg_name(wc)}: re-parsed model differs from the edited one at {d}")
                if ename == "none" and w1 != w0:
                    part.violation("mesh-segment-bytes", f"mesh:untouched:read-{rname}", witness,
                                   f"writer {_cfg_name(wc)}: untouched model does not reproduce the file (byte {_first_diff(w1, w0)})")
            part.mark_nontrivial(("mesh-edit", rname, ename, tuple(spec["kinds"])))
        part.outcome(("mesh-edit", rname, len(w0), zlib.crc32(w0)))
    if grid == "full":   # readers that keep segment contents unparsed: no model to edit, every writer must reproduce the file
        for rc in [c for c in MESH_CFGS if not c[0]]:
            try:
                base = _mesh_read(_mk_ser(rc), w0, outer)
                for wc in writers:
                    part.count("evaluations")
                    part.count("mesh_edit_roundtrips")
                    if _mesh_write(_mk_ser(wc), base, outer) != w0:
                        part.violation("mesh-raw-roundtrip", f"mesh:unparsed:read-{_cfg_name(rc)}",
                                       {"part": "mesh-edit", "spec": spec, "grid": grid}, f"writer {_cfg_name(wc)} does not reproduce the file")
            except Exception as e:
                part.violation("mesh-raw-roundtrip", f"mesh:unparsed:read-{_cfg_name(rc)}:{_exc_site(e)}", {"part": "mesh-edit", "spec": spec, "grid": grid}, repr(e))


def _anim_edits(a: Animation, quant: bool):
    """(name, edited copy) pairs; new values are taken from the parsed animation itself or are exact grid points."""
    from hippolyzer.lib.base.llanim import Constraint, Joint, PosKeyframe, RotKeyframe
    from hippolyzer.lib.base.datatypes import Quaternion, Vector3

    def cp():
        return copy.deepcopy(a)

    out = []
    from hippolyzer.lib.base.llanim import HandPose
    b = cp()
    b.hand_pose = HandPose((int(a.hand_pose) + 1) % ag.N_HAND_POSES)
    b.emote_name, b.base_priority, b.loop = a.emote_name + "x", a.base_priority + 1, 1 - a.loop
    out.append(("scalars", b))
    joints = list(a.joints.items(multi=True))
    for ji, (name, j) in enumerate(joints):
        if j.rot_keyframes or j.pos_keyframes:
            b = cp()
            bj = list(b.joints.items(multi=True))[ji][1]
            if bj.rot_keyframes:
                kf = bj.rot_keyframes[0]
                kf.time = 0.0 if kf.time != 0.0 else bj.rot_keyframes[-1].time
                kf.rot = Quaternion(0.0, 0.0, 0.0) if tuple(kf.rot) != tuple(Quaternion(0.0, 0.0, 0.0)) else copy.deepcopy(bj.rot_keyframes[-1].rot)
            if bj.pos_keyframes:
                kf = bj.pos_keyframes[-1]
                kf.pos = Vector3(0.0, 0.0, 0.0) if tuple(kf.pos) != (0.0, 0.0, 0.0) else copy.deepcopy(bj.pos_keyframes[0].pos)
            bj.priority = j.priority - 1 if j.priority > 0 else j.priority + 1
            out.append(("keyframe", b))
            b = cp()
            bj = list(b.joints.items(multi=True))[ji][1]
            if bj.rot_keyframes:
                bj.rot_keyframes.append(copy.deepcopy(bj.rot_keyframes[0]))
                bj.pos_keyframes.append(PosKeyframe(time=bj.rot_keyframes[0].time, pos=Vector3(0.0, 0.0, 0.0)))
            else:
                bj.pos_keyframes.pop()
                bj.rot_keyframes.append(RotKeyframe(time=0.0, rot=Quaternion(0.0, 0.0, 0.0)))
            out.append(("keyframe-count", b))
            break
    b = cp()
    b.joints.add("mAdded", Joint(priority=3, rot_keyframes=[RotKeyframe(time=0.0, rot=Quaternion(0.0, 0.0, 0.0))], pos_keyframes=[]))
    if joints:
        b.joints.add(joints[0][0], Joint(priority=2, rot_keyframes=[], pos_keyframes=[]))   # duplicate name on purpose
    out.append(("joint-add", b))
    if joints:
        b = cp()
        rest = joints[1:]
        b.joints = type(a.joints)([(n, copy.deepcopy(j)) for n, j in rest])
        out.append(("joint-remove", b))
    b = cp()
    if b.constraints:
        b.constraints.pop()
    else:
        b.constraints.append(Constraint(chain_length=2, type=1, source_volume="mPelvis", source_offset=Vector3(0.5, 0.25, -1.0),
                                        target_volume="", target_offset=Vector3(0.0, 0.0, 0.0), target_dir=Vector3(0.0, 1.0, 0.0),
                                        ease_in_start=0.0, ease_in_stop=0.5, ease_out_start=1.0, ease_out_stop=0.25))
    out.append(("constraint", b))
    return out


def check_anim_edits(part: Part, spec: Dict[str, Any]):
    ver = f"v{spec['ver'][0]}.{spec['ver'][1]}"
    try:
        a = Animation.from_bytes(ag.anim_wire(spec))
        edits = _anim_edits(a, tuple(spec["ver"]) == (1, 0))
    except Exception:
        return   # reported by check_anim
    for ename, b in edits:
        part.count("evaluations")
        part.count("anim_edit_roundtrips")
        witness = {"part": "anim-edit", "spec": spec, "edit": ename}
        try:
            w1 = b.to_bytes()
            b2 = Animation.from_bytes(w1)
        except Exception as e:
            part.violation("anim-edit-roundtrip", f"Animation:{ver}:edited-{ename}:{_exc_site(e)}", witness, repr(e))
            continue
        if not (b2 == b):
            part.violation("anim-edit-roundtrip", f"Animation:{ver}:edited-{ename}:{_anim_diff(b, b2)}", witness,
                           f"edited {_short(b, 300)} re-parsed {_short(b2, 300)}")
        elif b2.to_bytes() != w1:
            part.violation("anim-fixed-point", f"Animation.to_bytes:{ver}:edited-{ename}", witness, "second serialisation differs")
        part.mark_nontrivial(("anim-edit", ver, ename, len(spec["joints"]), len(spec["constraints"])))
        part.outcome(("anim-edit", ename, zlib.crc32(bytes(w1))))


def _model_codec(flavor: str):
    if flavor == "text":
        return (lambda m: m.to_str()), InventoryModel.from_str, "InventoryModel.from_reader"
    return (lambda m: m.to_llsd(flavor)), (lambda d: InventoryModel.from_llsd(copy.deepcopy(d), flavor)), "InventoryModel.from_llsd"


def _model_edits(flavor: str):
    def rename(m):
        n = next(iter(m.nodes.values()))
        n.name = "edited after parse"
        return True

    def item_fields(m):
        for n in m.nodes.values():
            if isinstance(n, InventoryItem) and not (flavor == "ais" and n.type == AssetType.LINK):
                n.flags = 0x00100000 if n.flags != 0x00100000 else 1
                n.desc = None if n.desc is not None else "added desc"
                n.permissions.next_owner_mask = 0x0008E000 if n.permissions.next_owner_mask != 0x0008E000 else 0
                return True
        return False

    def category_fields(m):
        for n in m.nodes.values():
            if isinstance(n, InventoryCategory):
                n.pref_type = FolderType.TRASH if n.pref_type != FolderType.TRASH else FolderType.NONE
                n.owner_id = None if n.owner_id is not None else UUID(ag.uid(0xA7))
                if flavor != "text":
                    n.version = n.version + 1
                return True
        return False

    def remove(m):
        if not m.nodes:
            return False
        m.unlink(list(m.nodes.values())[-1], single_only=True)
        return True

    def add(m):
        m.add(ag.build_node(ag.restrict(ag.item_spec(ag.ALL_ITEM, 2, 9, ident=0x1F0, parent=ag.uid(0x100)), flavor)))
        m.add(ag.build_node(ag.restrict(ag.category_spec(ag.CATEGORY, 14, True, 2, 1, 4, ident=0x1F1, parent=ag.uid(0x1F0)), flavor)))
        return True

    def upsert(m):
        if not m.nodes:
            return False
        old = next(iter(m.nodes.values()))
        new = copy.copy(old)
        new.model = None
        new.name = "upserted"
        new.parent_id = UUID(ag.uid(0x1FE))
        m.upsert(new)
        return True

    return (("rename", rename), ("item-fields", item_fields), ("category-fields", category_fields), ("remove", remove), ("add", add),
            ("upsert", upsert))


def check_model_edits(part: Part, mspec: Dict[str, Any], flavor: str, only: Optional[int] = None):
    """only = index of the single edit to apply (quick tier rotates the edits over the 3-node models); None = every edit."""
    mspec = {"nodes": [ag.restrict(s, flavor) for s in mspec["nodes"]]}
    ser, par, par_name = _model_codec(flavor)
    edits = _model_edits(flavor)
    for ename, edit in (edits if only is None else [edits[only % len(edits)]]):
        witness = {"part": "inv-model-edit", "flavor": flavor, "spec": mspec, "edit": ename}
        try:
            m = par(ser(build_model(mspec)))          # the model under edit came out of a parse
            if len(m.nodes) != len(mspec["nodes"]) or not edit(m):
                continue
        except Exception:
            return   # reported by check_model
        part.count("evaluations")
        part.count("inv_model_edit_roundtrips")
        try:
            s1 = ser(m)
            m2 = par(s1)
        except Exception as e:
            part.violation("model-edit-roundtrip", f"{par_name}:{flavor}:edited-{ename}:{_exc_site(e)}", witness, repr(e))
            continue
        bad = None
        for nid, node in m.nodes.items():
            got = m2.nodes.get(nid)
            if got is None:
                bad = f"{_kind(node)}-dropped"
            elif not (got == node):
                bad = f"{_kind(node)}:{_diff_fields(node, got)}"
            if bad:
                break
        if bad is None and set(m2.nodes) != set(m.nodes):
            bad = "extra-node"
        if bad is not None:
            part.violation("model-edit-roundtrip", f"{par_name}:{flavor}:edited-{ename}:{bad}", witness,
                           f"edited model {_short(list(m.nodes.values()), 300)} re-parsed {_short(list(m2.nodes.values()), 300)}")
        elif ser(m2) != s1:
            part.violation("model-fixed-point", f"InventoryModel:{flavor}:edited-{ename}", witness, "second serialisation differs")
        part.mark_nontrivial(("inv-model-edit", flavor, ename, tuple(s["k"] for s in mspec["nodes"])))
        part.outcome(("inv-model-edit", flavor, ename, len(m2.nodes)))


# =====================================================================================================================
# work units
# =====================================================================================================================
_FULL = False


def _chunks(items: List[Any], size: int) -> List[List[Any]]:
    return [items[i:i + size] for i in range(0, len(items), size)]


def _work(unit):
    kind, payload = unit
    part = Part()
    if kind == "inv-node":
        flavor, family, specs = payload
        for s in specs:
            check_node(part, s, flavor, family)
        if specs:
            part.sample({"part": "inv-node", "flavor": flavor, "spec": ag.restrict(specs[len(specs) // 2], flavor)}, limit=1)
    elif kind == "inv-model":
        flavor, specs = payload
        for i, s in enumerate(specs):
            check_model(part, s, flavor)
            check_model_edits(part, s, flavor, None if (_FULL or len(s["nodes"]) < 3) else i)
    elif kind == "enum":
        for cls_name, v in payload:
            check_enum(part, cls_name, v)
    elif kind == "wearable":
        for s in payload:
            check_wearable(part, s)
    elif kind == "anim":
        for s in payload:
            check_anim(part, s, {"part": "anim", "spec": s})
            check_anim_edits(part, s)
    elif kind == "anim-grid":
        for g in payload:
            check_anim(part, ag.anim_grid_spec(g), {"part": "anim-grid", "spec": g}, tag=f":grid-{g['grid']}")
            part.count("grid_values", g["count"])
    elif kind == "mesh":
        for s in payload:
            check_mesh(part, s, {"part": "mesh", "spec": s})
            check_mesh_edits(part, s, "full" if (_FULL and s.get("grid_full")) else "quick")
        if payload:
            part.sample({"part": "mesh", "kinds": payload[0]["kinds"]}, limit=1)
    elif kind == "mesh-grid":
        for g in payload:
            check_mesh(part, {"outer": "!", "kinds": [], "materials": {}}, {"part": "mesh-grid", "spec": g}, prebuilt=mesh_grid_asset(g),
                       tag=f":grid-{g['grid']}")
            part.count("grid_values", len(ag.grid_values(g["full"])))
    elif kind == "transfer":
        mode, size, first, extra = payload
        check_transfer_block(part, mode, size, first, extra)
    elif kind == "transfer-long":
        check_transfer_long(part, *payload)
    elif kind == "e2e":
        for size in payload:
            part.count("evaluations")
            part.count("e2e_uploads")
            for v in e2e_upload(size):
                part.violation(v["clause"], v["site"], {"part": "e2e", "size": size}, v["detail"])
            part.outcome(("e2e", size >= xfer_mod.MAX_CHUNK_SIZE))
    return part.dump()


def transfer_sizes(proto: str) -> List[int]:
    if proto == "xfer":
        return ag.boundary_sizes(xfer_mod.MAX_CHUNK_SIZE, 4)
    return ag.boundary_sizes(TRANSFER_CHUNK, 0)


def _n_chunks(proto: str, size: int) -> int:
    if proto == "xfer":
        return max(1, -(-(size + 4) // xfer_mod.MAX_CHUNK_SIZE))
    return max(1, -(-size // TRANSFER_CHUNK))


def build_units(full: bool) -> List[Tuple[str, Any]]:
    units: List[Tuple[str, Any]] = []
    items = list(ag.item_cases(4 if full else 1))
    cats = list(ag.category_cases(full))
    objs = list(ag.object_cases())
    nulls = list(ag.null_parent_cases())
    models = list(ag.model_cases(full))
    for flavor in FLAVORS:
        for block in _chunks(items, 600):
            units.append(("inv-node", (flavor, "node", block)))
        for block in _chunks(cats, 800):
            units.append(("inv-node", (flavor, "node", block)))
        units.append(("inv-node", (flavor, "node", objs)))
        # Lead's triage: parent_id is a *required* field (no default) that merely admits None in its annotation; the schema
        # writes None as "absent", so a node with parent_id=None is outside the domain of "optional fields absent/present".
        # (`nulls` is still built so the family stays documented; it is not asserted.)
        for block in _chunks(models, 250):
            units.append(("inv-model", (flavor, block)))
    enum_members = [(c.__name__, int(m)) for c in (AssetType, InventoryType, FolderType, SaleType) for m in c]
    units.append(("enum", enum_members))
    units.append(("wearable", list(ag.wearable_cases(full))))
    for block in _chunks(list(ag.anim_cases(full)), 300):
        units.append(("anim", block))
    for g in ag.anim_grid_cases(full):
        units.append(("anim-grid", [g]))
    for block in _chunks(list(ag.mesh_cases(full)), 120):
        units.append(("mesh", block))
    for g in ag.mesh_grid_cases(full):
        units.append(("mesh-grid", [g]))
    extra = 3 if full else 2   # arrival sequences of length n+2 (quick) / n+3 (thorough); shorter ones are their prefixes
    for mode in MODES:   # turbo (ack-ahead) takes its own path through the receive handler: in both tiers
        proto = mode.split("-")[0]
        sizes = transfer_sizes(proto)
        if not full:   # quick: the boundary triple of every chunk count, not the extra m*chunk / m*chunk+1 sizes
            keep, by_n = [], {}
            for sz in sizes:
                by_n.setdefault(_n_chunks(proto, sz), []).append(sz)
            for n, lst in sorted(by_n.items()):
                keep += ([lst[0]] if n == 4 else lst)
            sizes = sorted(set(keep))
        for size in sizes:
            n = _n_chunks(proto, size)
            if n >= 4:
                for first in itertools.product(range(n), repeat=2 if full else 1):
                    units.append(("transfer", (mode, size, first, extra)))
            else:
                units.append(("transfer", (mode, size, None, extra)))
    for mode in MODES:   # many chunks, closed-form orders (late chunk / reverse / rotations / interleaved, with duplicates)
        for nchunks in ((12, 13, 24) if not full else (12, 13, 24, 40, 100)):
            units.append(("transfer-long", (mode, nchunks)))
    e2e = set(transfer_sizes("xfer")) | {xfer_mod.MAX_CHUNK_SIZE - 1, xfer_mod.MAX_CHUNK_SIZE, xfer_mod.MAX_CHUNK_SIZE + 1}
    units.append(("e2e", sorted(e2e - {0})))   # an empty AssetData block *means* "fetch by xfer": a 0-byte inline upload is not expressible
    return units


def run(run: Run):
    global _FULL
    _FULL = full = run.tier != "quick"
    units = build_units(full)
    # heavy units first so the pool drains evenly; results are merged in a fixed order regardless
    order = sorted(range(len(units)), key=lambda i: (0 if units[i][0] in ("transfer", "transfer-long", "anim-grid", "mesh-grid") else 1, i))
    results = pmap(_work, [units[i] for i in order], run.jobs, chunksize=1)
    for d in results:
        run.merge(d)
    c = run.counters
    run.rule = (
        "INVENTORY: items = full cross product of presence of the 10 optional fields x metadata {none,{},map,nested map} with values "
        "rotating through every AssetType/InventoryType/SaleType member, flag/mask/date/name alphabets (+1 all-fields row per enum member, "
        "+ links); categories = every FolderType and AssetType member (thorough: their cross product) x owner/version/metadata "
        "combinations; objects = every AssetType x metadata; each x {legacy text, legacy LLSD, AIS}; models = every sequence of <=3 node "
        "kinds over {category, object, item, link} x parent choice x field profiles x 3 flavours; every member of the 4 lookup enums; "
        "wearables = 17 types x parameter/texture dict sizes {0,1,3}^2. ANIMATIONS: versions {0.1,1.0} x joints 0-2 (0-2 rot x 0-2 pos "
        "keyframes each, equal and distinct joint names) x constraints 0-1 x hand poses, wire-first; plus a U16 grid sweep of each "
        "quantised member (rot, pos, time at 3 durations). MESH: every subset of 9 segment kinds x rotating materials(1-2)/vertices{0,1,3}/"
        "NoGeometry/header extras/header order; every weight-length vector {0..4}^nv, nv in {0,1,3}; materials x vertices x triangles; "
        "U16 grid sweep of Position/Normal/TexCoord0/Weights/BoundingVerts. TRANSFERS: payload sizes at every chunk boundary up to 4 "
        "chunks x every arrival sequence of length n+%d over the n chunk indices x 5 receiver modes (Xfer via request()+pump / direct handler / "
        "turbo, Transfer via request()+pump / direct handler), oracle after every prefix; upload_asset end to end for every size. "
        "distinct_nontrivial = distinct (kind, flavour, present-field set) / model shapes / animation shapes / mesh shapes / "
        "complete out-of-order arrival sequences. EDIT-AFTER-PARSE: every mesh case x reader configurations x 13 in-place edits x "
        "writer configurations; every animation case x 6 edits; every model case x 3 flavours x 6 edits (quick: edits rotate over the "
        "3-node models)") % (3 if full else 2)
    run.assumptions += [
        "inventory names/descriptions/metadata strings are from the line format's domain: no TAB/CR/LF/'|', no leading or trailing whitespace "
        "(empty strings, interior blanks, braces, non-ASCII are in); wearable names additionally non-empty",
        "fields a flavour cannot carry are generated at that flavour's default: llsd_only fields (category version, permissions "
        "is_owner_group) in text; AIS categories have type CATEGORY; AIS links have the default link permissions / sale info and always a target",
        "FolderType.ENSEMBLE_START/END (one lookup name for two members) are exercised at enum level only; legacy-flavour nodes never use them",
        "dates are naive UTC datetimes at whole seconds in [1970, 2100]; mesh header dates are timezone-aware UTC at whole seconds; "
        "floats are NaN-free; animation raw floats are f32-exact; check runs with TZ=UTC",
        "animation / mesh cases are wire-first: the model under test is the parse of a reference wire image, so quantised members are on the "
        "grid; QuantizedTime with duration 0 uses wire time 0 only (the grid is one point)",
        "TransferManager has no sender in the library: TransferPacket lists follow the simulator / repo test (1000-byte chunks, DONE on the "
        "last); chunk datagrams go through the real UDP serializer/deserializer before they reach the receive handlers",
        "arrival sequences contain only the chunk indices 0..eof of the transfer itself (no packets beyond the end marker, no foreign ids)",
        "LLSD flavours are exercised at the python-object level (to_llsd/from_llsd), not through an LLSD wire encoding (that is C12)",
    ]
    run.coverage_extra["codec_options"] = {
        "LLMeshSerializer(parse_segment_contents, allow_invalid_segments, include_raw_segments)":
            "all 8 combinations used as writers and as readers (thorough, on the quick-tier case set; reduced grid elsewhere: readers "
            "{parse+raw, parse}, writers {default, +raw, +allow_invalid}); the 4 parse_segment_contents=True readers feed the "
            "edit-after-parse check (13 in-place edits: none, vertex, vertex-add, weight, weight-drop, material-add/-drop, lod-remove/-add, "
            "segment-add, header, skin, convex), the 4 unparsed readers must reproduce the file with every writer; outer buffer "
            "endianness '!' and '<' both used",
        "Animation.to_bytes/from_bytes": "no options; edited after from_bytes (scalars, keyframe value, keyframe count, joint add incl. "
                                         "duplicate name, joint remove, constraint add/remove). NOT varied: se.BufferReader(pod=True) "
                                         "(plain-data output is not a model)",
        "Inventory": "flavor in {legacy text, 'legacy', 'ais'}; from_reader(read_header=True) and read_header=False (via from_bytes); "
                     "str and bytes entry points at node and model level; models edited after parse (rename, item fields, category "
                     "fields, unlink, add, upsert). InventoryModel.from_reader(read_header=...) is ignored by the code",
        "Wearable": "no options (from_str and from_bytes both used)",
        "Xfer/Transfer": "XferManager.request(turbo) False/True, direct handler and request()+pump; "
                         "serve_inbound_xfer_request(wait_for_confirm) False (sender runs) and True (end-to-end upload). NOT varied: "
                         "use_big_packets / delete_on_completion / file_path (only copied into the RequestXfer message), "
                         "UploadStrategy override, TransferManager.request(channel_type, priority)",
    }
    run.coverage_extra["units"] = len(units)
    run.coverage_extra["histories"] = c.get("histories", 0)
    run.coverage_extra["arrivals"] = c.get("arrivals", 0)
    run.coverage_extra["xfer_chunk"] = xfer_mod.MAX_CHUNK_SIZE
    run.coverage_extra["xfer_sizes"] = transfer_sizes("xfer")
    run.coverage_extra["transfer_sizes"] = transfer_sizes("transfer")
    import time as _t
    run.coverage_extra["wall"] = round(_t.time() - run.t0, 1)
    _minimise_transfer_witnesses(run)


def _minimise_transfer_witnesses(run: Run):
    """Shrink arrival sequences of transfer violations: shortest prefix, then drop arrivals one at a time (re-executed)."""
    for v in run.violations:
        w = v["witness"]
        if not isinstance(w, dict) or w.get("part") != "transfer":
            continue
        seq = list(w["seq"])

        def fails(s):
            return any(x["clause"] == v["clause"] and x["site"] == v["site"] for x in _replay_transfer(w["mode"], w["size"], s))

        changed = True
        while changed:
            changed = False
            for i in range(len(seq) - 1, -1, -1):
                cand = seq[:i] + seq[i + 1:]
                if cand and fails(cand):
                    seq, changed = cand, True
                    break
        w["seq"] = seq
        got = [x for x in _replay_transfer(w["mode"], w["size"], seq) if x["clause"] == v["clause"] and x["site"] == v["site"]]
        if got:
            v["detail"] = got[0]["detail"]


def _replay_transfer(mode: str, size: int, seq) -> List[Dict[str, str]]:
    proto = mode.split("-")[0]
    wires, _ = _wires_for(proto, size)
    info = transfer_info_wire(size) if proto == "transfer" else None
    viol, _ = run_history(mode, size, wires, tuple(seq), info)
    return viol


def replay(w):
    part = Part()
    kind = w["part"]
    if kind == "inv-node":
        check_node(part, w["spec"], w["flavor"], w.get("family", "node"))
    elif kind == "inv-model":
        check_model(part, w["spec"], w["flavor"])
    elif kind == "enum":
        check_enum(part, w["cls"], w["value"])
    elif kind == "wearable":
        check_wearable(part, w["spec"])
    elif kind == "anim":
        check_anim(part, w["spec"], w)
    elif kind == "anim-grid":
        g = w["spec"]
        check_anim(part, ag.anim_grid_spec(g), w, tag=f":grid-{g['grid']}")
    elif kind == "mesh":
        check_mesh(part, w["spec"], w)
    elif kind == "mesh-edit":
        check_mesh_edits(part, w["spec"], w.get("grid", "quick"))
    elif kind == "anim-edit":
        check_anim_edits(part, w["spec"])
    elif kind == "inv-model-edit":
        check_model_edits(part, w["spec"], w["flavor"])
    elif kind == "mesh-grid":
        g = w["spec"]
        check_mesh(part, {"outer": "!", "kinds": [], "materials": {}}, w, prebuilt=mesh_grid_asset(g), tag=f":grid-{g['grid']}")
    elif kind == "transfer":
        return _replay_transfer(w["mode"], w["size"], w["seq"])
    elif kind == "sender":
        _WIRE_CACHE.clear()
        check_sender(part, "xfer", w["size"])
    elif kind == "e2e":
        return e2e_upload(w["size"])
    return list(part.viol.values())

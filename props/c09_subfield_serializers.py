"""C09 -- every registered subfield ("pretty") serializer is lossless against the wire (DESIGN §4 C09).

Bounded-exhaustive enumeration over *all* entries of ``se.SUBFIELD_SERIALIZERS`` (the registry is iterated; no key list).
The variable's wire type comes from the independent template parser (hmc.refwire), not from the library.

Families (every input carries a family/tag chosen by the *generator*, never by looking at the code's answer; the clause
is a fixed function of (check, family); the site is ``Msg.Block.Var[ctx]:<where>:<obj|pod>``):

 (a) integer-typed variables (enum / flag / bitfield / state / quantised adapters): complete 8- and 16-bit wire domain;
     for 32/64-bit: boundaries, every single bit, every all-but-one-bit, adjacent bit pairs, members, members +-1, OR of
     all members (+ each foreign bit).  Oracle: ``serialize(block, deserialize(block, raw, pod)) == raw`` (an int) for
     pod and non-pod; a decode that raises loses the integer (clause int-decode-raises).  ``UNSERIALIZABLE`` from
     deserialize means "no pretty form, raw value stays" and is not a loss.
        int-roundtrip-negative-flag   IntFlag adapter, raw < 0 (signed wire type)
        int-roundtrip / int-decode-raises / int-encode-raises   everything else
 (b) context-switched serializers: the sibling variables a serializer reads from the Block are *discovered* by a probing
     Block (plus ENUM_FIELD/FLAG_FIELD); every context value is enumerated: complete domain of 8-bit siblings (thorough),
     otherwise TEMPLATES keys + registered enum members of the sibling + unknown values (first free, max, -1).
 (c) byte payloads: values from the serializer's own template (hmc.subfieldgen.Domain: one-leaf-at-a-time over boundary
     alphabets, all subsets of flag bits that switch optional members, adapters wire-first), encoded by the serializer =
     "payloads it can itself produce": decode->encode must be byte-identical (payload-roundtrip).  "Payloads it
     accepts": single-byte substitutions / truncations / one-byte extensions of each context's base payload and every
     context's base payload fed to every other context; for each accepted b: b1 = enc(dec(b)); enc(dec(b1)) == b1
     (payload-fixpoint) and dec(b1) == dec(b) (payload-fixpoint-value); an accepted payload whose value cannot be
     re-encoded never reaches a fixed point (payload-reencode-raises).  "Accepts" = deserialize returns and every lazy
     member parses.
 (d) pod form: for finite numbers ``ast.literal_eval(text) == pod`` for text = repr(pod) and the proxy's own
     HippoPrettyPrinter(width=100).pformat(pod) (pod-literal), and the literal re-encodes to the same bytes/int
     (pod-reencode).
 (e) Block cache: set raw r1, deserialize_var, set raw r2 via Block.__setitem__, deserialize_var again == fresh
     deserialize(r2); same after serialize_var and after assigning Pretty(value) (cache-invalidation).
     Copy isolation: the value returned by the FIRST / a later / a copy-after-nocopy deserialize_var(make_copy=True) is
     edited deeply in place and not written back; deserialize_var (copy and no-copy) must still equal the decoding of
     the unchanged wire value, the pod decoding is unchanged, serialize_var(k, deserialize_var(k)) reproduces the bytes
     (sites :first-copy / :later-copy / :copy-after-nocopy [+ :pod / :writeback / :raises]); mutable decoded forms only.
     (e2) assignment styles, every integer-typed entry: the raw value is assigned as plain int / member *instance* of
     the entry's own enum or flag class (every member for <= 12 values, else first/middle/last; flags also 0 and an OR
     of two members) / member of an unrelated IntEnum with the same value / Pretty(value): every single assignment
     and all 4^3 orders of three assignments, checked after every step and only after the last; required each time:
     block[v] == the integer, deserialize_var(v) == decoding of the NEW integer (object; pod of the stored raw),
     serialize_var(v, deserialize_var(v)) leaves the raw unchanged (cache-invalidation, sites :assign:<style> /
     :seq:<style>-after-<previous style>:<each|end> + :raw|:stale-object|:stale-pod|:writeback; the witness holds the sequence).
 (c') wire-first tier 1 for quantised components: every element of every quantised Vector* / packed-quaternion member
     gets the raws {min, min+1, mid-1, mid, mid+1, max-1, max} + small alphabet (8-bit elements: the complete byte), one
     component at a time, from an all-lowest and an all-mid-range base of the vector, under both template bases; besides
     the value-first payload the raw is also written directly at the component's byte position (located by comparing the
     serializer's own lowest/highest-raw payloads) -> payload-roundtrip, site <member>.[m.]c<i>:<wire>.wire=<raw>.
 (g) encode history: for every payload entry/context, up to 3 edits of its base value (an unencodable member at a leaf
     position, kept only if a private writer shows the encode raises after >= 1 byte was written) and one such edit of a
     different registered serializer; sequences [fail], [fail, fail], [foreign fail], [foreign fail, fail] followed by one
     of: serialize(value), serialize(pod form), Block.serialize_var -- the bytes must equal what two consecutive
     encodes produced before any failure (encode-independent, site <key>:after-failed-encode[:foreign]).
 (h) second subclass: for each abstract subfield-serializer base addons subclass (FlagSwitched, EnumSwitched, Simple/TEMPLATE,
     AdapterSubfieldSerializer, AdapterInstance (IntEnum/IntFlagSubfieldSerializer), the registration helpers) two
     harness-defined addon-style subclasses with DIFFERENT templates behind the SAME selector values + one shipped
     subclass, used interleaved in every order; each must round-trip its own hand-built reference bytes (payload-roundtrip,
     site second-subclass:<base>:<class>:<encode|decode|obj|pod|raises>) and a failed encode in one must not change the
     next encode of another (encode-independent, ...:after-failed-encode:foreign).  Harness registrations are removed again.
 (f) date entries (adapter class DateAdapter) under process TZ in {UTC, America/Los_Angeles, Europe/London,
     Australia/Lord_Howe}, TZ switched with os.environ+time.tzset() only inside dedicated forked workers (hmc.subfieldgen
     .tz_map; replay of a TZ witness forks as well).  Input families: 'boundary' = the int alphabet (date-roundtrip /
     date-decode-raises), 'far-future' = alphabet members in the last day of year 9999 or later, 'dst' = every minute
     within +-2 h of each 2020-2021 DST transition of the three DST zones, computed with zoneinfo (date-roundtrip-dst),
     'subsecond' = raws that are not whole seconds for multiplier > 1: every microsecond 0..4095, stride 4099 up to 1 s,
     at two base instants (date-roundtrip-subsecond).

Deviations from DESIGN / things the code forced:
  * payload mutation is applied to each (entry, context) *base* payload (thorough: every structural base -- other
    switch branches, all-options-off, empty, single-element -- and every 128th variant) rather than to every generated
    payload (time budget);
  * values are built one-leaf-at-a-time from two bases (all optional members present / all absent) instead of
    row-cyclic, so that every violation site can name the one leaf that deviates;
  * registrations whose (message, block, variable) does not exist in message_template.msg have no wire type and are
    reported in coverage (not a violation: the property quantifies over message variables);
  * BitmapAdapter has no child template: its payload domain is described wire-first (any rows*cols/8 bytes);
  * the pod literal clause compares the literal's re-encoding with the pod value's own re-encoding, so a round-trip
    loss is reported once (under its own clause) and not again as pod-reencode;
  * every look at a private attribute of a library spec object goes through hmc.introspect (known name first, then
    type/shape among the object's members, then behavioural probes: Collection framing from the encoding of [],
    primitive wire type from calc_size/is_signed, bitfield layout from decoding single bits, empty_is_none / optional
    from how None / an exhausted reader is treated).  Name misses are counted (introspection_fallbacks); an entry
    whose tree cannot be walked at all gets generic wire-first payloads in tier 2 instead of template values
    (listed in coverage, never a violation);
  * a round-trip oracle cannot see an encoder that loses information *consistently* with the decoder (value-first
    payloads are self-consistent); C13 holds the compressed-update template against an independent reader.
"""
from __future__ import annotations

import ast
import re
import struct
from typing import Any, Dict, List, Optional, Tuple

import hippolyzer.lib.base.datatypes as dtypes
import hippolyzer.lib.base.serialization as se
import hippolyzer.lib.base.templates  # noqa: F401  (fills the registry)
from hippolyzer.lib.base.helpers import HippoPrettyPrinter
from hippolyzer.lib.base.message.message import Block

from hmc import introspect as ins
from hmc import refwire
from hmc import subfieldgen as sg
from hmc.core import Part, Run, pmap

LEVEL = "exploration"

_THOROUGH = False
_ENTRIES: List["Entry"] = []
_DST: List[int] = []


# ------------------------------------------------------------------------------------------------ registry view
def _adapter_of(ser: Any) -> Any:
    """The adapter behind an adapter-style subfield serializer (class attribute ADAPTER, or the instance's one spec member)."""
    if ser is None:
        return None
    if getattr(ser, "ADAPTER", None) is not None:
        return ser.ADAPTER
    if isinstance(ser, se.AdapterInstanceSubfieldSerializer):
        return ins.priv(ser, "_adapter", "spec", default=None)
    return None


class Entry:
    def __init__(self, idx: int, key: Tuple[str, str, str], ser: Any):
        self.idx, self.key, self.ser = idx, key, ser
        self.keystr = ".".join(key)
        self.rblock = None
        self.rvar = None
        t = refwire.templates().get(key[0])
        if t is not None:
            for rb in t.blocks:
                if rb.name == key[1]:
                    for rv in rb.vars:
                        if rv.name == key[2]:
                            self.rblock, self.rvar = rb, rv
        self.wire = self.rvar.type if self.rvar else None
        if self.rvar is None:
            self.kind = "dead"
        elif self.wire in sg.INT_FMT:
            self.kind = "int"
        elif self.wire in ("Variable", "Fixed"):
            self.kind = "payload"
        else:
            self.kind = "unsupported"
        self.adapter = _adapter_of(ser)
        self.adapter_kind = type(self.adapter).__name__ if self.adapter is not None else \
            (ser.__name__ if isinstance(ser, type) else type(ser).__name__)
        self.is_date = self.adapter_kind == "DateAdapter"
        self.ctx_field: Optional[str] = None
        self.ctx_wire: Optional[str] = None


def _zero(rv: refwire.RVar) -> Any:
    t = rv.type
    if t == "Variable":
        return b""
    if t == "Fixed":
        return b"\x00" * rv.size
    if t in ("F32", "F64"):
        return 0.0
    if t == "LLUUID":
        return dtypes.UUID(int=0)
    if t in ("LLVector3", "LLVector3d"):
        return dtypes.Vector3(0.0, 0.0, 0.0)
    if t == "LLVector4":
        return dtypes.Vector4(0.0, 0.0, 0.0, 0.0)
    if t == "LLQuaternion":
        return dtypes.Quaternion(0.0, 0.0, 0.0)
    if t == "IPADDR":
        return "0.0.0.0"
    return 0


def make_block(ent: Entry, ctxval: Optional[int], raw: Any = None, cls=Block) -> Block:
    vals = {rv.name: _zero(rv) for rv in ent.rblock.vars}
    if ent.ctx_field is not None and ctxval is not None:
        vals[ent.ctx_field] = ctxval
    if raw is not None:
        vals[ent.key[2]] = raw
    blk = cls(ent.key[1], **vals)
    blk.message_name = ent.key[0]
    return blk


class _ProbeBlock(Block):
    __slots__ = ("reads",)

    def __getitem__(self, name):
        try:
            self.reads.append(name)
        except AttributeError:
            pass
        return self.vars[name]


def discover_context(ent: Entry) -> None:
    """Which sibling variable of the same block does this serializer read?  (probe + declared switch attributes)"""
    names = [rv.name for rv in ent.rblock.vars]
    reads: List[str] = []
    for attr in ("ENUM_FIELD", "FLAG_FIELD"):
        f = getattr(ent.ser, attr, None)
        if isinstance(f, str):
            reads.append(f)
    probes = [0, 1] if ent.kind == "int" else [b"", b"\x00", b"\x00" * 16, b"\x00" * 100]
    for raw in probes:
        for pod in (False, True):
            blk = make_block(ent, None, raw, cls=_ProbeBlock)
            blk.reads = []
            try:
                sg.unwrap(ent.ser.deserialize(blk, raw, pod=pod))
            except Exception:
                pass
            reads += blk.reads
    sibs = []
    for r in reads:
        if r in names and r != ent.key[2] and r not in sibs:
            sibs.append(r)
    if len(sibs) > 1:
        raise sg.UnknownSpec(f"{ent.keystr}: more than one context sibling {sibs}; teach the harness")
    if sibs:
        ent.ctx_field = sibs[0]
        ent.ctx_wire = next(rv.type for rv in ent.rblock.vars if rv.name == sibs[0])
        if ent.ctx_wire not in sg.INT_FMT:
            raise sg.UnknownSpec(f"{ent.keystr}: context sibling {sibs[0]} has non-integer wire type {ent.ctx_wire}")


def context_values(ent: Entry, thorough: bool) -> List[Optional[int]]:
    if ent.ctx_field is None:
        return [None]
    lo, hi = sg.int_range(ent.ctx_wire)
    cands: List[int] = []
    tm = getattr(ent.ser, "TEMPLATES", None)
    if isinstance(tm, dict):
        cands += [int(k) for k in tm]
    if isinstance(getattr(ent.ser, "FLAG_FIELD", None), str) and isinstance(tm, dict):
        bits = [int(k) for k in tm]
        for n in range(1 << len(bits)):
            cands.append(sum(b for i, b in enumerate(bits) if n >> i & 1))
    sib = se.SUBFIELD_SERIALIZERS.get((ent.key[0], ent.key[1], ent.ctx_field))
    cbits = sg.INT_BITS[ent.ctx_wire]
    cands += sg.adapter_members(_adapter_of(sib), bits=cbits)
    cands += sg.adapter_members(ent.adapter, bits=sg.INT_BITS.get(ent.wire, 0))
    opts = ins.priv(ent.adapter, "_options", "spec-dict", default=None) if isinstance(ent.adapter, se.ContextAdapter) else None
    if isinstance(opts, dict):
        cands += [int(k) for k in opts if isinstance(k, int)]
    vals = sorted({c for c in cands if lo <= c <= hi})
    free = next(v for v in range(0, hi + 1) if v not in vals)
    unknown = [free, hi] + ([-1, lo] if lo < 0 else [])
    foreign = next((1 << i for i in range(sg.INT_BITS[ent.ctx_wire]) if not any(v & (1 << i) for v in vals if v > 0)), None)
    if foreign is not None and vals:
        unknown.append(sg.to_wire(ent.ctx_wire, max(vals) | foreign))
    out = list(vals)
    for u in unknown:
        if lo <= u <= hi and u not in out:
            out.append(u)
    if thorough and sg.INT_BITS[ent.ctx_wire] == 8:
        for v in range(lo, hi + 1):
            if v not in out:
                out.append(v)
    return out


def ctx_label(ent: Entry, ctxval: Optional[int]) -> str:
    return "" if ent.ctx_field is None else f"[{ent.ctx_field}={ctxval}]"


def build_entries() -> List[Entry]:
    out = []
    for i, (key, ser) in enumerate(se.SUBFIELD_SERIALIZERS.items()):
        ent = Entry(i, key, ser)
        if ent.kind in ("int", "payload"):
            discover_context(ent)
        out.append(ent)
    return out


# ------------------------------------------------------------------------------------------------ accounting helper
class Acc:
    """Local dedup in front of Part (digesting the same outcome key 65 536 times is wasted work)."""

    def __init__(self, part: Part):
        self.part = part
        self.out = set()
        self.nt = set()
        self.evals = 0

    def outcome(self, k):
        if k not in self.out:
            self.out.add(k)
            self.part.outcome(k)

    def nontrivial(self, k):
        if k not in self.nt:
            self.nt.add(k)
            self.part.mark_nontrivial(k)

    def flush(self):
        self.part.count("evaluations", self.evals)
        self.evals = 0


def force_deep(v: Any, depth: int = 0) -> Any:
    """Make every lazy member parse now (accepting a payload means all of it parses)."""
    v = sg.unwrap(v)
    if depth > 8:
        return v
    if isinstance(v, dict):
        for x in v.values():
            force_deep(x, depth + 1)
    elif isinstance(v, (list, tuple)) and not isinstance(v, dtypes.TupleCoord):
        for x in v:
            force_deep(x, depth + 1)
    elif isinstance(v, dtypes.TaggedUnion):
        force_deep(v.value, depth + 1)
    return v


_PP = HippoPrettyPrinter(width=100)


def check_pod_literal(acc: Acc, ent: Entry, block: Block, site: str, witness: dict, pod_val: Any, expected: Any,
                      use_pformat: bool = True):
    """(d): the printed pod value evaluates back to an equal literal which re-encodes to ``expected``."""
    if not sg.all_finite(pod_val):
        acc.part.count("pod_nonfinite_skipped")
        return
    for how in (("repr", "pformat") if use_pformat else ("repr",)):
        text = repr(pod_val) if how == "repr" else _PP.pformat(pod_val)
        acc.evals += 1
        try:
            lit = ast.literal_eval(text)
        except Exception as e:
            acc.part.violation("pod-literal", f"{site}:{how}", witness, f"literal_eval({text[:200]!r}) raised {e!r}")
            continue
        if not sg.same(lit, pod_val):
            acc.part.violation("pod-literal", f"{site}:{how}", witness, f"literal {text[:200]} evaluates to {lit!r:.200}, pod value is {pod_val!r:.200}")
            continue
        try:
            again = ent.ser.serialize(block, lit)
        except Exception as e:
            acc.part.violation("pod-reencode", f"{site}:{how}", witness, f"serialize(literal) raised {e!r}; literal {text[:200]}")
            continue
        if not _same_raw(again, expected):
            acc.part.violation("pod-reencode", f"{site}:{how}", witness, f"literal re-encodes to {_show(again)}, expected {_show(expected)}")


def _same_raw(a: Any, b: Any) -> bool:
    if isinstance(b, (bytes, bytearray)):
        return isinstance(a, (bytes, bytearray)) and bytes(a) == bytes(b)
    return isinstance(a, int) and not isinstance(a, bool) and int(a) == b


def _show(x: Any) -> str:
    if isinstance(x, (bytes, bytearray)):
        h = bytes(x).hex()
        return f"{len(x)}B:{h[:96]}{'..' if len(h) > 96 else ''}"
    return repr(x)[:160]


# ------------------------------------------------------------------------------------------------ (a) integers
def int_family(ent: Entry, raw: int, members: List[int]) -> str:
    if raw < 0:
        return "neg"
    if ent.adapter_kind == "IntFlag":
        allm = 0
        for m in members:
            if m > 0:
                allm |= m
        return "member" if raw & ~allm == 0 else "nonmember"
    if members:
        return "member" if raw in members else "nonmember"
    return "value"


def check_int(acc: Acc, ent: Entry, block: Block, ctxval, raw: int, family: str, pod: bool, tz: Optional[str] = None,
              date_tag: Optional[str] = None, pformat: bool = True):
    signed = "signed" if ent.wire[0] == "S" else "unsigned"
    mode = "pod" if pod else "obj"
    lab = ctx_label(ent, ctxval)
    if date_tag is not None:
        site = f"{ent.keystr}:{ent.adapter_kind}-{signed}:{date_tag}:{tz}:{mode}"
        c_rt = {"boundary": "date-roundtrip", "far-future": "date-roundtrip", "dst": "date-roundtrip-dst",
                "subsecond": "date-roundtrip-subsecond"}[date_tag]
        c_dec, c_enc = "date-decode-raises", "date-encode-raises"
    else:
        site = f"{ent.keystr}{lab}:{ent.adapter_kind}-{signed}:{family}:{mode}"
        c_rt = "int-roundtrip-negative-flag" if (ent.adapter_kind == "IntFlag" and raw < 0) else "int-roundtrip"
        c_dec, c_enc = "int-decode-raises", "int-encode-raises"
    witness = {"kind": "int", "key": list(ent.key), "ctx": ctxval, "raw": raw, "pod": pod, "tz": tz, "date_tag": date_tag}
    acc.evals += 1
    okey = (ent.idx, ctxval if ent.ctx_field else None, mode, tz)
    try:
        v = ent.ser.deserialize(block, raw, pod=pod)
    except Exception as e:
        acc.part.violation(c_dec, site, witness, f"deserialize({raw}, pod={pod}) raised {e!r}: the integer has no decode->encode image")
        acc.outcome(okey + ("decode-raises",))
        return
    if v is se.UNSERIALIZABLE:
        acc.outcome(okey + ("no-pretty-form",))
        return
    try:
        r = ent.ser.serialize(block, v)
    except Exception as e:
        acc.part.violation(c_enc, site, witness, f"raw {raw} -> {v!r:.120} -> serialize raised {e!r}")
        acc.outcome(okey + ("encode-raises",))
        return
    ok = _same_raw(r, raw)
    if ok:
        try:
            struct.pack(sg.INT_FMT[ent.wire], int(r))
        except struct.error:
            ok = False
    if not ok:
        acc.part.violation(c_rt, site, witness, f"raw {raw} ({ent.wire}) -> {v!r:.120} -> {r!r:.80}; expected {raw}")
        acc.outcome(okey + ("mismatch", family))
    else:
        acc.outcome(okey + ("ok", family, type(v).__name__))
        acc.nontrivial((ent.idx, ctxval if ent.ctx_field else None, mode, family, tz, type(v).__name__))
    if pod:
        check_pod_literal(acc, ent, block, site, witness, v, int(r) if isinstance(r, int) else r, use_pformat=pformat)


def _int_members(ent: Entry) -> List[int]:
    return sorted(set(sg.adapter_members(ent.adapter, bits=sg.INT_BITS[ent.wire])))


def unit_int(ent: Entry) -> dict:
    part = Part()
    acc = Acc(part)
    members = _int_members(ent)
    alph = sg.int_alphabet(ent.wire, members)
    sweep = sg.INT_BITS[ent.wire] <= 16
    small = set(sg.small_int_alphabet(ent.wire)) | set(members)
    for ctxval in context_values(ent, _THOROUGH):
        block = make_block(ent, ctxval)
        for raw in alph:
            fam = int_family(ent, raw, members)
            for pod in (False, True):
                check_int(acc, ent, block, ctxval, raw, fam, pod, pformat=(not sweep) or raw in small)
    part.count("int_units")
    part.sample({"family": "int", "key": ent.keystr, "wire": ent.wire, "adapter": ent.adapter_kind, "ctx_field": ent.ctx_field,
                 "contexts": len(context_values(ent, _THOROUGH)), "alphabet": len(alph), "complete_domain": sweep}, limit=1)
    acc.flush()
    return part.dump()


# ------------------------------------------------------------------------------------------------ (f) dates
FAR_FUTURE = 253402300800 - 86400


def date_inputs(ent: Entry) -> List[Tuple[int, str]]:
    """(raw, family).  Families are assigned from the input alone: 'dst' = whole seconds inside a +-2 h window of a DST
    transition; 'far-future' = the instant lies in the last day of year 9999 or later; 'subsecond' = raw is not a whole
    number of seconds (multiplier > 1); 'boundary' = the rest."""
    lo, hi = sg.int_range(ent.wire)
    mult = int(ins.priv(ent.adapter, "_multiplier", "int", default=1))
    out = [(r, "boundary") for r in sg.int_alphabet(ent.wire)]
    # the last second of year 9999 / first of year 10000, scaled (only reachable for wide types)
    for t in (253402300799, 253402300800):
        out.append((t * mult, "boundary"))
    out += [(t * mult, "dst") for t in _DST]
    if mult > 1:
        offs = list(range(0, 4096)) + list(range(4096, mult, 4099)) + [mult // 2 - 1, mult // 2, mult // 2 + 1, mult - 2, mult - 1]
        for base in (0, 1_600_000_000):
            out += [(base * mult + off, "subsecond") for off in offs]
    seen = set()
    res = []
    for r, tag in out:
        if tag == "boundary" and r // mult >= FAR_FUTURE:
            tag = "far-future"  # an instant in the last day of year 9999 or later (datetime.MAXYEAR in some/all zones)
        elif mult > 1 and r % mult and tag == "boundary":
            tag = "subsecond"
        if lo <= r <= hi and r not in seen:
            seen.add(r)
            res.append((r, tag))
    return res


def unit_date(item) -> dict:
    """Runs inside a dedicated TZ worker (sg.tz_map); item = (entry index, tz name)."""
    idx, tz = item
    import time as _t
    ent = _ENTRIES[idx]
    part = Part()
    acc = Acc(part)
    if _t.tzname is None:  # pragma: no cover
        raise RuntimeError("no tz")
    block = make_block(ent, None)
    for raw, tag in date_inputs(ent):
        for pod in (False, True):
            check_int(acc, ent, block, None, raw, "date", pod, tz=tz, date_tag=tag, pformat=(tag == "boundary"))
    part.count("date_units")
    part.sample({"family": "date", "key": ent.keystr, "tz": tz, "inputs": len(date_inputs(ent)), "localtime_of_0": _t.strftime("%Z", _t.localtime(0))}, limit=1)
    acc.flush()
    return part.dump()


# ------------------------------------------------------------------------------------------------ (c) payloads
def template_for(ent: Entry, ctxval: Optional[int], dom: sg.Domain) -> Any:
    """The serializer's own template for this context (selected here by plain lookup, not by the serializer's code)."""
    ser = ent.ser
    tm = getattr(ser, "TEMPLATES", None)
    if isinstance(getattr(ser, "FLAG_FIELD", None), str):
        t = se.Template({flag.name: tmpl for flag, tmpl in tm.items() if ctxval & int(flag)})
        dom._keep.append(t)
        return t
    if isinstance(tm, dict) and ent.ctx_field is not None:
        for k, t in tm.items():
            if int(k) == ctxval:
                return t
        return None
    return getattr(ser, "TEMPLATE", None)


_NO_TEMPLATE_GEN: Dict[str, str] = {}  # entries whose spec tree could not be introspected (per process)


def own_values(ent: Entry, ctxval, dom: sg.Domain) -> List[Tuple[Any, str]]:
    tmpl = template_for(ent, ctxval, dom)
    vals: List[Tuple[Any, str]] = []
    if tmpl is not None and tmpl is not se.UNSERIALIZABLE:
        try:
            vals = list(dom.variants(tmpl))
        except (ins.IntrospectionError, sg.UnknownSpec, AttributeError) as e:
            # the spec tree cannot be walked (renamed internals that no shape/behaviour probe resolves, or a new
            # combinator): no template-derived values for this entry; tier 2 runs on generic wire-first payloads instead
            _NO_TEMPLATE_GEN.setdefault(ent.keystr, f"{type(e).__name__}: {e}"[:200])
            vals = []
    if getattr(ent.ser, "EMPTY_IS_NONE", False):
        vals.insert(1 if vals else 0, (None, "none"))
    return vals


def adapter_payloads(ent: Entry) -> List[Tuple[bytes, str]]:
    """Top-level adapters over raw bytes have no child template to derive values from; their producible payloads are
    described wire-first per class.  BitmapAdapter(shape): any rows*cols/8 bytes (the pod form -- a list of row byte
    strings -- joins back to exactly these bytes, so each is a payload the serializer can itself produce)."""
    if ent.adapter_kind == "BitmapAdapter":
        rows, cols = ins.priv(ent.adapter, "_shape", "int-pair")
        n = rows * cols // 8
        return [(bytes((i * 37 + 1) & 0xFF for i in range(n)), "pattern"), (b"\x00" * n, "zeros"), (b"\xff" * n, "ones"),
                (b"\x01" + b"\x00" * (n - 1), "bit0"), (b"\x00" * (n - 1) + b"\x80", "bitlast"),
                (bytes(0xAA if (i // (cols // 8)) % 2 else 0x55 for i in range(n)), "checker")]
    raise sg.UnknownSpec(f"{ent.keystr}: no payload domain for top-level adapter {ent.adapter_kind} on a {ent.wire} variable")


def check_payload(acc: Acc, ent: Entry, block: Block, ctxval, payload: bytes, tag: str, pod: bool, tier: int, pformat: bool = True):
    mode = "pod" if pod else "obj"
    lab = ctx_label(ent, ctxval)
    site = f"{ent.keystr}{lab}:{tag.split('@')[0]}:{mode}"
    witness = {"kind": "payload", "key": list(ent.key), "ctx": ctxval, "payload": payload, "tag": tag, "pod": pod, "tier": tier}
    ser = ent.ser
    acc.evals += 1
    okey = (ent.idx, ctxval if ent.ctx_field else None, mode, tier)
    try:
        v = force_deep(ser.deserialize(block, payload, pod=pod))
    except Exception as e:
        if tier == 1:
            acc.part.violation("gen-decode-raises", site, witness, f"payload produced by the serializer is rejected by it: {e!r}; {_show(payload)}")
        acc.outcome(okey + ("rejected", type(e).__name__))
        return
    if v is se.UNSERIALIZABLE:
        acc.outcome(okey + ("no-pretty-form",))
        if tier == 1:
            acc.part.count("tier1_no_pretty_form")
        return
    try:
        b1 = ser.serialize(block, v)
    except Exception as e:
        acc.part.violation("payload-reencode-raises", site, witness, f"accepted {_show(payload)} -> {v!r:.200} -> serialize raised {e!r}")
        acc.outcome(okey + ("reencode-raises",))
        return
    if b1 is se.UNSERIALIZABLE or not isinstance(b1, (bytes, bytearray)):
        acc.part.violation("payload-reencode-raises", site, witness, f"accepted {_show(payload)} -> {v!r:.200} -> serialize returned {b1!r:.80}")
        return
    b1 = bytes(b1)
    if b1 == payload:
        acc.outcome(okey + ("identical", len(b1)))
        acc.nontrivial((ent.idx, ctxval if ent.ctx_field else None, mode, tag if tier == 1 else tag.split("@")[0]))
    else:
        if tier == 1:
            i = next((j for j in range(min(len(b1), len(payload))) if b1[j] != payload[j]), min(len(b1), len(payload)))
            acc.part.violation("payload-roundtrip", site, witness,
                               f"produced {_show(payload)} decodes to {v!r:.160} which re-encodes to {_show(b1)} (first difference at byte {i})")
        acc.outcome(okey + ("normalised", len(b1) - len(payload)))
        try:
            v1 = force_deep(ser.deserialize(block, b1, pod=pod))
            b2 = ser.serialize(block, v1)
        except Exception as e:
            acc.part.violation("payload-fixpoint", site, witness, f"{_show(payload)} -> {_show(b1)}, whose own decode/encode raised {e!r}")
            return
        if v1 is se.UNSERIALIZABLE or not isinstance(b2, (bytes, bytearray)) or bytes(b2) != b1:
            acc.part.violation("payload-fixpoint", site, witness, f"{_show(payload)} -> {_show(b1)} -> {_show(b2)}: not a fixed point after one pass")
        elif not sg.same(v1, v):
            where = sg.diff_path(v, v1)
            # tier 2: name the mutation kind and the member that changed, not the payload that was mutated (one root
            # cause must not spread over every base payload's tag)
            t0 = tag.split("@")[0]
            what = t0 if tier == 1 else ("cross" if t0.startswith("cross~") else "~" + t0.rsplit("~", 1)[-1])
            acc.part.violation("payload-fixpoint-value", f"{ent.keystr}{lab}:{what}:at={where}:{mode}", witness,
                               f"{_show(payload)} and its re-encoding {_show(b1)} decode to different values at {where}: {v!r:.300} vs {v1!r:.300}")
        else:
            acc.nontrivial((ent.idx, ctxval if ent.ctx_field else None, mode, "normalised", tag.split("@")[0]))
    if pod:
        check_pod_literal(acc, ent, block, site, witness, v, b1, use_pformat=pformat)


def _encode_own(acc: Acc, ent: Entry, block: Block, ctxval, vals) -> List[Tuple[bytes, str]]:
    out = []
    lab = ctx_label(ent, ctxval)
    for v, tag in vals:
        acc.evals += 1
        try:
            p = ent.ser.serialize(block, v)
            if not isinstance(p, (bytes, bytearray)):
                raise TypeError(f"serialize returned {p!r:.80}")
        except Exception as e:
            acc.part.violation("gen-encode-raises", f"{ent.keystr}{lab}:{tag}", {"kind": "gen", "key": list(ent.key), "ctx": ctxval, "tag": tag,
                                                                                  "thorough": _THOROUGH},
                               f"value from the serializer's own template is rejected by serialize: {e!r}; value {v!r:.300}")
            continue
        out.append((bytes(p), tag))
    return out


def _is_raw_adapter(ent: Entry) -> bool:
    return ent.adapter is not None and not hasattr(ent.ser, "TEMPLATE") and not hasattr(ent.ser, "TEMPLATES")


GENERIC_LENGTHS = (0, 1, 2, 3, 4, 8, 16, 17, 18, 20, 32, 33, 36, 48, 60, 64, 76, 86, 100, 101, 512)


def generic_payloads() -> List[Tuple[bytes, str]]:
    """Wire-first candidates for entries without template-derived values: the library decides which of them it accepts."""
    out = []
    for n in GENERIC_LENGTHS:
        out.append((b"\x00" * n, f"generic-zeros{n}"))
        if n:
            out.append((b"\x01" * n, f"generic-ones{n}"))
            out.append((bytes((i * 37 + 1) & 0xFF for i in range(n)), f"generic-pattern{n}"))
    return out


def _own_payloads(acc: Acc, ent: Entry, block: Block, ctxval, dom: sg.Domain, pick) -> Tuple[List[Tuple[bytes, str]], Optional[str]]:
    """Payloads the serializer itself produces for the variants selected by ``pick(j, tag)``; also the base tag."""
    if _is_raw_adapter(ent):
        try:
            vals = adapter_payloads(ent)
        except (ins.IntrospectionError, sg.UnknownSpec, AttributeError) as e:
            _NO_TEMPLATE_GEN.setdefault(ent.keystr, f"{type(e).__name__}: {e}"[:200])
            vals = []
        return [x for j, x in enumerate(vals) if pick(j, x[1])], (vals[0][1] if vals else None)
    vals = own_values(ent, ctxval, dom)
    mine = [x for j, x in enumerate(vals) if pick(j, x[1])]
    return _encode_own(acc, ent, block, ctxval, mine), (vals[0][1] if vals else None)


_COMP_RE = re.compile(r"^(.*c\d+:([US]\d+))\.raw=(-?\d+)$")


def wire_component_payloads(part: Part, ent: Entry, block: Block, ctxval, dom: sg.Domain) -> List[Tuple[bytes, str]]:
    """Wire-first tier 1 for quantised vector / packed-quaternion components: the byte position of each component is
    located by comparing the serializer's own payloads for the component's lowest and highest raw (they differ in every
    byte of the component and nowhere else); then every raw of the component alphabet is written there directly.
    Such a payload is one the serializer can itself produce (the encoding of the value with that component replaced by
    the decoding of the raw) as long as the component codec is raw-exact (C10) and containers pass components through."""
    if _is_raw_adapter(ent):
        return []
    groups: Dict[str, Tuple[str, Dict[int, Any]]] = {}
    for v, tag in own_values(ent, ctxval, dom):
        m = _COMP_RE.match(tag)
        if m:
            groups.setdefault(m.group(1), (m.group(2), {}))[1][int(m.group(3))] = v
    out: List[Tuple[bytes, str]] = []
    for prefix, (wire, byraw) in groups.items():
        lo, hi = sg.int_range(wire)
        fmt, size = sg.INT_FMT[wire], sg.INT_BITS[wire] // 8
        try:
            p_lo, p_hi = bytes(ent.ser.serialize(block, byraw[lo])), bytes(ent.ser.serialize(block, byraw[hi]))
        except Exception:
            part.count("splice_unlocatable")
            continue
        diffs = [i for i in range(min(len(p_lo), len(p_hi))) if p_lo[i] != p_hi[i]]
        if len(p_lo) != len(p_hi) or not diffs:
            part.count("splice_unlocatable")
            continue
        off = diffs[0]
        if diffs[-1] >= off + size or p_lo[off:off + size] != struct.pack(fmt, lo) or p_hi[off:off + size] != struct.pack(fmt, hi):
            part.count("splice_unlocatable")
            continue
        part.count("splice_components")
        for r in byraw:
            out.append((p_hi[:off] + struct.pack(fmt, r) + p_hi[off + size:], f"{prefix}.wire={r}"))
    return out


def unit_payload(item) -> dict:
    """Tier 1.  item = (entry index, slice k, slices n): variant j of every context is handled by slice j % n."""
    idx, k, n = item
    ent = _ENTRIES[idx]
    part = Part()
    acc = Acc(part)
    dom = sg.Domain(_THOROUGH)
    ctxs = context_values(ent, _THOROUGH)
    n_own = 0
    for ctxval in ctxs:
        block = make_block(ent, ctxval)
        own, _ = _own_payloads(acc, ent, block, ctxval, dom, lambda j, tag: j % n == k)
        for j, (p, tag) in enumerate(own):
            n_own += 1
            for pod in (False, True):
                check_payload(acc, ent, block, ctxval, p, tag, pod, 1, pformat=_THOROUGH or j < 8)
        if k == 0:
            for p, tag in wire_component_payloads(part, ent, block, ctxval, dom):
                part.count("tier1_wire_spliced")
                for pod in (False, True):
                    check_payload(acc, ent, block, ctxval, p, tag, pod, 1, pformat=False)
    part.count("tier1_payloads", n_own)
    part.count("payload_units")
    acc.flush()
    return part.dump()


_STRUCTURAL = ("none", "empty", "one", "empty-list")


def _bases(ent: Entry, ctxs, dom: sg.Domain) -> Dict[Any, List[Tuple[bytes, str]]]:
    """Payloads that get mutated / cross-fed: the base of each context; thorough: every structural base as well (other
    branch heads of length/enum switches, the all-options-off base, empty / single-element forms) and every 128th variant."""
    bases: Dict[Any, List[Tuple[bytes, str]]] = {}
    for ctxval in ctxs:
        block = make_block(ent, ctxval)
        got, base_tag = _own_payloads(Acc(Part()), ent, block, ctxval, dom,  # encode failures are reported by tier 1
                                      lambda j, tag: j == 0 or (_THOROUGH and (tag.endswith("base") or tag in _STRUCTURAL or j % 128 == 0)))
        if got and got[0][1] == base_tag:
            bases[ctxval] = got
    return bases


def tier2_feed(ent: Entry, dom: sg.Domain) -> List[Tuple[Any, bytes, str]]:
    """(context, payload, tag) for every 'payload it accepts' candidate, in a fixed order."""
    ctxs = context_values(ent, _THOROUGH)
    bases = _bases(ent, ctxs, dom)
    cross: List[Tuple[bytes, str]] = []
    for c, lst in bases.items():
        p, tag = lst[0]
        if p not in [x[0] for x in cross]:
            cross.append((p, f"base-of{ctx_label(ent, c)}"))
    feed: List[Tuple[Any, bytes, str]] = []
    for ctxval in ctxs:
        seen = set()
        for p, tag in bases.get(ctxval, []):
            for b, mt in sg.mutations(p, _THOROUGH):
                if b not in seen:
                    seen.add(b)
                    feed.append((ctxval, b, f"{tag}~{mt}"))
        if ent.ctx_field is not None:
            own_b = {p for p, _ in bases.get(ctxval, [])}
            feed += [(ctxval, p, f"cross~{t}") for p, t in cross if p not in own_b]
        if ent.keystr in _NO_TEMPLATE_GEN:
            feed += [(ctxval, p, t) for p, t in generic_payloads()]
    return feed


def unit_tier2(item) -> dict:
    """Tier 2.  item = (entry index, slice k, slices n) over the fixed-order feed."""
    idx, k, n = item
    ent = _ENTRIES[idx]
    part = Part()
    acc = Acc(part)
    dom = sg.Domain(_THOROUGH)
    feed = tier2_feed(ent, dom)
    blocks: Dict[Any, Block] = {}
    cnt = 0
    for j, (ctxval, b, tag) in enumerate(feed):
        if j % n != k:
            continue
        block = blocks.get(ctxval)
        if block is None:
            block = blocks[ctxval] = make_block(ent, ctxval)
        cnt += 1
        for pod in (False, True):
            check_payload(acc, ent, block, ctxval, b, tag, pod, 2, pformat=False)
    part.count("tier2_payloads", cnt)
    part.count("tier2_units")
    if k == 0:
        first = next((x for x in feed), None)
        part.sample({"family": "payload", "key": ent.keystr, "serializer": ent.adapter_kind, "ctx_field": ent.ctx_field,
                     "contexts": len(context_values(ent, _THOROUGH)), "tier2_candidates": len(feed),
                     "first_candidate": {"ctx": first[0], "payload": first[1], "tag": first[2]} if first else None}, limit=1)
    acc.flush()
    return part.dump()


# ------------------------------------------------------------------------------------------------ (g) encode history
_HDOM: List[Any] = []
_HVALS: Dict[Tuple[int, Any], List[Tuple[Any, str]]] = {}


def _hvals(ent: Entry, ctxval) -> List[Tuple[Any, str]]:
    """Per-process cache of the (quick-domain) non-None values of an entry/context, for the history family."""
    key = (ent.idx, ctxval)
    if key not in _HVALS:
        if not _HDOM:
            _HDOM.append(sg.Domain(False))
        _HVALS[key] = [x for x in own_values(ent, ctxval, _HDOM[0]) if x[0] is not None]
    return _HVALS[key]


class _Poison:
    """A value no primitive can encode."""

    def __repr__(self):
        return "<poison>"


def _leaf_paths(v: Any, path: Tuple[int, ...] = ()) -> List[Tuple[int, ...]]:
    """Positional paths (dict members by position, so they survive JSON) of the leaves of a plain-data value."""
    if isinstance(v, dict) and v:
        out = []
        for i, x in enumerate(v.values()):
            out += _leaf_paths(x, path + (i,))
        return out
    if isinstance(v, (list, tuple)) and v and not isinstance(v, dtypes.TupleCoord):
        out = []
        for i, x in enumerate(v):
            out += _leaf_paths(x, path + (i,))
        return out
    return [path]


def _replace_at(v: Any, path: Tuple[int, ...], new: Any) -> Any:
    if not path:
        return new
    i = path[0]
    if isinstance(v, dict):
        keys = list(v.keys())
        return {k: (_replace_at(x, path[1:], new) if j == i else x) for j, (k, x) in enumerate(zip(keys, v.values()))}
    seq = [(_replace_at(x, path[1:], new) if j == i else x) for j, x in enumerate(v)]
    return tuple(seq) if isinstance(v, tuple) else seq


def failing_edits(ent: Entry, ctxval, dom: sg.Domain, limit: int = 3) -> List[Tuple[int, ...]]:
    """Leaf positions of the entry's base value at which an unencodable member makes the template encode raise *after*
    at least one byte was written (probed with a private writer on the serializer's own template)."""
    tmpl = template_for(ent, ctxval, dom)
    if tmpl is None or tmpl is se.UNSERIALIZABLE or _is_raw_adapter(ent):
        return []
    vals = _hvals(ent, ctxval)
    if not vals:
        return []
    base = vals[0][0]
    good = []
    for path in _leaf_paths(base):
        if not path:
            continue
        w = se.BufferWriter("<")
        try:
            w.write(tmpl, _replace_at(base, path, _Poison()))
        except Exception:
            if len(w.buffer) > 0:
                good.append(path)
    if len(good) > limit:
        good = [good[0], good[len(good) // 2], good[-1]][:limit]
    return good


_FOREIGN_FAIL: Dict[int, Optional[Tuple[int, Any, Tuple[int, ...]]]] = {}


def foreign_fail(ent: Entry) -> Optional[Tuple[int, Any, Tuple[int, ...]]]:
    """(entry index, context, path) of a partially-failing encode of a *different* registered template serializer."""
    if ent.idx not in _FOREIGN_FAIL:
        found = None
        dom = sg.Domain(False)
        for other in _ENTRIES:
            if other.kind != "payload" or other.ser is ent.ser or other.idx == ent.idx:
                continue
            for c in context_values(other, False):
                try:
                    fe = failing_edits(other, c, dom, limit=1)
                except Exception:
                    fe = []
                if fe:
                    found = (other.idx, c, fe[0])
                    break
            if found:
                break
        _FOREIGN_FAIL[ent.idx] = found
    return _FOREIGN_FAIL[ent.idx]


def _do_fail(idx: int, ctxval, path: Tuple[int, ...]) -> bool:
    """Run one failing encode through the real serializer; True iff it raised."""
    other = _ENTRIES[idx]
    bad = _replace_at(_hvals(other, ctxval)[0][0], tuple(path), _Poison())
    try:
        other.ser.serialize(make_block(other, ctxval), bad)
    except Exception:
        return True
    return False


def run_history(part: Part, ent: Entry, ctxval, fails: List[Tuple[int, Any, Tuple[int, ...]]], op: str, vtag: str, foreign: bool) -> bool:
    """Encode history: expected bytes from two consecutive encodes before any failure, then the failing encodes, then
    one operation: 'obj' = serialize(value), 'pod' = serialize(pod form of the expected bytes), 'block' = Block.serialize_var."""
    block = make_block(ent, ctxval)
    vals = [x for x in _hvals(ent, ctxval) if x[1] == vtag]
    if not vals:
        return True
    v = vals[0][0]
    ser = ent.ser
    site = f"{ent.keystr}{ctx_label(ent, ctxval)}:after-failed-encode" + (":foreign" if foreign else "")
    w = {"kind": "history", "key": list(ent.key), "ctx": ctxval, "fails": [[i, c, list(p)] for i, c, p in fails], "op": op, "vtag": vtag,
         "foreign": foreign}
    try:
        ser.serialize(block, v)
        expected = bytes(ser.serialize(block, v))
        if op == "pod":
            v = ser.deserialize(block, expected, pod=True)
            if v is se.UNSERIALIZABLE:
                return True
            ser.serialize(block, v)
            expected = bytes(ser.serialize(block, v))
    except Exception:
        return True  # families (c)/(d) judge whether the value encodes at all
    for i, c, path in fails:
        if not _do_fail(i, c, path):
            part.count("history_fail_did_not_raise")
            return True
    try:
        if op == "block":
            blk = make_block(ent, ctxval, b"")
            blk.serialize_var(ent.key[2], v)
            got = blk[ent.key[2]]
        else:
            got = ser.serialize(block, v)
    except Exception as e:
        part.violation("encode-independent", site, w, f"{op} encode of {vtag} raised {e!r} after the failed encode(s), it worked before them")
        return False
    if not isinstance(got, (bytes, bytearray)) or bytes(got) != expected:
        part.violation("encode-independent", site, w, f"{op} encode of {vtag} after {len(fails)} failed encode(s) gives {_show(got)}, before them "
                                                      f"{_show(expected)}")
        return False
    return True


def unit_history(ent: Entry) -> dict:
    """(g) for every context with a template: up to 3 partially-failing edits x sequences [fail], [fail, fail], [foreign fail],
    [foreign fail, fail] x operations {obj, pod, block} x values {base + next two variants}."""
    part = Part()
    acc = Acc(part)
    dom = sg.Domain(False)
    ff = foreign_fail(ent)
    n_ctx = 0
    for ctxval in context_values(ent, False):
        try:
            fes = failing_edits(ent, ctxval, dom)
        except (ins.IntrospectionError, sg.UnknownSpec, AttributeError):
            fes = []
        if not fes:
            continue
        n_ctx += 1
        tags = [t for _, t in _hvals(ent, ctxval)][:3]
        for path in fes:
            own = (ent.idx, ctxval, path)
            seqs = [([own], False), ([own, own], False)]
            if ff is not None:
                seqs += [([ff], True), ([ff, own], True)]
            for fails, foreign in seqs:
                for op in ("obj", "pod", "block"):
                    for vtag in tags:
                        acc.evals += 1
                        if run_history(part, ent, ctxval, fails, op, vtag, foreign):
                            acc.nontrivial((ent.idx, ctxval, "history", path, len(fails), foreign, op, vtag))
        acc.outcome((ent.idx, ctxval, "history", len(fes), ff is not None))
    part.count("history_units")
    part.count("history_contexts", n_ctx)
    if n_ctx:
        part.sample({"family": "encode-history", "key": ent.keystr, "contexts_with_failing_edit": n_ctx,
                     "foreign_fail": None if ff is None else [_ENTRIES[ff[0]].keystr, ff[1], list(ff[2])]}, limit=1)
    acc.flush()
    return part.dump()


# ------------------------------------------------------------------------------------------------ (e) block cache
def _scramble(v: Any, depth: int = 0) -> bool:
    """Edit a decoded value deeply IN PLACE (every reachable container gets its members replaced / removed); True iff
    something mutable was reached.  Immutable values (ints, enums, tuples of immutables, str, bytes) cannot be edited."""
    import dataclasses as _dc
    import numpy as _np
    v = sg.unwrap(v)
    if depth > 8:
        return False
    if isinstance(v, _np.ndarray):
        if v.flags.writeable and v.size:
            v[...] = 1 - v
            return True
        return False
    if isinstance(v, dict):
        for k in list(v.keys()):
            if not _scramble(v[k], depth + 1):
                v[k] = "scrambled"
        v["__harness_extra__"] = 1
        return True
    if isinstance(v, list):
        for i in range(len(v)):
            if not _scramble(v[i], depth + 1):
                v[i] = "scrambled"
        v.append("scrambled")
        return True
    if _dc.is_dataclass(v) and not isinstance(v, type):
        for f in _dc.fields(v):
            if not _scramble(getattr(v, f.name), depth + 1):
                try:
                    setattr(v, f.name, "scrambled")
                except Exception:
                    pass
        return True
    if isinstance(v, dtypes.TaggedUnion):
        if not _scramble(v.value, depth + 1):
            v.value = "scrambled"
        v.tag = "scrambled"
        return True
    if isinstance(v, tuple) and not isinstance(v, dtypes.TupleCoord):
        return any([_scramble(x, depth + 1) for x in v])
    return False


def check_copy_isolation(part: Part, ent: Entry, ctxval, raw: Any, site: str) -> int:
    """Values handed out by deserialize_var(make_copy=True) are the caller's to edit: after editing the FIRST / a LATER /
    a copy-after-nocopy result deeply in place (and not writing it back) the block's decoded view must still be the
    decoding of its unchanged wire value, and serialize_var(k, deserialize_var(k)) must reproduce the bytes."""
    ser, var = ent.ser, ent.key[2]
    fresh_blk = make_block(ent, ctxval, raw)
    try:
        fresh = force_deep(ser.deserialize(fresh_blk, raw, pod=False))
        fresh_pod = ser.deserialize(fresh_blk, raw, pod=True)
        rt_ok = _same_raw(ser.serialize(fresh_blk, fresh), raw)
    except Exception:
        return 0
    if fresh is se.UNSERIALIZABLE:
        return 0
    n = 0
    for variant in ("first-copy", "later-copy", "copy-after-nocopy"):
        w = {"kind": "cache", "key": list(ent.key), "ctx": ctxval, "raw1": raw, "variant": variant}
        blk = make_block(ent, ctxval, raw)
        try:
            if variant == "later-copy":
                blk.deserialize_var(var)
            elif variant == "copy-after-nocopy":
                blk.deserialize_var(var, make_copy=False)
            mine = blk.deserialize_var(var)
            if not _scramble(mine):
                return n  # immutable decoded form: nothing a caller could edit
            n += 1
            for how in ("copy", "nocopy"):
                got = force_deep(blk.deserialize_var(var, make_copy=(how == "copy")))
                if not sg.same(got, fresh):
                    part.violation("cache-invalidation", f"{site}:{variant}", w,
                                   f"a caller edited the value deserialize_var() gave it (never written back); deserialize_var(make_copy="
                                   f"{how == 'copy'}) now returns {got!r:.140}, the decoding of the unchanged wire value is {fresh!r:.140}")
                    break
            pod_now = ser.deserialize(blk, blk[var], pod=True)
            if not (pod_now is fresh_pod or sg.same(pod_now, fresh_pod)):
                part.violation("cache-invalidation", f"{site}:{variant}:pod", w, f"pod decoding changed to {pod_now!r:.140}")
            if rt_ok:
                blk.serialize_var(var, blk.deserialize_var(var))
                if not _same_raw(blk[var], raw):
                    part.violation("cache-invalidation", f"{site}:{variant}:writeback", w,
                                   f"serialize_var(k, deserialize_var(k)) after the caller's edit rewrote {_show(raw)} to {_show(blk[var])}")
        except Exception as e:
            part.violation("cache-invalidation", f"{site}:{variant}:raises", w, f"{e!r} while re-reading / writing back after the caller's edit")
    return n


def unit_cache(ent: Entry) -> dict:
    part = Part()
    acc = Acc(part)
    ser, var = ent.ser, ent.key[2]
    dom = sg.Domain(False)
    cands: List[Any] = []
    ctx_used = None
    for ctxval in context_values(ent, False):
        block = make_block(ent, ctxval)
        if ent.kind == "int":
            raws = sg.small_int_alphabet(ent.wire)
        else:
            if _is_raw_adapter(ent):
                raws = [p for p, _ in adapter_payloads(ent)]
            else:
                raws = [p for p, _ in _encode_own(Acc(Part()), ent, block, ctxval, own_values(ent, ctxval, dom)[:12])]
        good = []
        for r in raws:
            try:
                d = force_deep(ser.deserialize(block, r, pod=False))
            except Exception:
                continue
            if d is se.UNSERIALIZABLE:
                continue
            if not any(sg.same(d, g[1]) for g in good):
                good.append((r, d))
            if len(good) == 3:
                break
        if len(good) >= 2:
            cands, ctx_used = good, ctxval
            break
    if len(cands) < 2:
        part.count("cache_skipped_single_value")
        return part.dump()
    site = f"{ent.keystr}{ctx_label(ent, ctx_used)}"
    for r, _ in cands:
        k = check_copy_isolation(part, ent, ctx_used, r, site)
        acc.evals += k
        if k:
            acc.nontrivial((ent.idx, "copy-isolation", repr(r)[:40]))
            part.count("copy_isolation_cases", k)
    for (r1, _), (r2, d2) in zip(cands, cands[1:] + cands[:1]):
        acc.evals += 1
        w = {"kind": "cache", "key": list(ent.key), "ctx": ctx_used, "raw1": r1, "raw2": r2}
        blk = make_block(ent, ctx_used, r1)
        try:
            first = blk.deserialize_var(var)
            blk[var] = r2
            got = force_deep(blk.deserialize_var(var))
            if not sg.same(got, d2):
                part.violation("cache-invalidation", f"{site}:setitem", w, f"after block[{var!r}] = {_show(r2)} deserialize_var returned {got!r:.160}, "
                                                                          f"fresh deserialize gives {d2!r:.160}")
            # serialize_var caches the pretty value it was given; a later raw assignment must drop it
            blk.serialize_var(var, first)
            blk[var] = r2
            got = force_deep(blk.deserialize_var(var))
            if not sg.same(got, d2):
                part.violation("cache-invalidation", f"{site}:after-serialize_var", w, f"stale pretty value {got!r:.160} after raw assignment; fresh {d2!r:.160}")
            # Pretty(...) assignment goes through the serializer and must leave raw + cache consistent
            blk[var] = dtypes.Pretty(d2)
            got = force_deep(blk.deserialize_var(var))
            raw_now = blk[var]
            fresh = force_deep(ser.deserialize(blk, raw_now, pod=False))
            if not sg.same(got, fresh):
                part.violation("cache-invalidation", f"{site}:pretty-assign", w, f"cache {got!r:.160} disagrees with decode of the stored raw {fresh!r:.160}")
            # the copy handed out must not alias the cache
            a = blk.deserialize_var(var)
            b = blk.deserialize_var(var)
            if isinstance(sg.unwrap(a), (dict, list)) and sg.unwrap(a) is sg.unwrap(b):
                part.violation("cache-invalidation", f"{site}:aliasing", w, "deserialize_var(make_copy=True) returned the cached object itself")
            acc.nontrivial((ent.idx, "cache", repr(r1)[:40], repr(r2)[:40]))
            acc.outcome((ent.idx, "cache-ok"))
        except Exception as e:
            # decode/encode failures are families (a)/(c); here only the cache protocol is judged
            acc.outcome((ent.idx, "cache-path-raised", type(e).__name__))
    part.count("cache_units")
    acc.flush()
    return part.dump()


# ------------------------------------------------------------------------------------------------ (e2) assignment styles
_STYLES = ("int", "member", "foreign", "pretty")
_FOREIGN: Dict[int, Any] = {}


def _foreign_member(n: int):
    """A member of an IntEnum class unrelated to the library whose integer value is n."""
    import enum as _enum
    m = _FOREIGN.get(n)
    if m is None:
        m = _FOREIGN[n] = _enum.IntEnum(f"HarnessForeign_{n & 0xFFFFFFFFFFFFFFFF:x}", {"MEMBER": n}).MEMBER
    return m


def _own_class(ent: Entry):
    return getattr(ent.adapter, "enum_cls", None) or getattr(ent.adapter, "flag_cls", None)


def assign_values(ent: Entry) -> List[int]:
    """Integers used as assignment targets: members of the entry's own enum/flag class (all for <= 12 distinct values,
    else first / middle / last), for flags also 0 and the OR of the first two members; for entries without an enum class
    the first values of the small alphabet.  Only values of the wire type that decode without raising."""
    lo, hi = sg.int_range(ent.wire)
    cls = _own_class(ent)
    vals: List[int] = []
    if cls is not None:
        mem = []
        for m in cls.__members__.values():
            if int(m) not in mem and lo <= int(m) <= hi:
                mem.append(int(m))
        vals = mem if len(mem) <= 12 else [mem[0], mem[len(mem) // 2], mem[-1]]
        if hasattr(ent.adapter, "flag_cls"):
            vals = vals + [0] + ([mem[0] | mem[1]] if len(mem) >= 2 else [])
    else:
        vals = [v for v in sg.small_int_alphabet(ent.wire)][:6]
    out = []
    for v in vals:
        if lo <= v <= hi and v not in out:
            out.append(v)
    return out


def _make_assigned(ent: Entry, style: str, n: int, expected_obj: Any):
    if style == "int":
        return n
    if style == "member":
        cls = _own_class(ent)
        return cls(n) if cls is not None else _foreign_member(n)
    if style == "foreign":
        return _foreign_member(n)
    if style == "pretty":
        return dtypes.Pretty(expected_obj)
    raise ValueError(style)


def run_assign_sequence(part: Part, ent: Entry, ctxval, init: int, steps: List[Tuple[str, int]], mode: str, site_base: str) -> bool:
    """Prime the cache on raw ``init``; apply the assignments; after each (mode 'each') or only after the last one
    (mode 'end') require: stored raw == the integer assigned, deserialize_var == decoding of that integer (object form;
    the pod decoding of the stored raw as well), serialize_var(deserialize_var()) leaves the raw value unchanged."""
    ser, var = ent.ser, ent.key[2]
    w = {"kind": "cache-seq", "key": list(ent.key), "ctx": ctxval, "init": init, "steps": [list(x) for x in steps], "mode": mode}
    fresh = make_block(ent, ctxval)

    def dec(n, pod=False):
        return ser.deserialize(fresh, n, pod=pod)

    blk = make_block(ent, ctxval, init)
    blk.deserialize_var(var)
    ok = True
    site = site_base
    for i, (style, n) in enumerate(steps):
        exp = dec(n)
        blk[var] = _make_assigned(ent, style, n, exp)
        if mode == "end" and i + 1 < len(steps):
            continue
        where = f"step {i + 1} ({style} {n}) of init={init} {steps}"
        if len(steps) > 1:
            # name the failing step's style and its predecessor's, not the whole sequence (which is in the witness)
            site = f"{site_base}:{style}-after-{steps[i - 1][0] if i else 'init'}:{mode}"
        raw_now = blk[var]
        rt_ok = _same_raw(ser.serialize(fresh, exp), n)  # family (a) judges the codec; here only the cache protocol
        if style == "pretty" and not rt_ok:
            continue
        if not _same_raw(raw_now, n):
            part.violation("cache-invalidation", f"{site}:raw", w, f"{where}: block[{var!r}] is {raw_now!r}, expected {n}")
            ok = False
            continue
        got = blk.deserialize_var(var)
        if not sg.same(got, exp):
            part.violation("cache-invalidation", f"{site}:stale-object", w, f"{where}: deserialize_var returned {got!r:.120}, the decoding of {n} is {exp!r:.120}")
            ok = False
        pod_now, pod_exp = ser.deserialize(blk, blk[var], pod=True), dec(n, pod=True)
        if not (pod_now is pod_exp or sg.same(pod_now, pod_exp)):
            part.violation("cache-invalidation", f"{site}:stale-pod", w, f"{where}: pod decoding {pod_now!r:.120}, expected {pod_exp!r:.120}")
            ok = False
        if rt_ok:
            blk.serialize_var(var, blk.deserialize_var(var))
            if not _same_raw(blk[var], n):
                part.violation("cache-invalidation", f"{site}:writeback", w, f"{where}: serialize_var(deserialize_var()) changed the raw value {n} to {blk[var]!r}")
                ok = False
    return ok


def unit_assign(ent: Entry) -> dict:
    """(e2) raw values assigned as plain int / member instance of the entry's own enum or flag class / member of an
    unrelated IntEnum / Pretty(value): every single assignment for every target value, and every sequence of three
    assignments over the four styles (4^3 orders), checked after each step and only at the end."""
    import itertools
    part = Part()
    acc = Acc(part)
    ctxval = context_values(ent, False)[0]
    fresh = make_block(ent, ctxval)
    vals = []
    for v in assign_values(ent):
        try:
            d = ent.ser.deserialize(fresh, v, pod=False)
        except Exception:
            continue
        if d is not se.UNSERIALIZABLE:
            vals.append(v)
    if len(vals) < 2:
        part.count("assign_skipped_single_value")
        return part.dump()
    base = f"{ent.keystr}{ctx_label(ent, ctxval)}"
    styles = [st for st in _STYLES if st != "member" or _own_class(ent) is not None]
    for j, n in enumerate(vals):
        init = vals[(j + 1) % len(vals)]
        for style in styles:
            acc.evals += 1
            if run_assign_sequence(part, ent, ctxval, init, [(style, n)], "each", f"{base}:assign:{style}"):
                acc.nontrivial((ent.idx, "assign", style, n))
    trip = [vals[0], vals[len(vals) // 2], vals[-1]] if len(vals) >= 3 else [vals[0], vals[1], vals[0]]
    init = vals[1] if len(vals) >= 3 and vals[1] not in trip[:1] else vals[-1]
    for combo in itertools.product(styles, repeat=3):
        for mode in ("each", "end"):
            acc.evals += 1
            if run_assign_sequence(part, ent, ctxval, init, list(zip(combo, trip)), mode, f"{base}:seq"):
                acc.nontrivial((ent.idx, "seq", combo, mode))
    acc.outcome((ent.idx, "assign", len(vals), len(styles)))
    part.count("assign_units")
    part.sample({"family": "cache-assign", "key": ent.keystr, "own_class": getattr(_own_class(ent), "__name__", None), "values": vals,
                 "styles": styles, "sequences": len(styles) ** 3 * 2}, limit=1)
    acc.flush()
    return part.dump()


# ------------------------------------------------------------------------------------------------ (h) second subclass
def _second_subclass_participants() -> Dict[str, List[dict]]:
    """For each abstract subfield-serializer base that addons subclass: two harness-defined addon-style subclasses with
    DIFFERENT templates behind the SAME selector values + one shipped subclass.  Every case carries hand-built reference
    bytes (struct / literal ints), the value that must encode to them and, for harness classes, the value they decode to."""
    import hippolyzer.lib.base.templates as T

    class FlagsA(dtypes.IntFlag):
        POSITION = 1
        ROTATION = 2
        SCALE = 4

    class FlagsB(dtypes.IntFlag):
        POSITION = 1
        OTHER = 2
        SCALE = 4

    class KindA(dtypes.IntEnum):
        X = 7
        Y = 14

    class KindB(dtypes.IntEnum):
        P = 7
        Q = 14

    class AddonFlagsA(se.FlagSwitchedSubfieldSerializer):
        FLAG_FIELD = "Type"
        TEMPLATES = {FlagsA.POSITION: se.U8, FlagsA.ROTATION: se.U16, FlagsA.SCALE: se.U8}

    class AddonFlagsB(se.FlagSwitchedSubfieldSerializer):
        FLAG_FIELD = "Type"
        TEMPLATES = {FlagsB.POSITION: se.U32, FlagsB.OTHER: se.U8, FlagsB.SCALE: se.U16}

    class AddonEnumA(se.EnumSwitchedSubfieldSerializer):
        ENUM_FIELD = "Type"
        TEMPLATES = {KindA.X: se.Template({"a": se.U8}), KindA.Y: se.Template({"b": se.U16})}

    class AddonEnumB(se.EnumSwitchedSubfieldSerializer):
        ENUM_FIELD = "Type"
        TEMPLATES = {KindB.P: se.Template({"a": se.U32}), KindB.Q: se.Template({"c": se.U8, "d": se.U8})}

    class AddonSimpleA(se.SimpleSubfieldSerializer):
        TEMPLATE = se.Template({"x": se.U8})

    class AddonSimpleB(se.SimpleSubfieldSerializer):
        TEMPLATE = se.Template({"x": se.U16, "y": se.U8})
        EMPTY_IS_NONE = True

    class AddonAdapterA(se.AdapterSubfieldSerializer):
        ADAPTER = se.IntEnum(KindA)

    class AddonAdapterB(se.AdapterSubfieldSerializer):
        ADAPTER = se.IntFlag(FlagsB)

    def blk(sel):
        b = Block("HarnessBlock", Type=sel)
        b.message_name = "HarnessMessage"
        return b

    f3 = struct.pack("<3f", 1.0, -1.5, 0.5)
    u1, u2 = bytes(range(1, 17)), bytes(range(17, 33))
    out: Dict[str, List[dict]] = {}

    # -- FlagSwitched: every flag word 0..7
    fa, fb, shipped = [], [], []
    for wv in range(8):
        va, ra = {}, b""
        vb, rb = {}, b""
        vs, rs = {}, b""
        if wv & 1:
            va["POSITION"], ra = 0x11, ra + b"\x11"
            vb["POSITION"], rb = 0x44332211, rb + struct.pack("<I", 0x44332211)
            vs["POSITION"], rs = (1.0, -1.5, 0.5), rs + f3
        if wv & 2:
            va["ROTATION"], ra = 0x2211, ra + struct.pack("<H", 0x2211)
            vb["OTHER"], rb = 0x7F, rb + b"\x7f"
            vs["ROTATION"], rs = (0.5, 0.25, 0.0), rs + struct.pack("<3f", 0.5, 0.25, 0.0)
        if wv & 4:
            va["SCALE"], ra = 0x33, ra + b"\x33"
            vb["SCALE"], rb = 0x5544, rb + struct.pack("<H", 0x5544)
            vs["SCALE"], rs = (1.0, -1.5, 0.5), rs + f3
        fa.append({"sel": wv, "value": va, "ref": ra, "decoded": va})
        fb.append({"sel": wv, "value": vb, "ref": rb, "decoded": vb})
        shipped.append({"sel": wv, "value": vs, "ref": rs, "decoded": None})
    out["FlagSwitchedSubfieldSerializer"] = [
        {"name": "AddonFlagsA", "ser": AddonFlagsA, "block": blk, "cases": fa, "bad": {"POSITION": _Poison()}, "bad_sel": 1},
        {"name": "AddonFlagsB", "ser": AddonFlagsB, "block": blk, "cases": fb, "bad": {"POSITION": 1, "OTHER": _Poison()}, "bad_sel": 3},
        {"name": "shipped:MultipleObjectUpdateDataSerializer", "ser": T.MultipleObjectUpdateDataSerializer, "block": blk, "cases": shipped},
    ]
    # -- EnumSwitched: selector values 7 and 14 mean different things to each subclass (and to ViewerEffect: BEAM / LOOKAT)
    spiral = u1 + u2 + struct.pack("<3d", 1.0, -1.5, 0.5)
    out["EnumSwitchedSubfieldSerializer"] = [
        {"name": "AddonEnumA", "ser": AddonEnumA, "block": blk, "bad": {"b": _Poison()}, "bad_sel": 14,
         "cases": [{"sel": 7, "value": {"a": 0x11}, "ref": b"\x11", "decoded": {"a": 0x11}},
                   {"sel": 14, "value": {"b": 0x2211}, "ref": b"\x11\x22", "decoded": {"b": 0x2211}}]},
        {"name": "AddonEnumB", "ser": AddonEnumB, "block": blk, "bad": {"c": 1, "d": _Poison()}, "bad_sel": 14,
         "cases": [{"sel": 7, "value": {"a": 0x44332211}, "ref": b"\x11\x22\x33\x44", "decoded": {"a": 0x44332211}},
                   {"sel": 14, "value": {"c": 5, "d": 6}, "ref": b"\x05\x06", "decoded": {"c": 5, "d": 6}}]},
        {"name": "shipped:ViewerEffectDataSerializer", "ser": T.ViewerEffectDataSerializer, "block": blk,
         "cases": [{"sel": 7, "value": {"SourceID": dtypes.UUID(bytes=u1), "TargetID": dtypes.UUID(bytes=u2), "TargetPos": (1.0, -1.5, 0.5)},
                    "ref": spiral, "decoded": None},
                   {"sel": 14, "value": {"SourceID": dtypes.UUID(bytes=u1), "TargetID": dtypes.UUID(bytes=u2), "TargetPos": (1.0, -1.5, 0.5),
                                         "LookTargetType": 3}, "ref": spiral + b"\x03", "decoded": None}]},
    ]
    # -- Simple (BaseSubfieldSerializer with TEMPLATE)
    out["SimpleSubfieldSerializer"] = [
        {"name": "AddonSimpleA", "ser": AddonSimpleA, "block": blk, "bad": {"x": _Poison()}, "bad_sel": 0,
         "cases": [{"sel": 0, "value": {"x": 0x11}, "ref": b"\x11", "decoded": {"x": 0x11}}]},
        {"name": "AddonSimpleB", "ser": AddonSimpleB, "block": blk, "bad": {"x": 1, "y": _Poison()}, "bad_sel": 0,
         "cases": [{"sel": 0, "value": {"x": 0x2211, "y": 0x33}, "ref": b"\x11\x22\x33", "decoded": {"x": 0x2211, "y": 0x33}},
                   {"sel": 0, "value": None, "ref": b"", "decoded": None, "decoded_is_none": True}]},
        {"name": "shipped:AgentThrottlesSerializer", "ser": T.AgentThrottlesSerializer, "block": blk,
         "cases": [{"sel": 0, "value": [1.0, -1.5], "ref": struct.pack("<2f", 1.0, -1.5), "decoded": [1.0, -1.5]}]},
    ]
    # -- adapter-style serializers (integers; reference = the integer itself)
    out["AdapterSubfieldSerializer"] = [
        {"name": "AddonAdapterA", "ser": AddonAdapterA, "block": blk,
         "cases": [{"sel": 0, "value": KindA.X, "ref": 7, "decoded": KindA.X}, {"sel": 0, "value": "Y", "ref": 14, "decoded": KindA.Y}]},
        {"name": "AddonAdapterB", "ser": AddonAdapterB, "block": blk,
         "cases": [{"sel": 0, "value": ("POSITION", "OTHER", "SCALE"), "ref": 7, "decoded": FlagsB(7)},
                   {"sel": 0, "value": FlagsB.OTHER, "ref": 2, "decoded": FlagsB.OTHER}]},
        {"name": "shipped:SendXferPacketIDSerializer", "ser": T.SendXferPacketIDSerializer, "block": blk,
         "cases": [{"sel": 0, "value": {"PacketID": 7, "IsEOF": True}, "ref": 0x80000007, "decoded": None}]},
    ]
    out["AdapterInstanceSubfieldSerializer"] = [
        {"name": "IntEnumSubfieldSerializer(KindA)", "ser": se.IntEnumSubfieldSerializer(KindA), "block": blk,
         "cases": [{"sel": 0, "value": "X", "ref": 7, "decoded": KindA.X}, {"sel": 0, "value": KindA.Y, "ref": 14, "decoded": KindA.Y}]},
        {"name": "IntEnumSubfieldSerializer(KindB)", "ser": se.IntEnumSubfieldSerializer(KindB), "block": blk,
         "cases": [{"sel": 0, "value": "P", "ref": 7, "decoded": KindB.P}, {"sel": 0, "value": "Q", "ref": 14, "decoded": KindB.Q}]},
        {"name": "IntFlagSubfieldSerializer(FlagsA)", "ser": se.IntFlagSubfieldSerializer(FlagsA), "block": blk,
         "cases": [{"sel": 0, "value": ("POSITION", "ROTATION"), "ref": 3, "decoded": FlagsA(3)}]},
        {"name": "IntFlagSubfieldSerializer(FlagsB)", "ser": se.IntFlagSubfieldSerializer(FlagsB), "block": blk,
         "cases": [{"sel": 0, "value": ("POSITION", "OTHER"), "ref": 3, "decoded": FlagsB(3)}]},
    ]
    # -- registration helpers: registered under harness-only keys (removed again by the caller)
    keys = [("HarnessMessage", "HarnessBlock", n) for n in ("EnumA", "EnumB", "FlagA", "FlagB", "SimpleA")]
    se.enum_field_serializer(*keys[0])(KindA)
    se.enum_field_serializer(*keys[1])(KindB)
    se.flag_field_serializer(*keys[2])(FlagsA)
    se.flag_field_serializer(*keys[3])(FlagsB)
    se.subfield_serializer(*keys[4])(AddonSimpleA)
    R = se.SUBFIELD_SERIALIZERS
    out["registration-helpers"] = [
        {"name": "enum_field_serializer(KindA)", "ser": R[keys[0]], "block": blk, "cases": [{"sel": 0, "value": "X", "ref": 7, "decoded": KindA.X}]},
        {"name": "enum_field_serializer(KindB)", "ser": R[keys[1]], "block": blk, "cases": [{"sel": 0, "value": "P", "ref": 7, "decoded": KindB.P}]},
        {"name": "flag_field_serializer(FlagsA)", "ser": R[keys[2]], "block": blk, "cases": [{"sel": 0, "value": ("ROTATION",), "ref": 2, "decoded": FlagsA.ROTATION}]},
        {"name": "flag_field_serializer(FlagsB)", "ser": R[keys[3]], "block": blk, "cases": [{"sel": 0, "value": ("OTHER",), "ref": 2, "decoded": FlagsB.OTHER}]},
        {"name": "subfield_serializer(AddonSimpleA)", "ser": R[keys[4]], "block": blk,
         "cases": [{"sel": 0, "value": {"x": 0x11}, "ref": b"\x11", "decoded": {"x": 0x11}}]},
    ]
    out["__keys__"] = keys  # type: ignore
    return out


def run_second_subclass(part: Part, only_base: Optional[str] = None) -> int:
    """Use the participants of each base interleaved in every order (all permutations of who goes first; within an order
    all cases of all participants, round-robin) and hold each to its own hand-built reference."""
    import itertools
    before = set(se.SUBFIELD_SERIALIZERS)
    n = 0
    try:
        parts = _second_subclass_participants()
        keys = parts.pop("__keys__")
        for base, plist in parts.items():
            if only_base and base != only_base:
                continue
            for order in itertools.permutations(range(len(plist))):
                w = {"kind": "second-subclass", "base": base, "order": list(order)}
                rounds = max(len(plist[i]["cases"]) for i in order)
                for r in range(rounds):
                    for i in order:
                        pt = plist[i]
                        if r >= len(pt["cases"]):
                            continue
                        case = pt["cases"][r]
                        site = f"second-subclass:{base}:{pt['name']}"
                        block = pt["block"](case["sel"])
                        ser, ref = pt["ser"], case["ref"]
                        n += 1
                        try:
                            got = ser.serialize(block, case["value"])
                            if not _same_raw(got, ref):
                                part.violation("payload-roundtrip", f"{site}:encode", w, f"selector {case['sel']}: {case['value']!r:.120} encodes to "
                                                                                       f"{_show(got)}, reference {_show(ref)}")
                            for pod in (False, True):
                                d = ser.deserialize(block, ref, pod=pod)
                                if d is se.UNSERIALIZABLE:
                                    continue
                                if not pod and case.get("decoded_is_none") and d is not None:
                                    part.violation("payload-roundtrip", f"{site}:decode", w, f"reference {_show(ref)} decodes to {d!r:.120}, expected None")
                                if not pod and case["decoded"] is not None and not sg.same(d, case["decoded"]) and not (
                                        isinstance(case["decoded"], int) and isinstance(d, int) and int(d) == int(case["decoded"]) and type(d) is type(case["decoded"])):
                                    part.violation("payload-roundtrip", f"{site}:decode", w, f"selector {case['sel']}: reference {_show(ref)} decodes to "
                                                                                           f"{d!r:.120}, expected {case['decoded']!r:.120}")
                                again = ser.serialize(block, d)
                                if not _same_raw(again, ref):
                                    part.violation("payload-roundtrip", f"{site}:{'pod' if pod else 'obj'}", w,
                                                   f"selector {case['sel']}: reference {_show(ref)} -> {d!r:.120} -> {_show(again)}")
                        except Exception as e:
                            part.violation("payload-roundtrip", f"{site}:raises", w, f"selector {case['sel']}: {e!r} while round-tripping reference {_show(ref)}")
                # a failed encode in one subclass must not leak into the next encode of another
                for i in order:
                    if "bad" not in plist[i]:
                        continue
                    for j in order:
                        if j == i:
                            continue
                        try:
                            plist[i]["ser"].serialize(plist[i]["block"](plist[i]["bad_sel"]), plist[i]["bad"])
                        except Exception:
                            pass
                        case = plist[j]["cases"][-1] if plist[j]["cases"][-1]["value"] is not None else plist[j]["cases"][0]
                        n += 1
                        try:
                            got = plist[j]["ser"].serialize(plist[j]["block"](case["sel"]), case["value"])
                        except Exception as e:
                            got = e
                        if not _same_raw(got, case["ref"]):
                            part.violation("encode-independent", f"second-subclass:{base}:{plist[j]['name']}:after-failed-encode:foreign", w,
                                           f"after a failed encode in {plist[i]['name']}: {_show(got)}, reference {_show(case['ref'])}")
                part.mark_nontrivial(("second-subclass", base, order))
        if set(keys) - set(se.SUBFIELD_SERIALIZERS):
            part.violation("payload-roundtrip", "second-subclass:registration-helpers:registry", {"kind": "second-subclass", "base": "registration-helpers",
                                                                                                "order": [0]}, "a registration helper did not register its key")
    finally:
        for k in set(se.SUBFIELD_SERIALIZERS) - before:
            se.SUBFIELD_SERIALIZERS.pop(k, None)
    return n


def unit_second(_item=None) -> dict:
    part = Part()
    n = run_second_subclass(part)
    part.count("evaluations", n)
    part.count("second_subclass_cases", n)
    part.outcome(("second-subclass", n))
    part.sample({"family": "second-subclass", "bases": ["FlagSwitched", "EnumSwitched", "Simple", "Adapter", "AdapterInstance", "registration-helpers"],
                 "cases": n}, limit=1)
    return part.dump()


# ------------------------------------------------------------------------------------------------ driver
def _work(item) -> dict:
    """One unit; name-misses of the introspection layer and entries that lost template generation during the unit are
    shipped back as counters (``introspection_fallback:<what>`` / ``no_template_generation:<key>|<why>``)."""
    before = dict(ins.FALLBACKS)
    before_gen = set(_NO_TEMPLATE_GEN)
    d = _work_unit(item)
    for k, n in ins.FALLBACKS.items():
        if n - before.get(k, 0) > 0:
            d["counters"][f"introspection_fallback:{k}"] = n - before.get(k, 0)
    for k in _NO_TEMPLATE_GEN:
        if k not in before_gen:
            d["counters"][f"no_template_generation:{k}|{_NO_TEMPLATE_GEN[k]}"] = 1
    return d


def _work_unit(item) -> dict:
    kind = item[0]
    if kind == "int":
        return unit_int(_ENTRIES[item[1]])
    if kind == "payload":
        return unit_payload(item[1:])
    if kind == "tier2":
        return unit_tier2(item[1:])
    if kind == "cache":
        return unit_cache(_ENTRIES[item[1]])
    if kind == "assign":
        return unit_assign(_ENTRIES[item[1]])
    if kind == "history":
        return unit_history(_ENTRIES[item[1]])
    if kind == "second":
        return unit_second()
    raise ValueError(kind)


def _setup(thorough: bool):
    global _THOROUGH, _ENTRIES, _DST
    _THOROUGH = thorough
    _ENTRIES = build_entries()
    _DST = sg.dst_sweep_instants(60, 7200)


def _slices(ent: Entry) -> int:
    if ent.ctx_field is not None:
        return 1
    dom = sg.Domain(_THOROUGH)
    n = len(own_values(ent, None, dom))
    return max(1, min(24, n // 250))


def _worked_samples(run: Run):
    """Three written-out cases of different families (computed here, under the coordinator's TZ=UTC)."""
    for e in _ENTRIES:
        if e.kind == "int" and e.adapter_kind == "IntFlag" and e.wire[0] == "S":
            blk = make_block(e, None)
            raw = -2
            pod = e.ser.deserialize(blk, raw, pod=True)
            run.sample({"family": "int", "key": e.keystr, "wire": e.wire, "raw": raw, "pod": repr(pod), "object": repr(e.ser.deserialize(blk, raw)),
                        "re-encoded": repr(e.ser.serialize(blk, pod))})
            break
    for e in _ENTRIES:
        if e.kind == "int" and e.ctx_field:
            ctx = context_values(e, False)
            blk = make_block(e, ctx[1])
            run.sample({"family": "int+context", "key": e.keystr, "context": {e.ctx_field: ctx[1]}, "contexts_quick": ctx, "raw": 0x21,
                        "object": repr(e.ser.deserialize(blk, 0x21)), "pod": repr(e.ser.deserialize(blk, 0x21, pod=True))})
            break
    for e in _ENTRIES:
        if e.kind == "payload" and e.ctx_field and getattr(e.ser, "FLAG_FIELD", None):
            dom = sg.Domain(False)
            blk = make_block(e, 7)
            v, tag = own_values(e, 7, dom)[1]
            p = e.ser.serialize(blk, v)
            run.sample({"family": "payload+context", "key": e.keystr, "context": {e.ctx_field: 7}, "variant": tag, "value": repr(v), "payload": p,
                        "pod": repr(e.ser.deserialize(blk, p, pod=True))})
            break


def run(run: Run):
    _setup(run.tier == "thorough")
    ents = _ENTRIES
    units: List[tuple] = []
    heavy: List[tuple] = []
    for e in ents:
        if e.kind == "payload":
            n = _slices(e)
            (heavy if n > 1 else units).extend(("payload", e.idx, k, n) for k in range(n))
            n2 = max(1, min(32, len(tier2_feed(e, sg.Domain(_THOROUGH))) // 1500))
            (heavy if n2 > 1 else units).extend(("tier2", e.idx, k, n2) for k in range(n2))
    for e in ents:
        if e.kind == "int" and not e.is_date:
            (heavy if sg.INT_BITS[e.wire] == 16 or e.ctx_field else units).append(("int", e.idx))
    for e in ents:
        if e.kind in ("int", "payload"):
            units.append(("cache", e.idx))
        if e.kind == "int" and not e.is_date:
            units.append(("assign", e.idx))
        if e.kind == "payload":
            units.append(("history", e.idx))
    units.append(("second", 0))
    order = heavy + units
    _worked_samples(run)
    coord_fallbacks = dict(ins.FALLBACKS)  # the coordinator's own share (registry view, slicing); workers report theirs
    coord_nogen = dict(_NO_TEMPLATE_GEN)
    for d in pmap(_work, order, run.jobs, chunksize=1):
        run.merge(d)
    dates = [e for e in ents if e.kind == "int" and e.is_date]
    for d in sg.tz_map(unit_date, [(tz, (e.idx, tz)) for e in dates for tz in sg.ZONES], run.jobs):
        run.merge(d)

    fb_names: Dict[str, int] = dict(coord_fallbacks)
    nogen: Dict[str, str] = dict(coord_nogen)
    for k in list(run.counters):
        if k.startswith("introspection_fallback:"):
            fb_names[k.split(":", 1)[1]] = fb_names.get(k.split(":", 1)[1], 0) + run.counters.pop(k)
        elif k.startswith("no_template_generation:"):
            key, _, why = k.split(":", 1)[1].partition("|")
            nogen.setdefault(key, why)
            run.counters.pop(k)
    run.count("introspection_fallbacks", sum(fb_names.values()))
    run.coverage_extra["introspection_fallbacks"] = {"name_misses_resolved_by_shape_or_probe": dict(sorted(fb_names.items())),
                                                     "entries_without_template_generation": dict(sorted(nogen.items()))}
    if nogen:
        run.notes.append(f"{len(nogen)} entries had no template-derived generation (internals not introspectable); generic wire-first "
                         f"payloads were used for them: " + ", ".join(sorted(nogen)))
    dead = [e.keystr for e in ents if e.kind == "dead"]
    unsupported = [e.keystr for e in ents if e.kind == "unsupported"]
    for k in unsupported:
        run.cap(f"{k}: wire type not handled by this harness")
    ctx = {e.keystr: f"{e.ctx_field}:{e.ctx_wire}" for e in ents if e.ctx_field}
    run.coverage_extra.update({
        "registry_entries": len(ents),
        "entries_int": sum(e.kind == "int" and not e.is_date for e in ents),
        "entries_date": len(dates),
        "entries_payload": sum(e.kind == "payload" for e in ents),
        "registrations_without_template_variable": dead,
        "context_switched": ctx,
        "dst_instants": len(_DST),
        "time_zones": sg.ZONES,
        "units": len(order) + len(dates) * len(sg.ZONES),
    })
    if dead:
        run.notes.append(f"{len(dead)} registrations name a (message, block, variable) that is not in message_template.msg (no wire type; skipped): "
                         + ", ".join(dead))
    run.rule = ("every registry entry x every context value of the sibling it reads x {object, pod} x: (a) complete 8/16-bit domain or the "
                "32/64-bit boundary/single-bit/all-but-one-bit/members+-1 alphabet; (c) one-leaf-at-a-time values from the serializer's own "
                "template + all subsets of option-switching flag bits, single-byte substitution/truncation/extension of each base payload, "
                "base payloads cross-fed to every context; (e) cache protocol on 2-3 distinct raws per entry; (f) date entries x 4 process "
                "time zones x (int alphabet + every minute +-2h around 12 DST transitions + sub-second offsets). distinct_nontrivial = distinct "
                "(entry, context, mode, family-or-variant-tag[, tz]) whose decode produced a pretty value that re-encoded to the same raw "
                "(or, for mutated payloads, reached a verified fixed point)")
    run.assumptions += [
        "wire type of each variable is taken from message_template.msg via the independent parser; 32/64-bit integer domains are covered by "
        "the stated alphabet, not completely",
        "UNSERIALIZABLE from deserialize means 'no pretty form' (callers keep the raw value) and is not a loss; a deserialize that raises on "
        "an integer of the wire type is a loss",
        "a payload is 'accepted' iff deserialize returns and all lazy members parse; rejected payloads are outside the property",
        "payload values are finite-or-infinite floats without NaN; the pod literal clause is evaluated for finite numbers only",
        "payload mutation is applied to the base payload of every (entry, context) (thorough: + structural bases + every 128th variant), "
        "not to every generated payload",
        "date entries are recognised by adapter class DateAdapter; other entries run under TZ=UTC only",
    ]
    if not _THOROUGH:
        run.assumptions.append("quick tier: 8-bit context siblings restricted to known + unknown representatives, flag-subset bound 4 bits, "
                               "8-bit bitfield leaves on the small alphabet, 3 substitution bytes per position, no infinities")


# ------------------------------------------------------------------------------------------------ replay
def _replay_local(w: dict) -> List[dict]:
    if w.get("kind") == "second-subclass":
        part = Part()
        run_second_subclass(part, only_base=w.get("base"))
        return list(part.viol.values())
    key = tuple(w["key"])
    ent = next(e for e in _ENTRIES if e.key == key)
    part = Part()
    acc = Acc(part)
    kind = w["kind"]
    if kind == "int":
        members = _int_members(ent)
        block = make_block(ent, w.get("ctx"))
        check_int(acc, ent, block, w.get("ctx"), int(w["raw"]), int_family(ent, int(w["raw"]), members) if not w.get("date_tag") else "date",
                  bool(w["pod"]), tz=w.get("tz"), date_tag=w.get("date_tag"))
    elif kind == "payload":
        block = make_block(ent, w.get("ctx"))
        check_payload(acc, ent, block, w.get("ctx"), bytes(w["payload"]), w["tag"], bool(w["pod"]), int(w["tier"]))
    elif kind == "gen":
        global _THOROUGH
        _THOROUGH = bool(w.get("thorough"))
        dom = sg.Domain(_THOROUGH)
        block = make_block(ent, w.get("ctx"))
        vals = [x for x in own_values(ent, w.get("ctx"), dom) if x[1] == w["tag"]]
        _encode_own(acc, ent, block, w.get("ctx"), vals)
    elif kind == "cache":
        return unit_cache(ent)["violations"]
    elif kind == "history":
        run_history(part, ent, w.get("ctx"), [(int(i), c, tuple(int(x) for x in p)) for i, c, p in w["fails"]], w["op"], w["vtag"],
                    bool(w.get("foreign")))
    elif kind == "cache-seq":
        run_assign_sequence(part, ent, w.get("ctx"), int(w["init"]), [(st, int(n)) for st, n in w["steps"]], w["mode"], "replay")
    return list(part.viol.values())


def _replay_tz(w: dict) -> List[dict]:
    return _replay_local(w)


def replay(w: dict) -> List[dict]:
    _setup(bool(w.get("thorough", False)))
    if w.get("tz"):
        return sg.tz_map(_replay_tz, [(w["tz"], w)], 1)[0]
    return _replay_local(w)

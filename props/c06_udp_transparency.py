"""C06 -- UDP proxying is transparent: right peer, exactly once, content intact (explicit-state search at the datagram seam).

Seam: ``InterceptingLLUDPProxyProtocol.datagram_received`` of 1-2 associations built by hmc.udpharness (real SessionManager /
Session / ProxiedRegion / ProxiedCircuit, real SOCKS5UDPTransport over a capturing ``sendto``), no addons registered.
An exception escaping ``datagram_received`` is handled as asyncio's datagram transport handles it (logged, next datagram
processed); it is an observation, never a violation by itself.

Universe: 2 sessions (one association each) x 2 regions (main from login data + neighbour via register_region; session 0's
neighbour is registered with its region handle, session 1's without one -- handle is Optional); both sessions know the *same* two simulator
addresses and viewers and simulators share one IP, so every address-keyed structure collides on purpose.

Alphabet.  Valid datagrams (deviation 0; offered only where the statement's precondition holds in the reference model):
  ("U", i, j)           UseCircuitCode viewer_i -> sim_j (claims the session / opens the circuit on first contact, later a repeat)
  ("vo"|"vr", i, j)     viewer_i -> sim_j ordinary (flags 0) / reliable with two piggy-backed acks      [circuit (i,j) open]
  ("so"|"sr", i, j)     sim_j -> viewer_i ordinary / reliable with acks                                   [circuit (i,j) open]
                        (simulator packet ids start at 0x100 / 0x300: flags 0 + such an id reads as a SOCKS5 UDP header)
  ("vx"|"sx", i, j, mode)  RELIABLE|RESENT datagram viewer->sim / sim->viewer [deviation; valid, must be relayed once]: mode same =
                        the id that endpoint used last (retransmission), other = the id the peer used last (ids of the two
                        directions are independent and coincide), new = unseen id; BFS menu: vx same, sx same, sx other;
                        all modes in ``resend_scenarios``
  ("vc", i, j)          CloseCircuit viewer_i -> sim_j; ("sd", i, j) DisableSimulator sim_j -> viewer_i   [circuit alive]
                        both must be forwarded once and kill the circuit; afterwards ("U", i, j) is the re-opening
                        UseCircuitCode (forwarded once, live circuit again); no traffic is offered on a dead circuit
Garbage (deviation 1): datagram from a foreign host; to an unregistered far address (plain and UseCircuitCode); for a
region without circuit / before the session is claimed (both directions, incl. a simulator-shaped datagram whose packet id
makes it look like a SOCKS header: same-IP shortcut); UseCircuitCode with an unknown session id; SOCKS header with frag!=0,
rsv!=0, atyp 0/3/4; SOCKS datagram cut after 0/3/7/9 bytes; LLUDP header of 0/6 bytes; unknown message number; UDP-banned
template inbound; body truncated (inspected and never-inspected message, both directions).
Environment faults (deviation 1): ("e_oserr", i, errno) = asyncio reporting a socket error to association i through
``protocol.error_received`` (EMSGSIZE / ECONNREFUSED in the BFS menu, plus EINVAL / ENETUNREACH in the interleaving and
repetition families); ("so_big", i, j) = the natural trigger: a valid 65500-byte LayerData from sim_j that the capturing
socket refuses with EMSGSIZE once the SOCKS header is added (hmc.udpharness.CapSock mimics _SelectorDatagramTransport:
OSError from sendto goes to error_received, nothing is raised).  Oracle: no sendto, session / circuit / association
state unchanged (fault-zero-sends, fault-state-unchanged; for so_big exactly one refused sendto to the right viewer and
unchanged liveness), later valid datagrams delivered exactly once.  connection_lost is outside the statement.
Region re-announcement (``move_scenarios``): ("r_announce", i) registers SIMS[2] through Session.register_region with the
*login region's handle* (what EnableSimulator / TeleportFinish / CrossedRegion do after a region restart) -- with the old
circuit still alive, after a clean shutdown, and before any circuit -- followed by UseCircuitCode and traffic both ways at
the new address and at the old ones, under the usual exactly-once / right-peer / socks-wrap clauses.
SOCKS control seam (``control_scenarios``): both associations are created by the real ``SLSOCKS5Server.handle_connection``
on in-memory StreamReader / writer stand-ins (greeting + UDP ASSOCIATE; only ``loop.create_datagram_endpoint`` is replaced
by one that calls the protocol factory and hands it the capturing socket); ("c_close", i) = EOF on viewer i's control
connection.  Clauses teardown-isolated (nothing of the *other* viewer changes, no sendto, handler ends cleanly) and
teardown-own (X's own association/session are gone); later traffic of the surviving viewer under the usual clauses.
Packet ids come from per-circuit per-direction counters in the model (they are part of canon; finiteness is by depth).

Oracle (one clause per sentence of the statement):
  exactly-once     a valid datagram causes exactly one sendto that carries the same message (proxy-originated other
                   messages, if any, are counted as observations)
  right-peer       ... on the association's own socket, to exactly sim_j (outbound) / viewer_i (inbound)
  socks-wrap       inbound is prefixed with rsv=0 frag=0 atyp=1 + exactly sim_j's address (parsed by a reference struct)
  content-intact   the forwarded payload decodes to the same name/flags/packet id/acks/extra/body (+ independent header read)
  circuit-open     after UseCircuitCode the session is claimed by this association and region j has a live circuit
  garbage-zero-sends / garbage-state-unchanged
                   garbage causes no sendto on any socket and leaves every session's state (pending flag, protocol binding,
                   regions, circuit identity/liveness, both injection trackers, unacked/seen sets, main region) equal;
                   far_to_near_map learning is allowed by the statement and excluded.  A UseCircuitCode carrying the right
                   session id to an unregistered address may claim the session (tests/proxy/integration/test_lludp.py
                   test_bad_circuit_not_sent documents that), nothing else.
  truncated-body   a datagram whose body is cut is either discarded or forwarded verbatim once to the right peer
Because garbage must leave canon unchanged, BFS alone would never extend a history *through* garbage; the clause "without
disturbing the delivery of any other datagram" is therefore checked directly by the interleaving sweep: for every garbage
event g and every valid event v enabled in a base state (one circuit open / all four open): [g, v] and [v, g, v].
Repeated garbage ([g, g], [g, g, g], [g, v, g], [g, g, v] for every garbage kind, each of the 18 banned names individually)
and flood scenarios (k in {1, 8, 31, 32, 33, 64, 300} distinct unregistered far addresses / unknown source hosts / truncated
datagrams, then valid traffic on every open circuit) cover state the proxy might keep *about* garbage (memo sets, bounded maps).
Separate exhaustive sweeps: SOCKS framing law (emit vs. reference strip, reference emit vs. parse, emit vs. parse) over
addresses x ports x payload lengths {0,1,1200}; every template in both directions through one open circuit (value rows of
hmc.msggen; banned templates inbound must be discarded); the same sweep (row 0) also through a neighbour circuit next to the
open main circuit, and through a neighbour registered *without* a handle, alone and next to the main circuit (message
types the proxy special-cases -- RegionHandshake, AgentMovementComplete, ... -- depend on how the region was registered).

Deviations from DESIGN §C06, forced by the code: (1) viewer -> sim datagrams of a UDP-banned *name* are treated as ordinary
traffic (the ban list is an inbound rule in lludp_proxy; stated in run.assumptions); (2) BFS is run from two bases (empty
world; both main circuits already opened by real UseCircuitCode datagrams) because four circuits cannot be opened and
used within depth 4-5; (3) kill / re-open / traffic scenarios longer than the BFS depth are enumerated explicitly
(``reopen_scenarios``: every (association, region) x {CloseCircuit, DisableSimulator}, alone and next to the other
association's circuit to the same simulator).
"""
from __future__ import annotations

import struct
from typing import Any, Dict, List, Optional, Tuple

from hippolyzer.lib.base.message.message import Block, Message
from hippolyzer.lib.base.network.transport import Direction, UDPPacket
from hippolyzer.lib.proxy.transport import SOCKS5UDPTransport

from hmc import explore, msggen, refwire
from hmc import udpharness as U
from hmc.core import Part, Run, pmap

LEVEL = "model_checking"
OUT, IN = "out", "in"
GARBAGE_PID = 0x4242
_GEN: Optional[msggen.Gen] = None


_SEED = 0


def gen() -> msggen.Gen:
    """VERIF_SEED only picks the filler constants inside msggen's alphabets; the enumerated shape is seed-independent."""
    global _GEN
    if _GEN is None or _GEN.seed != _SEED:
        _GEN = msggen.Gen(_SEED)
    return _GEN


def banned_names() -> List[str]:
    """Independent reading of message.xml: names whose flavor is not 'template' and that exist as templates."""
    import llsd
    from hippolyzer.lib.base.message.data import msg_details
    msgs = llsd.parse(msg_details)["messages"]
    return sorted(n for n in refwire.templates() if n in msgs and msgs[n].get("flavor") != "template")


def unknown_msg_number() -> bytes:
    used = {(t.freq, t.num) for t in refwire.templates().values()}
    n = next(n for n in range(1, 255) if ("High", n) not in used)
    return bytes([n])


# ---- concrete messages ---------------------------------------------------------------------------------------------
def _chat_out(i: int, pid: int, flags: int, acks=()) -> bytes:
    return U.serialize(Message(
        "ChatFromViewer", Block("AgentData", AgentID=U.session_uuid(i, 2), SessionID=U.session_uuid(i, 0)),
        Block("ChatData", Message="hello sim", Type=1, Channel=0), packet_id=pid, flags=flags, acks=tuple(acks)))


def _chat_in(i: int, pid: int, flags: int, acks=()) -> bytes:
    return U.serialize(Message(
        "ChatFromSimulator",
        Block("ChatData", FromName="Sim", SourceID=U.session_uuid(i, 2), OwnerID=U.session_uuid(i, 2), SourceType=1,
              ChatType=1, Audible=1, Position=(1.0, 2.0, 3.0), Message="hello viewer"),
        packet_id=pid, flags=flags, acks=tuple(acks), direction=Direction.IN))


def _template_msg(name: str, pid: int, flags: int = 0) -> bytes:
    g = gen()
    case = dict(next(iter(g.value_rows(name))))
    case.update(flags=flags, packet_id=pid, acks=(), extra=b"")
    return U.serialize(g.lib_message(case))


def _is_deviation(ev) -> bool:
    return ev[0].startswith("g_") or ev[0] in ("e_oserr", "so_big", "vx", "sx", "c_close")


def liveness(st):
    """Projection of World.session_state that no datagram -- deliverable or not -- and no socket error may change."""
    pending, which, regs, _main, _grp, n_sessions, closed, task_done = st
    return (pending, which, tuple(r[:3] for r in regs), n_sessions, closed, task_done)


def big_layer_data(pid: int) -> bytes:
    """A valid 65500-byte LayerData (fits one UDP datagram; wrapped with the 10-byte SOCKS header it does not)."""
    return U.serialize(Message("LayerData", Block("LayerID", Type=0x4C), Block("LayerData", Data=b"\x5a" * 65490),
                               packet_id=pid, flags=0, direction=Direction.IN))


class Model:
    """Reference model: which associations claimed their session, which (association, region) circuits are open,
    per-circuit per-direction packet-id counters."""

    def __init__(self):
        self.claimed = [False, False]
        self.open = set()           # (association, region) with a circuit object (alive or dead)
        self.dead = set()           # subset of open: killed by CloseCircuit / DisableSimulator, not yet re-opened
        self.gone = set()           # associations whose SOCKS control connection has ended
        self.announced = set()      # sessions for which SIMS[2] has been registered (with the login region's handle)
        self.next_pid: Dict[Tuple[int, int, str], int] = {}

    @staticmethod
    def first_pid(j, d) -> int:
        """Viewer numbering starts at 1.  Simulator numbering starts where flags=0 + packet id read as a SOCKS5 UDP
        header (00 | 00 00 01 xx = RSV 0, FRAG 0, ATYP 1 for sim 0; ... 03 xx = ATYP 3 for sim 1): simulators share
        the viewer's IP, so only far_to_near_map may decide the direction of such a datagram."""
        if d == OUT:
            return 1
        return 0x100 if j == 0 else 0x300

    def take(self, i, j, d) -> int:
        n = self.next_pid.get((i, j, d), self.first_pid(j, d))
        self.next_pid[(i, j, d)] = n + 1
        return n

    def last(self, i, j, d) -> int:
        return self.next_pid.get((i, j, d), self.first_pid(j, d)) - 1

    def alive(self, i, j) -> bool:
        return (i, j) in self.open and (i, j) not in self.dead

    def key(self):
        return (tuple(self.claimed), tuple(sorted(self.open)), tuple(sorted(self.dead)), tuple(sorted(self.next_pid.items())),
                tuple(sorted(self.gone)), tuple(sorted(self.announced)))


class Harness:
    copyable = False

    def __init__(self, n_sessions: int = 2, base: str = "empty", neighbour_handle: Any = "mixed"):
        self.n = n_sessions
        # base "socks:<base>": the associations come out of the real SOCKS5 control path (SLSOCKS5Server.handle_connection
        # on in-memory streams) and the control connections can end: event ("c_close", i)
        self.via_socks = base.startswith("socks:")
        self.base = base[6:] if self.via_socks else base
        self.neighbour_handle = neighbour_handle

    # ---- world ------------------------------------------------------------------------------------
    def fresh(self):
        w = U.fresh(self.n, neighbour_handle=self.neighbour_handle, via_socks=self.via_socks)
        w.model = Model()
        w.last = None
        w.flags = set()
        if self.base == "main-open":
            for i in range(self.n):
                self.step(w, ("U", i, 0))
        elif self.base == "all-open":
            for i in range(self.n):
                for j in (0, 1):
                    self.step(w, ("U", i, j))
        elif self.base == "one-open":
            self.step(w, ("U", 0, 0))
        # violations during base construction stay on w.violations (reported with the first explored step)
        return w

    def valid_events(self, m: Model):
        evs = []
        for i in range(self.n):
            if i in m.gone:
                continue
            for j in (0, 1):
                evs.append(("U", i, j))
                if m.alive(i, j):
                    evs += [("vo", i, j), ("vr", i, j), ("so", i, j), ("sr", i, j), ("vc", i, j), ("sd", i, j)]
                    evs += [("vx", i, j, "same"), ("sx", i, j, "same"), ("sx", i, j, "other")]
        return evs

    def garbage_events(self, m: Model):
        evs = []
        for i in range(self.n):
            evs += [("g_foreign", i), ("g_unreg", i), ("g_ucc_unreg", i)]
            evs += [("e_oserr", i, name) for name in ("EMSGSIZE", "ECONNREFUSED")]
            evs += [("g_sock", i, v) for v in ("frag", "rsv", "atyp0", "atyp3", "atyp4")]
            evs += [("g_trunc", i, n) for n in (0, 3, 7, 9)]
            evs += [("g_short", i, n) for n in (0, 6)]
            evs += [("g_unknown", i), ("g_tbody", i, "inspected"), ("g_tbody", i, "opaque")]
            if not m.claimed[i]:
                evs.append(("g_badsess", i, 0))
            for j in (0, 1):
                if (i, j) not in m.open:
                    evs += [("g_pre", i, j), ("g_pre_in", i, j, 5), ("g_pre_in", i, j, 0x0101)]
                else:
                    evs += [("g_short_in", i, j), ("g_unknown_in", i, j), ("g_banned_in", i, j),
                            ("g_tbody_in", i, j, "inspected"), ("g_tbody_in", i, j, "opaque")]
        return evs

    def fault_events(self, m: Model):
        """Environment faults beyond the BFS menu: every errno, and the natural trigger (an inbound datagram that is valid
        but, once the 10-byte SOCKS header is added, above the UDP maximum: the socket refuses it with EMSGSIZE)."""
        evs = [("e_oserr", i, name) for i in range(self.n) for name in ("EMSGSIZE", "EINVAL", "ENETUNREACH", "ECONNREFUSED")]
        evs += [("so_big", i, j) for (i, j) in sorted(m.open) if m.alive(i, j)]
        return evs

    def enabled(self, w):
        return self.valid_events(w.model) + self.garbage_events(w.model)

    def deviation(self, ev) -> int:
        return 1 if _is_deviation(ev) else 0

    def canon(self, w):
        return (tuple(w.session_state(i) for i in range(self.n)), tuple(w.learned(i) for i in range(self.n)),
                w.model.key(), w.loop.pending_timers())

    def observe(self, w):
        return w.last

    def nontrivial(self, w, hist):
        seen_garbage = False
        for ev in hist:
            if _is_deviation(ev):
                seen_garbage = True
            elif seen_garbage:
                return ("valid-after-garbage", tuple(tuple(e) for e in hist))
        if "reopen" in w.flags:
            return ("reopen", tuple(tuple(e) for e in hist))
        sims = {}
        for (i, j) in w.model.open:
            sims.setdefault(j, set()).add(i)
        if any(len(v) > 1 for v in sims.values()) and hist:
            return ("shared-sim", w.model.key())   # model only: the explorer may already have closed this world
        return None

    # ---- datagram construction ----------------------------------------------------------------------
    def build(self, w, ev) -> Dict[str, Any]:
        m: Model = w.model
        k = ev[0]
        i = ev[1]
        d: Dict[str, Any] = {"assoc": i, "cls": "garbage", "claim_ok": False}

        def viewer(lludp: bytes, far, **socks):
            d.update(data=U.socks_wrap(lludp, far, **socks), src=U.VIEWERS[i], lludp=lludp)

        def sim(lludp: bytes, src):
            d.update(data=lludp, src=src, lludp=lludp)

        if k == "U":
            j = ev[2]
            which = "first" if (i, j) not in m.open else ("reopen" if (i, j) in m.dead else "repeat")
            if which == "reopen":   # a new circuit: both endpoints number their packets from the start again
                m.next_pid.pop((i, j, OUT), None)
                m.next_pid.pop((i, j, IN), None)
            viewer(U.use_circuit_code(i, m.take(i, j, OUT)), U.SIMS[j])
            d.update(cls="valid", dir=OUT, j=j, site="out:UseCircuitCode-" + which)
            if which == "reopen":
                w.flags.add("reopen")
        elif k == "vc":
            j = ev[2]
            viewer(U.serialize(Message("CloseCircuit", packet_id=m.take(i, j, OUT), flags=0)), U.SIMS[j])
            d.update(cls="valid", dir=OUT, j=j, site="out:CloseCircuit")
        elif k == "sd":
            j = ev[2]
            sim(U.serialize(Message("DisableSimulator", packet_id=m.take(i, j, IN), flags=0x40, direction=Direction.IN)), U.SIMS[j])
            d.update(cls="valid", dir=IN, j=j, site="in:DisableSimulator")
        elif k in ("vo", "vr"):
            j = ev[2]
            flags, acks = (0, ()) if k == "vo" else (0x50, (m.last(i, j, IN), 7))
            viewer(_chat_out(i, m.take(i, j, OUT), flags, acks), U.SIMS[j])
            d.update(cls="valid", dir=OUT, j=j, site="out:" + ("ordinary" if k == "vo" else "reliable+acks"))
        elif k in ("so", "sr"):
            j = ev[2]
            flags, acks = (0, ()) if k == "so" else (0x50, (m.last(i, j, OUT), 7))
            sim(_chat_in(i, m.take(i, j, IN), flags, acks), U.SIMS[j])
            d.update(cls="valid", dir=IN, j=j, site="in:" + ("ordinary" if k == "so" else "reliable+acks"))
        elif k in ("vx", "sx"):
            # RELIABLE|RESENT datagram.  mode "same": the packet id this endpoint used last (a genuine retransmission;
            # a fresh id if it has sent nothing yet = first sight already flagged RESENT); "other": the id the *peer* used
            # last (the original was lost before the proxy; both ends number independently, so ids coincide); "new": unseen id.
            j, mode = ev[2], ev[3]
            own, peer = (OUT, IN) if k == "vx" else (IN, OUT)
            if mode == "new" or (mode == "same" and m.last(i, j, own) < m.first_pid(j, own)):
                pid = m.take(i, j, own)
            elif mode == "same":
                pid = m.last(i, j, own)
            else:
                pid = max(m.last(i, j, peer), 1)
            if k == "vx":
                viewer(_chat_out(i, pid, 0x60), U.SIMS[j])
            else:
                sim(_chat_in(i, pid, 0x60), U.SIMS[j])
            d.update(cls="valid", dir=own, j=j, site=f"{own}:resent-{mode}-id")
        elif k == "so_big":
            j = ev[2]
            sim(big_layer_data(m.take(i, j, IN)), U.SIMS[j])
            d.update(cls="oversize", dir=IN, j=j)
        elif k == "e_oserr":
            d.update(cls="fault", data=b"", src=None, lludp=b"")
        elif k == "c_close":
            d.update(cls="control-close", data=b"", src=None, lludp=b"")
        elif k == "r_announce":
            d.update(cls="announce", data=b"", src=None, lludp=b"")
        elif k == "g_foreign":
            sim(_chat_in(i, GARBAGE_PID, 0x40), U.FOREIGN_HOST)
        elif k == "g_unreg":
            viewer(_chat_out(i, GARBAGE_PID, 0), U.UNREGISTERED_SIM)
        elif k == "g_ucc_unreg":
            viewer(U.use_circuit_code(i, GARBAGE_PID), U.UNREGISTERED_SIM)
            d["claim_ok"] = True
        elif k == "g_badsess":
            viewer(U.use_circuit_code(i, GARBAGE_PID, session_id=U.UNKNOWN_SESSION_ID), U.SIMS[ev[2]])
        elif k == "g_sock":
            v = ev[2]
            lludp = _chat_out(i, GARBAGE_PID, 0)
            if v == "frag":
                viewer(lludp, U.SIMS[0], frag=1)
            elif v == "rsv":
                viewer(lludp, U.SIMS[0], rsv=1)
            elif v == "atyp0":
                viewer(lludp, U.SIMS[0], atyp=0)
            elif v == "atyp3":
                viewer(lludp, (U.SIMS[0][0], U.SIMS[0][1]), atyp=3)
            else:
                viewer(lludp, U.SIMS[0], atyp=4)
        elif k == "g_trunc":
            viewer(_chat_out(i, GARBAGE_PID, 0), U.SIMS[0])
            d["data"] = d["data"][:ev[2]]
        elif k == "g_short":
            viewer(_chat_out(i, GARBAGE_PID, 0)[:ev[2]], U.SIMS[0])
        elif k == "g_unknown":
            viewer(struct.pack(">BIB", 0, GARBAGE_PID, 0) + unknown_msg_number() + b"\x01\x02\x03\x04", U.SIMS[0])
        elif k == "g_tbody":
            if ev[2] == "inspected":
                viewer(_chat_out(i, GARBAGE_PID, 0)[:-3], U.SIMS[0])
            else:
                viewer(_template_msg("AgentThrottle", GARBAGE_PID)[:-2], U.SIMS[0])
            d.update(cls="truncated", dir=OUT, j=0)
        elif k == "g_pre":
            viewer(_chat_out(i, GARBAGE_PID, 0), U.SIMS[ev[2]])
        elif k == "g_pre_in":
            sim(_chat_in(i, ev[3], 0), U.SIMS[ev[2]])
        elif k == "g_short_in":
            sim(_chat_in(i, GARBAGE_PID, 0)[:3], U.SIMS[ev[2]])
        elif k == "g_unknown_in":
            sim(struct.pack(">BIB", 0, GARBAGE_PID, 0) + unknown_msg_number() + b"\x01\x02\x03\x04", U.SIMS[ev[2]])
        elif k == "g_banned_in":
            sim(_template_msg(ev[3] if len(ev) > 3 else "TeleportFinish", GARBAGE_PID, 0x40), U.SIMS[ev[2]])
        elif k == "g_flood":   # ("g_flood", i, family, n): the n-th of many distinct pieces of garbage
            fam, n = ev[2], ev[3]
            if fam == "far":        # a well-formed datagram to yet another unregistered far address
                viewer(_chat_out(i, GARBAGE_PID, 0), (U.IP, 20000 + n))
            elif fam == "src":      # yet another unknown host talking to the association
                sim(_chat_in(i, GARBAGE_PID, 0x40), (U.FOREIGN_HOST[0], 20000 + n))
            else:                   # truncated SOCKS datagrams
                viewer(_chat_out(i, GARBAGE_PID, 0), U.SIMS[0])
                d["data"] = d["data"][:(0, 3, 7, 9)[n % 4]]
        elif k == "g_tbody_in":
            if ev[3] == "inspected":
                sim(_chat_in(i, GARBAGE_PID, 0)[:-3], U.SIMS[ev[2]])
            else:
                sim(_template_msg("SimStats", GARBAGE_PID)[:-2], U.SIMS[ev[2]])
            d.update(cls="truncated", dir=IN, j=ev[2])
        else:
            raise ValueError(ev)
        return d

    # ---- one transition --------------------------------------------------------------------------------
    def step(self, w, ev):
        ev = tuple(ev)
        m: Model = w.model
        d = self.build(w, ev)
        i = d["assoc"]
        before = tuple(w.session_state(x) for x in range(self.n))
        n_refused = len(w.refused)
        if d["cls"] == "fault":
            import errno
            import os
            code = getattr(errno, ev[2])
            sends, exc = w.os_error(i, OSError(code, os.strerror(code)))
        elif d["cls"] == "control-close":
            sends, exc, task_done = w.close_control(i)
        elif d["cls"] == "announce":
            # EnableSimulator / TeleportFinish / CrossedRegion path: the login region's handle shows up at another address
            n0 = len(w.sends)
            exc = None
            try:
                w.sessions[i].register_region(circuit_addr=U.SIMS[2], seed_url=f"https://sim2.test.localhost:12043/cap/{i}/seed",
                                              handle=((1000 + i) << 32) | 1000)
            except Exception as e:  # noqa
                exc = e
            w.loop.run_ready()
            sends = w.sends[n0:]
            m.announced.add(i)
        else:
            sends, exc = w.deliver(i, d["data"], d["src"])
        after = tuple(w.session_state(x) for x in range(self.n))
        exn = type(exc).__name__ if exc is not None else None
        w.last = (ev[0], ev[2] if len(ev) > 2 and isinstance(ev[2], str) else "", len(sends), exn)

        def bad(clause, site, detail):
            w.violations.append({"clause": clause, "site": site, "detail": detail})

        if d["cls"] == "announce":
            if sends or exc is not None:
                bad("garbage-zero-sends", "Session.register_region:known-handle-new-address",
                    f"registering a region caused {len(sends)} sendto / exception {exc!r}")
        elif d["cls"] == "control-close":
            site = "SOCKS5Server.handle_connection:teardown"
            m.gone.add(i)

            def own(st):    # everything but the global number of sessions
                return st[:5] + st[6:]
            if sends or exc is not None or not task_done:
                bad("teardown-isolated", site, f"control connection {i} ended: {len(sends)} sendto, exception {exc!r}, handler finished={task_done}")
            for x in range(self.n):
                if x == i or x in m.gone:
                    continue
                if own(before[x]) != own(after[x]) or w.sessions[x] not in w.sm.sessions:
                    bad("teardown-isolated", site, f"the end of viewer {i}'s control connection changed viewer {x}'s association/session: "
                                                   f"before={before[x]!r} after={after[x]!r} still registered={w.sessions[x] in w.sm.sessions}")
            # (a session this association never claimed is a pending login and stays)
            if not after[i][6] or after[i][1] is not None or (m.claimed[i] and w.sessions[i] in w.sm.sessions):
                bad("teardown-own", site, f"viewer {i}'s control connection ended but its own association/session is still up: {after[i]!r}")
        elif d["cls"] == "fault":
            site = "fault:error_received:" + ev[2]
            if sends or exc is not None:
                bad("fault-zero-sends", site, f"socket error reported to association {i}: {len(sends)} sendto, exception {exc!r}")
            if before != after:
                bad("fault-state-unchanged", site, f"a socket error on association {i} changed session/circuit/association state: "
                                                   f"before={before!r} after={after!r}")
        elif d["cls"] == "oversize":
            site = "fault:sendto-EMSGSIZE:in:LayerData"
            refused = w.refused[n_refused:]
            if sends or len(refused) != 1 or refused[0][0] != i or refused[0][2] != U.VIEWERS[i]:
                bad("exactly-once", site, f"valid {len(d['lludp'])}-byte datagram: expected exactly one (refused) sendto to {U.VIEWERS[i]}, "
                                          f"got sends={[(a, len(x), addr) for a, x, addr in sends]} refused={refused} exception={exn}")
            if tuple(liveness(x) for x in before) != tuple(liveness(x) for x in after):
                bad("fault-state-unchanged", site, f"an undeliverable datagram (EMSGSIZE) changed session/association liveness: "
                                                   f"before={[liveness(x) for x in before]!r} after={[liveness(x) for x in after]!r}")
        elif d["cls"] == "valid":
            check_valid(bad, i, d["j"], d["dir"], d["lludp"], sends, exn, d["site"])
            if ev[0] == "U":
                j = ev[2]
                m.claimed[i] = True
                m.open.add((i, j))
                m.dead.discard((i, j))
                r = w.region(i, j)
                ok = (w.protos[i].session is w.sessions[i] and not w.sessions[i].pending and r is not None
                      and r.circuit is not None and r.circuit.is_alive and r.circuit.near_host == U.VIEWERS[i]
                      and r.circuit.host == U.SIMS[j])
                if not ok:
                    bad("circuit-open", d["site"], f"after UseCircuitCode viewer{i}->sim{j}: state {after[i]!r} exc={exn}")
            elif ev[0] in ("vc", "sd"):
                m.dead.add((i, ev[2]))
        elif d["cls"] == "truncated" and len(sends) == 1:
            a, data, addr = sends[0]
            j = d["j"]
            if d["dir"] == OUT:
                ok = a == i and addr == U.SIMS[j] and data == d["lludp"] and (i, j) in m.open
            else:
                un = U.socks_unwrap(data)
                ok = (a == i and addr == U.VIEWERS[i] and un is not None and un[0] == U.SIMS[j] and un[2] == (0, 0, 1)
                      and un[1] == d["lludp"] and (i, j) in m.open)
            if not ok:
                bad("truncated-body", f"{d['dir']}:{ev[0]}:{ev[-1]}",
                    f"truncated datagram forwarded but not verbatim/to the right peer: {sends!r}")
        else:
            site = garbage_site(ev)
            if sends:
                bad("garbage-zero-sends", site, f"{len(sends)} sendto for a datagram that must be discarded: "
                                                f"{[(a, addr, data[:24].hex()) for a, data, addr in sends]} exc={exn}")
            if before != after:
                allowed = False
                if d["claim_ok"] and not m.claimed[i]:
                    # the only legal change: this association claims its own session
                    exp = list(before)
                    s = list(exp[i])
                    s[0], s[1] = False, i
                    exp[i] = tuple(s)
                    allowed = tuple(exp) == after
                if not allowed:
                    bad("garbage-state-unchanged", site, f"session state changed by discarded datagram: before={before!r} after={after!r}")
            if d["claim_ok"] and w.protos[i].session is w.sessions[i]:
                m.claimed[i] = True

    # ---- replay helper: run an explicit history, return every violation ----------------------------------
    def run_history(self, hist) -> List[Dict[str, Any]]:
        w = self.fresh()
        out = list(w.violations)
        for ev in hist:
            w.violations = []
            self.step(w, tuple(ev))
            out.extend(w.violations)
        return out


def _norm(dec):
    """ACK flag with an empty ack list (a trailing count byte of 0) is the same datagram content as no ACK flag."""
    name, flags, pid, acks, extra, body = dec
    return (name, (flags & ~0x10) | (0x10 if acks else 0), pid, acks, extra, body)


def _norm_hdr(h):
    flags, pid, off, acks = h
    return ((flags & ~0x10) | (0x10 if acks else 0), pid, off, acks)


def garbage_site(ev) -> str:
    k = ev[0]
    extra = [str(e) for e in ev[2:] if isinstance(e, str)]
    if k in ("g_trunc", "g_short"):
        extra.append(f"len{ev[2]}")
    if k == "g_pre_in":
        extra.append(f"pid{ev[3]:#x}")
    if k == "g_flood":
        extra.append("first" if ev[3] == 0 else "later")
    return ":".join(["garbage", k] + extra)


def check_valid(bad, i: int, j: int, direction: str, lludp: bytes, sends, exn, site: str, counts: Optional[Part] = None):
    """Oracle for one valid datagram of association i on circuit (i, j)."""
    try:
        want = _norm(U.decode(lludp))
    except Exception as e:  # the harness built an undecodable 'valid' message: harness bug, not a finding
        raise RuntimeError(f"harness generated an undecodable valid datagram for {site}: {e!r}")
    want_hdr = _norm_hdr(U.header_fields(lludp))
    peer = U.SIMS[j] if direction == OUT else U.VIEWERS[i]
    decoded = []
    for a, data, addr in sends:
        payload, wrap = data, None
        if direction == IN:
            un = U.socks_unwrap(data)
            if un is not None:
                wrap, payload = (un[0], un[2]), un[1]
        try:
            got = _norm(U.decode(payload))
        except Exception as e:
            got = ("<undecodable>", repr(e))
        decoded.append((a, addr, wrap, payload, got))
    same = [x for x in decoded if x[4][0] == want[0]] if len(decoded) > 1 else decoded
    if counts is not None and len(decoded) > len(same):
        counts.count("proxy_originated_sends", len(decoded) - len(same))
    if len(same) != 1:
        bad("exactly-once", site, f"expected exactly one sendto carrying {want[0]} (id {want[2]}), got {len(same)} of "
                                  f"{len(sends)} sends: {[(a, addr, g[0]) for a, addr, _, _, g in decoded]} exception={exn}")
        return
    a, addr, wrap, payload, got = same[0]
    if a != i or addr != peer:
        bad("right-peer", site, f"expected socket {i} -> {peer}, got socket {a} -> {addr}")
    if direction == IN:
        if wrap is None or wrap[1] != (0, 0, 1) or wrap[0] != U.SIMS[j]:
            bad("socks-wrap", site, f"inbound datagram must be wrapped with rsv=0 frag=0 atyp=1 {U.SIMS[j]}, header parsed as {wrap}")
    if got != want:
        bad("content-intact", site, f"sent {want!r}\nforwarded {got!r}")
    else:
        try:
            hdr = _norm_hdr(U.header_fields(payload))
        except Exception as e:
            hdr = repr(e)
        if hdr != want_hdr:
            bad("content-intact", site, f"header (flags,id,offset,acks) sent {want_hdr!r} forwarded {hdr!r}")
        elif counts is not None:
            counts.count("forwarded_byte_identical" if payload == lludp else "forwarded_reencoded")


# ---- sweeps ----------------------------------------------------------------------------------------------------------
ADDRS = ["0.0.0.0", "127.0.0.1", "255.255.255.255", "10.1.2.3", "1.0.0.0", "0.0.0.1", "192.168.0.255"]
PORTS = [0, 1, 255, 256, 0x1234, 0xFF00, 0xFFFF]
PAYLOADS = [b"", b"\x00", b"\xff", bytes((n * 7 + 1) % 256 for n in range(1200)), b"\x00" * 1200]



def _socks_strip_via_protocol(data: bytes, near=("127.0.0.1", 50001)):
    """What the proxy side strips from a viewer datagram, observed through the PUBLIC seam: a fresh UDPProxyProtocol gets the
    datagram from the SOCKS client's address and hands a UDPPacket to its handle_proxied_packet() extension point.  No private
    parser method is named, so internal renames of the parser do not matter.  Returns (far_addr, payload) or None."""
    import hippolyzer.lib.proxy.socks_proxy as sp
    got = []

    class _Capture(sp.UDPProxyProtocol):
        def handle_proxied_packet(self, packet):
            got.append(packet)

    proto = _Capture(near)
    proto.datagram_received(data, near)
    if len(got) != 1:
        return None
    pkt = got[0]
    if pkt.direction != Direction.OUT or tuple(pkt.src_addr) != tuple(near):
        return ("wrong-direction-or-source", pkt.direction.name, pkt.src_addr)
    return (pkt.dst_addr[0], pkt.dst_addr[1]), bytes(pkt.data)


def framing_case(addr: str, port: int, payload: bytes, near=("127.0.0.1", 1001)) -> List[Dict[str, str]]:
    import hippolyzer.lib.proxy.socks_proxy as sp
    out = []

    def bad(clause, site, detail):
        out.append({"clause": clause, "site": site, "detail": detail})

    far = (addr, port)
    # proxy emits towards the viewer; reference strips
    emitted = SOCKS5UDPTransport.serialize(UDPPacket(far, near, payload, Direction.IN))
    un = U.socks_unwrap(bytes(emitted))
    if un is None or un[0] != far or un[1] != payload or un[2] != (0, 0, 1):
        bad("framing-emit", "SOCKS5UDPTransport.serialize", f"far={far} len={len(payload)}: reference strip gives {un and (un[0], un[2], len(un[1]))}")
    # reference (a viewer) emits; proxy strips
    try:
        parsed = _socks_strip_via_protocol(U.socks_wrap(payload, far))
    except Exception as e:
        parsed = repr(e)
    if parsed != (far, payload):
        bad("framing-parse", "UDPProxyProtocol.datagram_received:socks-strip", f"far={far} len={len(payload)}: parsed {str(parsed)[:120]}")
    # what one side adds is exactly what the other strips (both directions of UDPPacket, header forced for outbound)
    for pkt in (UDPPacket(far, near, payload, Direction.IN), UDPPacket(near, far, payload, Direction.OUT)):
        try:
            rt = _socks_strip_via_protocol(bytes(SOCKS5UDPTransport.serialize(pkt, force_socks_header=True)))
        except Exception as e:
            rt = repr(e)
        if rt != (pkt.far_addr, payload):
            bad("framing-inverse", "SOCKS5UDPTransport.serialize/UDPProxyProtocol.datagram_received",
                f"{pkt.direction.name} far={far} len={len(payload)}: round trip gives {str(rt)[:120]}")
    plain = SOCKS5UDPTransport.serialize(UDPPacket(near, far, payload, Direction.OUT))
    if bytes(plain) != payload:
        bad("framing-emit", "SOCKS5UDPTransport.serialize:outbound", f"outbound datagram must go out bare; got {len(plain)} bytes for {len(payload)}")
    return out


def framing_domain_case(n: int, port: int, payload: bytes) -> List[Dict[str, str]]:
    import hippolyzer.lib.proxy.socks_proxy as sp
    name = bytes(97 + (k % 26) for k in range(n))
    try:
        parsed = _socks_strip_via_protocol(U.socks_wrap(payload, (name, port), atyp=3))
    except Exception as e:
        parsed = repr(e)
    if parsed != ((name, port), payload):
        return [{"clause": "framing-parse", "site": "UDPProxyProtocol.datagram_received:socks-strip:domain",
                 "detail": f"domain len {n} port {port} payload {len(payload)}: parsed {str(parsed)[:120]}"}]
    return []


LOOKALIKE_PIDS = (0x100, 0x1FF, 0x300, 0x3FF)


# which circuit the all-templates sweep goes through: (region index, neighbour registered with a handle?, main circuit open too?)
VIAS = {
    "main": (0, True, False),                  # login region, the only open circuit
    "nb-handle+main": (1, True, True),         # neighbour registered with its handle, next to the open main circuit
    "nb-nohandle": (1, False, False),          # neighbour registered without a handle, the only open circuit
    "nb-nohandle+main": (1, False, True),      # ... next to the open main circuit
}


def types_case(name: str, k: int, direction: str, counts: Optional[Part] = None, pid: Optional[int] = None,
               via: str = "main") -> List[Dict[str, str]]:
    """One template, value row k, one direction, through a freshly opened circuit (``via``: which region / how it was
    registered / whether a second circuit is open).  ``pid``: flags 0 and that packet id (SOCKS5-header lookalikes for
    simulator datagrams) instead of the row's header variant."""
    j, nb_handle, main_open = VIAS[via]
    g = gen()
    case = None
    for n, c in enumerate(g.value_rows(name)):
        if n == k:
            case = c
            break
    if case is None:
        return []
    out: List[Dict[str, str]] = []

    def bad(clause, site, detail):
        out.append({"clause": clause, "site": site, "detail": detail})

    if pid is not None:
        case = dict(case)
        case.update(flags=0, packet_id=pid, acks=(), extra=b"")
    lludp = U.serialize(g.lib_message(case))
    h = Harness(n_sessions=1, base="empty", neighbour_handle=nb_handle)
    w = h.fresh()
    if main_open and j != 0:
        h.step(w, ("U", 0, 0))
    h.step(w, ("U", 0, j))
    if w.violations:
        return [dict(v, site="types-setup:" + v["site"]) for v in w.violations]
    before = w.session_state(0)
    if direction == OUT:
        sends, exc = w.deliver(0, U.socks_wrap(lludp, U.SIMS[j]), U.VIEWERS[0])
    else:
        sends, exc = w.deliver(0, lludp, U.SIMS[j])
    exn = type(exc).__name__ if exc is not None else None
    site = f"{direction}:{name}" + ("" if via == "main" else f":via={via}")
    if direction == IN and name in _BANNED:
        if sends:
            bad("garbage-zero-sends", "banned:" + name, f"UDP-banned {name} from the simulator caused {len(sends)} sendto")
        if w.session_state(0) != before:
            bad("garbage-state-unchanged", "banned:" + name, "session state changed by a banned datagram")
        if counts is not None:
            counts.outcome(("banned", len(sends), exn))
        return out
    check_valid(bad, 0, j, direction, lludp, sends, exn, site, counts)
    if counts is not None:
        counts.outcome((direction, via, len(sends), exn, "ok" if not out else out[0]["clause"]))
        if exn or len(sends) != 1 or w.session_state(0)[2] != before[2]:
            counts.mark_nontrivial(("types", name, direction, k))
    return out


_BANNED: List[str] = []


def _types_worker(item):
    name, k, direction, pid, via = item
    part = Part()
    part.count("evaluations")
    part.count("types_cases")
    if via != "main":
        part.count("types_cases_other_registration")
        part.mark_nontrivial(("types-via", name, direction, via))
    if pid is not None:
        part.count("types_cases_socks_lookalike_id")
        part.mark_nontrivial(("types-lookalike", name, pid))
    for v in types_case(name, k, direction, part, pid, via):
        part.violation(v["clause"], v["site"] + ("" if pid is None else ":socks-lookalike-id"),
                       {"kind": "types", "name": name, "row": k, "dir": direction, "seed": _SEED, "pid": pid, "via": via}, v["detail"])
    return part.dump()


def _is_enabled(h, w, ev) -> bool:
    if ev[0] == "g_flood":
        return True
    if ev[0] == "e_oserr":
        return True
    if ev[0] == "c_close":
        return h.via_socks and ev[1] not in w.model.gone
    if ev[0] == "r_announce":
        return ev[1] not in w.model.announced
    if len(ev) > 2 and ev[2] == 2 and ev[0] in ("U", "vo", "vr", "so", "sr", "vc", "sd", "vx", "sx"):   # the re-announced address
        if ev[1] not in w.model.announced:
            return False
        return ev[0] == "U" or w.model.alive(ev[1], 2)
    if ev[1] in w.model.gone:
        return False
    if ev[0] == "so_big":
        return w.model.alive(ev[1], ev[2])
    if ev[0] in ("vx", "sx"):
        return w.model.alive(ev[1], ev[2])
    if ev[0] == "g_banned_in" and len(ev) == 4:
        return ev[:3] in h.enabled(w)
    return ev in h.enabled(w)


def _interleave_worker(item):
    base, hist = item
    part = Part()
    part.count("evaluations")
    part.count("interleavings")
    h = Harness(2, base)
    w = h.fresh()
    viols = list(w.violations)
    for ev in hist:
        if not _is_enabled(h, w, ev):  # e.g. "no circuit yet" garbage after the valid event opened that circuit
            part.count("interleavings_not_enabled")
            return part.dump()
        w.violations = []
        h.step(w, ev)
        viols.extend(w.violations)
    part.outcome(("interleave", tuple(e[0] for e in hist), w.last))
    part.mark_nontrivial(("interleave", base, hist))
    for v in viols:
        part.violation(v["clause"], v["site"], {"kind": "interleave", "base": base, "history": [list(e) for e in hist], "seed": _SEED}, v["detail"])
    return part.dump()


def move_scenarios():
    """A region whose handle is already registered is announced at a new address (SIMS[2]) while the old circuit is still
    alive (the old simulator vanished without DisableSimulator/CloseCircuit), after a clean shutdown, or before any circuit:
    UseCircuitCode + traffic both ways at the new address, then at the old ones, must reach exactly the addressed peer."""
    for i in (0, 1):
        new = (("U", i, 2), ("vo", i, 2), ("so", i, 2), ("vr", i, 2), ("sr", i, 2), ("sx", i, 2, "same"))
        yield ("all-open", (("r_announce", i),) + new + (("vo", i, 1), ("so", i, 1), ("vo", 1 - i, 0), ("so", 1 - i, 0)))
        yield ("main-open", (("so", i, 0), ("r_announce", i)) + new + (("U", i, 1), ("so", i, 1)))
        yield ("main-open", (("vc", i, 0), ("r_announce", i)) + new)
        yield ("main-open", (("sd", i, 0), ("r_announce", i)) + new + (("U", i, 0), ("so", i, 0), ("so", i, 2)))
        yield ("empty", (("r_announce", i),) + new + (("U", i, 0), ("vo", i, 0), ("so", i, 0), ("so", i, 2)))
        yield ("socks:main-open", (("r_announce", i),) + new)


def control_scenarios():
    """Associations x teardown at the SOCKS control seam.  Both viewers come in through the real control path
    (``socks:`` bases), each with its own UDP association and claimed session; every sequence of length <= 4 over
    {traffic on A, traffic on B (both directions), control connection A ends, control connection B ends}: ending X tears
    down X only; every later datagram of the other viewer is relayed exactly once, its session/circuits stay as they were."""
    import itertools
    alphabet = [("vo", 0, 0), ("so", 0, 0), ("vr", 1, 0), ("sr", 1, 0), ("c_close", 0), ("c_close", 1)]
    for n in range(1, 5):
        for seq in itertools.product(alphabet, repeat=n):
            if not any(e[0] == "c_close" for e in seq):
                continue
            gone, ok = set(), True
            for e in seq:
                if e[1] in gone:
                    ok = False
                    break
                if e[0] == "c_close":
                    gone.add(e[1])
            if ok:
                yield ("socks:main-open", seq)
    # the other region, and the four-circuit base
    for i in (0, 1):
        yield ("socks:all-open", (("c_close", i), ("vo", 1 - i, 0), ("so", 1 - i, 1), ("vr", 1 - i, 1), ("sr", 1 - i, 0), ("U", 1 - i, 0)))
        yield ("socks:all-open", (("so", i, 1), ("c_close", i), ("sx", 1 - i, 1, "same"), ("vc", 1 - i, 1), ("U", 1 - i, 1), ("so", 1 - i, 1)))
        yield ("socks:empty", (("c_close", i), ("U", 1 - i, 0), ("vo", 1 - i, 0), ("so", 1 - i, 0)))


def resend_scenarios():
    """Retransmissions (RELIABLE|RESENT) on every circuit of the four-circuit base: every retry of an already forwarded
    packet, a retry whose id the peer has used for its own reliable packet (UseCircuitCode is reliable packet 1 of the
    viewer; simulators are made to reuse small ids through mode "other"), first sight already flagged RESENT; each must
    be relayed exactly once, followed by ordinary traffic both ways."""
    for i in (0, 1):
        for j in (0, 1):
            c = (i, j)
            yield ("all-open", (("vr", *c), ("vx", *c, "same"), ("vx", *c, "same"), ("vx", *c, "same"), ("so", *c), ("vo", *c)))
            yield ("all-open", (("sr", *c), ("sx", *c, "same"), ("sx", *c, "same"), ("sx", *c, "same"), ("vo", *c), ("so", *c)))
            yield ("all-open", (("sx", *c, "other"), ("sx", *c, "other"), ("vr", *c), ("sx", *c, "other"), ("so", *c)))
            yield ("all-open", (("sr", *c), ("vx", *c, "other"), ("vx", *c, "other"), ("vo", *c), ("so", *c)))
            yield ("all-open", (("vx", *c, "new"), ("sx", *c, "new"), ("vx", *c, "same"), ("sx", *c, "same")))
            yield ("all-open", (("sx", *c, "same"), ("vx", *c, "same"), ("vr", *c), ("sr", *c), ("vx", *c, "other"), ("sx", *c, "other")))
    yield ("one-open", (("sx", 0, 0, "other"), ("vx", 0, 0, "same"), ("so", 0, 0), ("vo", 0, 0)))


def reopen_scenarios():
    """UseCircuitCode, kill (CloseCircuit from the viewer / DisableSimulator from the simulator), UseCircuitCode again,
    then every kind of ordinary traffic through the re-opened circuit -- for every (association, region), alone and
    with the other association holding a circuit to the same simulator."""
    for i in (0, 1):
        for j in (0, 1):
            for kill in ("vc", "sd"):
                tail = (("U", i, j), (kill, i, j), ("U", i, j), ("vo", i, j), ("so", i, j), ("vr", i, j), ("sr", i, j),
                        (kill, i, j), ("U", i, j), ("sr", i, j), ("vr", i, j))
                yield ("empty", tail)
                yield ("empty", (("U", 1 - i, j),) + tail + (("vo", 1 - i, j), ("so", 1 - i, j)))


FLOOD_K = (1, 8, 31, 32, 33, 64, 300)


def flood_scenarios(quick: bool):
    """k distinct pieces of garbage on one association (k distinct unregistered far addresses / k distinct unknown
    source hosts / k truncated datagrams), then one valid datagram of every kind on every open circuit of *both*
    associations.  Not BFS: the point is volume (anything that remembers, caches or bounds what it has seen)."""
    for base, assocs in (("one-open", (0,)), ("all-open", (0, 1))):
        hb = Harness(2, base)
        m = hb.fresh().model
        # simulator datagrams first: a viewer datagram to the same simulator would re-teach the proxy that address
        tail = tuple(ev for kind in ("so", "sr", "vo", "vr") for ev in hb.valid_events(m) if ev[0] == kind)
        for i in assocs:
            for fam in ("far", "src", "trunc"):
                for k in FLOOD_K:
                    if quick and k == 300 and fam != "far":
                        continue
                    yield (base, tuple(("g_flood", i, fam, n) for n in range(k)) + tail)


def repeated_garbage(base: str):
    """[g, g], [g, v, g], [g, g, v] for every garbage kind g (every UDP-banned name individually): each occurrence must
    be discarded -- 'the first one was rejected' must not teach the proxy anything."""
    h = Harness(2, base)
    m = h.fresh().model
    gs = list(h.garbage_events(m)) + [f for f in h.fault_events(m) if f not in h.garbage_events(m)]
    for (i, j) in sorted(m.open):
        gs += [("g_banned_in", i, j, name) for name in _BANNED]
    vs = h.valid_events(m)
    for g_ev in gs:
        yield (base, (g_ev, g_ev))
        yield (base, (g_ev, g_ev, g_ev))
        for v in vs:
            if v[1] == g_ev[1] and v[0] in ("vo", "sr"):
                yield (base, (g_ev, v, g_ev))
                yield (base, (g_ev, g_ev, v))


def interleavings(base: str):
    h = Harness(2, base)
    w = h.fresh()
    vs = h.valid_events(w.model)
    gs = h.garbage_events(w.model) + [f for f in h.fault_events(w.model) if f not in h.garbage_events(w.model)]
    for g_ev in gs:
        for v in vs:
            yield (base, (g_ev, v))
            yield (base, (v, g_ev, v))
    # two different pieces of garbage in a row, then valid traffic on every open circuit direction
    for a in gs:
        for b in gs:
            if a[0] != b[0] and a[1] == b[1]:
                for v in vs:
                    if v[0] in ("vo", "sr") and v[1] == a[1]:
                        yield (base, (a, b, v))


# ---- entry points ------------------------------------------------------------------------------------------------------
def run(run: Run):
    global _BANNED, _SEED
    _BANNED = banned_names()
    _SEED = int(run.seed)
    quick = run.tier == "quick"
    depth = 4 if quick else 5
    devb = 2 if quick else 3
    run.rule = ("BFS over valid/garbage datagrams into datagram_received of 2 associations x 2 regions (same simulator "
                "addresses, one IP), states deduplicated on full session/circuit/tracker state + far_to_near maps + model "
                "counters; non-trivial = histories with a valid datagram after garbage, states where two associations hold "
                "a circuit to the same simulator, every garbage/valid interleaving, and template cases that raised, were "
                "discarded or changed region state")
    run.assumptions += [
        "exceptions escaping datagram_received are swallowed by the harness exactly as asyncio's datagram transport does",
        "the UDP ban list applies to simulator->viewer datagrams only (as lludp_proxy documents); a banned name sent by the viewer is ordinary traffic",
        "a UseCircuitCode with the right session id to an unregistered address may claim the session (documented by the repo's test_bad_circuit_not_sent)",
        "packet-id wrap-around is outside the alphabet",
        "'open circuit' = the region has a ProxiedCircuit whose is_alive is True. CloseCircuit (viewer) / DisableSimulator (simulator) are valid "
        "datagrams that must themselves be forwarded once and leave the circuit object in place but dead; the code keeps forwarding on a dead "
        "circuit (region_by_circuit_addr only tests region.circuit) and the statement says nothing about that, so no ordinary traffic is offered "
        "or judged on a dead circuit; the re-opening UseCircuitCode must be forwarded once and leave a live circuit (Session.open_circuit: "
        "'create a circuit, replace a circuit, or do nothing if circuit is already alive'), after which both endpoints number from the start again",
        "simulator packet ids start at 0x100 (region 0) / 0x300 (region 1) so that unreliable simulator datagrams read as a SOCKS5 UDP header "
        "(RSV 0, FRAG 0, ATYP 1 / 3); there is no mirror-image ambiguity for viewer datagrams because a viewer address is never a key of far_to_near_map in this universe",
        "HOME viewer-cache scan, per-association re-parse of message.xml and multiprocessing queues are neutralised by hmc.udpharness (environment isolation)",
        "the ACK flag with zero appended acks is treated as equal to no ACK flag (the proxy normalises it away)",
        "all-types sweep uses hmc.msggen value rows (each alphabet element of each variable once), not the full value cross product",
    ]
    # 1. explicit-state search
    for base, dd in (("empty", depth), ("main-open", depth - 1)):
        n0 = len(run.violations)
        explore.bfs(run, Harness(2, base), depth=dd, dev_bound=devb, label=f"base={base} ")
        for v in run.violations[n0:]:
            if isinstance(v["witness"], dict) and "kind" not in v["witness"]:
                v["witness"]["kind"] = "bfs"
                v["witness"]["base"] = base
                v["witness"]["seed"] = _SEED
    for v in run.violations:
        wt = v["witness"]
        if isinstance(wt, dict) and wt.get("kind") == "bfs":
            try:
                small = explore._minimise_tuples(Harness(2, wt["base"]), wt["history"], v["clause"], v["site"])
                wt["history"] = [list(e) for e in small]
            except Exception as e:
                run.notes.append(f"minimise failed: {e!r}")
    # 2. garbage/valid interleavings
    items = list(interleavings("one-open")) + list(interleavings("all-open"))
    if quick:
        items = [it for it in items if len(it[1]) == 2 or it[0] == "one-open"]
    items += list(reopen_scenarios())
    items += list(resend_scenarios())
    n_ctl = len(items)
    items += list(control_scenarios())
    items += list(move_scenarios())
    run.coverage_extra.update(control_scenarios=len(items) - n_ctl)
    items += list(repeated_garbage("one-open")) + list(repeated_garbage("all-open"))
    n_il = len(items)
    items += list(flood_scenarios(quick))
    run.coverage_extra.update(flood_scenarios=len(items) - n_il)
    for d in pmap(_interleave_worker, items, run.jobs):
        run.merge(d)
    # 3. framing law
    n = 0
    for a in ADDRS:
        for p in PORTS:
            for pl in PAYLOADS:
                n += 1
                for v in framing_case(a, p, pl):
                    run.violation(v["clause"], v["site"], {"kind": "framing", "addr": a, "port": p, "payload": pl}, v["detail"])
                run.outcome(("framing", len(pl)))
    for dn in (0, 1, 11, 255):
        for p in PORTS:
            for pl in PAYLOADS:
                n += 1
                for v in framing_domain_case(dn, p, pl):
                    run.violation(v["clause"], v["site"], {"kind": "framing-domain", "n": dn, "port": p, "payload": pl}, v["detail"])
    run.count("evaluations", n)
    run.count("framing_cases", n)
    # 4. every template, both directions
    g = gen()
    items = []
    for name in refwire.templates():
        rows = g.n_rows(g.templates[name])
        ks = range(min(rows, 2)) if quick else range(rows)
        for k in ks:
            items.append((name, k, OUT, None, "main"))
            items.append((name, k, IN, None, "main"))
        for lp in LOOKALIKE_PIDS:
            items.append((name, 0, IN, lp, "main"))
        # every message type x how the region was registered / how many circuits are open
        for via in VIAS:
            if via != "main":
                items.append((name, 0, OUT, None, via))
                items.append((name, 0, IN, None, via))
    for d in pmap(_types_worker, items, run.jobs):
        run.merge(d)
    run.coverage_extra.update(depth=depth, deviation_bound=devb, templates=len(refwire.templates()), banned_templates=len(_BANNED),
                              interleavings=int(run.counters.get("interleavings", 0)), types_cases=int(run.counters.get("types_cases", 0)))
    run.sample({"bfs_event_menu_at_start": [list(e) for e in Harness(2).enabled(Harness(2).fresh())][:12]})
    run.sample({"interleaving": {"base": "one-open", "history": [list(e) for e in next(iter(interleavings("one-open")))[1]]}})
    run.sample({"types_case": ["ObjectUpdate", 0, IN], "banned": _BANNED})
    U.shutdown()


def replay(witness):
    global _BANNED, _SEED
    _BANNED = banned_names()
    _SEED = int(witness.get("seed", 0))
    kind = witness.get("kind", "bfs")
    if kind in ("bfs", "interleave"):
        return Harness(2, witness.get("base", "empty")).run_history([tuple(e) for e in witness["history"]])
    if kind == "types":
        return types_case(witness["name"], int(witness["row"]), witness["dir"], None,
                          int(witness["pid"]) if witness.get("pid") is not None else None, witness.get("via", "main"))
    if kind == "framing":
        return framing_case(witness["addr"], int(witness["port"]), witness["payload"])
    if kind == "framing-domain":
        return framing_domain_case(int(witness["n"]), int(witness["port"]), witness["payload"])
    raise ValueError(f"unknown witness kind {kind}")

"""C19 -- client endpoint: always ack, dispatch once, reliable sends complete on ack only.

Explicit-state BFS over the *real* HippoClientProtocol / HippoClientSession / HippoClientRegion / Circuit and the real
HippoClient._attempt_resends task, under hmc.vloop (virtual loop + virtual clock), with a capturing transport and no
network.  The world is built the way HippoClient.login() builds it (session from login data, protocol, resend task,
open_circuit) minus the HTTP login and the handshake; the circuit is marked alive as region.connect() does after the
handshake ("live circuit" in the statement).

World configurations (each searched separately; a witness names its cfg):
  solo          region-level StartPingCheck Event holds only the built-in async handler; sync subscribers: session-level
                ChatFromSimulator / StartPingCheck / "*", region-level ChatFromSimulator / "*".  Full alphabet.
  shared        as solo plus a sync region-level StartPingCheck subscriber (shares the Event with the async handler).
                Peer packets are pings only (the chat half would repeat cfg solo).
  prehandshake  circuit left as open_circuit() creates it (is_alive=False: UseCircuitCode still in flight).  Peer packets
                (chat, ids 1..2, reliable/unreliable, duplicates) arrive on the not-yet-alive circuit -- the sim's first
                reliable packet reordered ahead of the UseCircuitCode ack, or traffic during a re-connect() -- and the event
                ("H",) "handshake completes" (what connect() does once that ack is in: is_alive = True) lets histories
                cross the boundary in both orders.  The code documents nothing special for that phase:
                datagram_received serves every region that has a circuit and never looks at is_alive, and its comment says
                "We should ACK even if it's a resend"; so the statement's receive clauses (always ack, dedupe, delivery)
                are asserted unchanged, and reliable sends are retransmitted / fail at budget like on a live circuit
                (repo 3009fa0); the overdue clauses keep their own site (..._attempt_resends:circuit-not-alive).
  selfunsub     as shared (sync subscribers on every Event, both levels), but on each of the six Events a subscriber that
                removes itself while being notified is registered AHEAD of the persistent one: a wait_for() waiter
                (session chat, region ping -- the mechanism HippoClientRegion.connect() uses for RegionHandshake; connect()
                itself needs HTTP and is not run), a one_shot subscription (session ping, region "*"), a handler returning
                True (session "*", region chat).  Oracle unchanged: the persistent subscriber sees every first receipt /
                every unreliable receipt exactly once.  Thin send side (one send_reliable, no AB/SP/unreliable send).

  reregister    as solo with a thin alphabet (chat, ids 1..2, one send_reliable per connection) plus the event ("X",), at most
                once: the sim is unregistered (what the DisableSimulator / CloseCircuit subscribers do) and registered
                again at the SAME address (register_region + open_circuit + is_alive, as after a teleport back / region
                restart): new HippoClientRegion, new Circuit, both sides start their packet ids over.  The harness moves
                its region-level subscribers to the new region; the old region's subscribers stay attached and must never
                be called again (site ...region_by_circuit_addr:stale-region).  Same oracle on both sides of X.
  queue         as solo with a thin alphabet (chat only, one send_reliable) where every chat packet has the SAME body (only
                packet ids differ) and a subscribe_async (queue-style) subscriber sits at session level and at region level,
                each drained by a consumer task.  Oracle: the existing delivery counts applied to the queue consumers
                (site MessageHandler.subscribe_async:<level>-queue): every unreliable receipt and every first reliable
                receipt reaches them exactly once, retransmissions never.
  window family (not a BFS): see window_family() -- reliable ids, a burst ("B", N) of N unreliable packets with fresh ids,
                N around the measured dedupe window, then retransmissions: unreliable traffic must not evict reliable ids.

Alphabet (events are tuples; the last field of R/AP/AA is the deviation tag):
  ("R", p, kind, rel, resent, defer, dev)
        peer datagram with packet id p in {1,2,3}; kind "chat" (ChatFromSimulator) | "ping" (StartPingCheck);
        "ping@K" (cfg solo, unreliable, in order [dev]) = a StartPingCheck whose OldestUnacked field is K: any reliable id
        the peer sent, its newest id, newest+1 ("our ack was lost"); plain "ping" carries OldestUnacked 0;
        rel = RELIABLE flag; resent = RESENT flag (reliable only).  The content of an id is fixed by its first
        arrival (a peer never reuses an id for another message).  Default: next id in order, no RESENT.
        Deviations: duplicate / retransmission of an id already received (with or without RESENT), gap (p = max+2),
        late (largest missing id below max) -- out-of-order arrivals carry one kind only, since order acts through the
        id alone --, RESENT on first arrival (chat; ping in cfg shared), defer=1 = "deliver this datagram and do NOT run
        pending tasks before the next event" (only offered for pings: the async _handle_ping_check task stays pending).
  ("AP", ids, dev)          peer acks the client's ids with an (unreliable, fresh id >= 100) PacketAck message
  ("AA", carrier, ids, dev) peer acks via *appended* acks; carrier 0 = fresh unreliable ChatFromSimulator,
                            carrier p = retransmission (RESENT) of the lowest already received reliable id, acking
                            all outstanding ids                                                               [dev]
        ids = any non-empty subset of the client's outstanding reliable ids (default), or (while something is
        outstanding) the newest issued id that is not outstanding [dev], or (AP only) the id the client will issue
        next [dev]
  ("AB", body, appendix, dev)  ONE PacketAck datagram using both forms at once: ids in its Packets blocks and ids
        appended after its body (ACK flag); every pair of subsets of the outstanding ids with a non-empty appendix:
        appendix-only (the body then holds one never-issued filler id) [dev], disjoint split (default), overlapping [dev]
  ("SR",) client circuit.send_reliable(ChatFromViewer), at most MAX_SR per history
  ("C", i, 1)  the caller cancels the future of its i-th reliable send while it is pending (what
        `await asyncio.wait_for(circuit.send_reliable(m), 5)` does on timeout); cfg solo, at most once per history [dev].
        Model: a cancelled send makes no further demands -- whether it keeps being retransmitted until ack / budget is
        unspecified and not asserted either way -- but the peer may still ack its id (it stays in the ack alphabet), and
        every other clause keeps holding: no exception out of datagram_received or the resend task
        (no-exception @ HippoClient._attempt_resends), the carrying packet is acked and dispatched, other sends complete
        on ack / are retransmitted on cadence / fail at budget.
  ("SP", which, rel, 1)  client circuit.send() of a Message that already carries a packet_id, at most MAX_SP per history
        [dev]: which = zero | last (newest issued id) | last-1 | last+50 -> Message("ChatFromViewer", packet_id=N),
        reliable flag or not (non-synthetic, so not tracked for resends: only the id / one-datagram clauses apply);
        which = echo -> the newest delivered peer packet's own Message object (packet_id = the peer's id) is turned
        around (direction OUT) and sent back, as a subscriber might.  AB and SP are not offered in cfg shared (it differs
        from solo on the dispatch side only); both flag values only for "last" (and "zero" before anything was issued).
  ("SU",) client circuit.send(ChatFromViewer) unreliable, at most MAX_SU per history
  ("T", "short"|"past"|"long")  virtual time advances by interval/3 | interval+0.5 | (budget-1)*interval seconds
        (interval = circuit.resend_every, budget = ReliableResendInfo.tries_left default; both read from the code);
        while no reliable send is outstanding only the probe ("T","past") is offered (time acts through the resend
        poll alone; the probe keeps checking that nothing is transmitted again).
After every non-deferred event the loop is drained (run_ready), so the default schedule is "tasks run at once".

Reference model (plain dict/list): content + received flag per peer id; per client reliable send: id, wire bytes,
transmission times seen on the wire, status pending/acked/failed; newest issued id; acks owed; ping replies owed.

Oracle (clause -> sentence of the statement):
  ack-every-receipt          every receipt of a reliable packet is followed (by the next quiescence) by an outgoing
                             PacketAck / appended ack containing its id -- also for the 2nd, 3rd ... receipt
  dispatch-once              a subscriber sees a reliable packet's message at most once (per level: session / region /
                             the built-in async region subscriber _handle_ping_check, observed as CompletePingCheck)
  dispatch-first-receipt     ... and does see it on the first receipt
  unreliable-delivery        every receipt of an unreliable packet reaches every subscriber exactly once
  complete-on-ack            send_reliable()'s future is done (no exception) as soon as a datagram carrying its id as
                             an ack (either form; also when the carrier is a suppressed duplicate) was received
  complete-only-on-ack       ... and is pending before that (acks for other / stale / future ids do not complete it)
  retransmit-cadence         while pending it is retransmitted once per interval (never early; never more than one
                             poll period late) ...
  retransmit-identity        ... as the same bytes with the same id, flags | RESENT
  no-retransmit-after-completion   ... and never after it completed or failed
  fail-on-budget             it fails with TimeoutError exactly when `budget` transmissions went unanswered for one
                             interval each: not earlier, not later, not with fewer/more transmissions
  ids-strictly-increase      first transmissions leave with strictly increasing packet ids (acks, replies, reliable
                             and unreliable sends all draw from one sequence)
  send-transmits             send / send_reliable put exactly one datagram on the wire (bookkeeping precondition)

Deviations from DESIGN §C19: (1) "dispatch-first-receipt" is checked although the statement only says "at most
once" (the listed mutant "track_reliable checks after append" is invisible otherwise) -- it has its own clause.
(2) Time: the cadence/fail clauses allow a lateness of one resend-poll period (0.5 s, HippoClient._attempt_resends)
because the statement does not fix the poll granularity.  (3) The explorer never extends a violating history.  So per cfg a first
search (all clauses, to the quick horizon) names the (clause, site) pairs failing on this tree, and a second search runs to
the full horizon with exactly those pairs muted (all other clauses armed), so histories *behind* a known violation are
still explored; muted pairs are listed in coverage_extra["muted_in_second_pass"] -- empty ({}) on a green tree, where
the second search (thorough only) is simply the all-clauses search continued to the full horizon.  A pair that first shows up in the second search is reported
but (as always) not extended.  (4) Alphabet economies listed
above (one kind out of order, one duplicate carrier, MAX_SR/MAX_SU, probe tick) keep depth 7 inside the budget.
(5) HippoClientProtocol.__init__ re-parses message.xml per instance; worlds share one parsed (read-only) table.
"""
from __future__ import annotations

import dataclasses
import time
from typing import Any, Dict, List, Optional, Tuple

import hippolyzer.lib.base.message.circuit as circuit_mod
import hippolyzer.lib.client.hippo_client as hippo_client_mod
from hippolyzer.lib.base.datatypes import UUID
from hippolyzer.lib.base.helpers import create_logged_task
from hippolyzer.lib.base.message.circuit import ReliableResendInfo
from hippolyzer.lib.base.message.message import Block, Message
from hippolyzer.lib.base.message.msgtypes import PacketFlags
from hippolyzer.lib.base.network.transport import AbstractUDPTransport, Direction
from hippolyzer.lib.client.hippo_client import ClientSettings, HippoClient, HippoClientProtocol, HippoClientSession

from hmc import explore, refwire
from hmc.core import Run
from hmc.vloop import VLoop, install

LEVEL = "model_checking"

ADDR = ("127.0.0.1", 2)
LOGIN = {
    "session_id": str(UUID(int=1)), "secure_session_id": str(UUID(int=2)), "agent_id": str(UUID(int=3)),
    "circuit_code": 123, "sim_ip": ADDR[0], "sim_port": ADDR[1], "region_x": 0, "region_y": 123,
    "seed_capability": "https://127.0.0.1:4/foo",
}
PEER_IDS = (1, 2, 3)
CFGS = ("solo", "shared", "prehandshake", "selfunsub", "reregister", "queue")
SITE_QUEUE = "MessageHandler.subscribe_async"
SITE_STALE_REGION = "BaseClientSession.region_by_circuit_addr:stale-region"
CARRIER_BASE = 100
F_ZERO, F_REL, F_RESENT, F_ACK = 0x80, 0x40, 0x20, 0x10
EPS = 1e-6
POLL_SLACK = 0.5  # HippoClient._attempt_resends sleeps 0.5 s between polls; lateness up to one poll is not a defect
MAX_SR, MAX_SU, MAX_SP = 2, 1, 1
QUICK_DEPTH = 5
BUDGET = next(f.default for f in dataclasses.fields(ReliableResendInfo) if f.name == "tries_left")
NAME = {"chat": "ChatFromSimulator", "ping": "StartPingCheck"}


def kind_name(kind: str) -> str:
    """'chat' | 'ping' | 'ping@K' (a StartPingCheck whose OldestUnacked field is K; plain 'ping' carries 0) | 'ping!'
    (how a received ping@K is remembered: its K is forgotten, and therefore it is never duplicated)."""
    return NAME[kind.split("@")[0].rstrip("!")]


def kind_ou(kind: str) -> int:
    return int(kind.split("@")[1]) if "@" in kind else 0

SITE_SESSION = "HippoClientProtocol.datagram_received:session-handler"
SITE_REGION = "HippoClientProtocol.datagram_received:region-handler"
SITE_PING = "HippoClientRegion._handle_ping_check"
SITE_ACK = "HippoClientProtocol.datagram_received:send_acks"
SITE_RESEND = "Circuit.resend_unacked"
SITE_RESEND_NOT_ALIVE = "HippoClient._attempt_resends:circuit-not-alive"


# ---------------------------------------------------------------------------------------------------------
# wire helpers (independent of the library's serializer: hmc.refwire encodes, a 20-line decoder reads the header)
def peer_datagram(name: str, pid: int, flags: int, acks=(), **body) -> bytes:
    if name == "ChatFromSimulator":
        blocks = [("ChatData", [{"FromName": b"sim\x00", "Message": body["text"].encode() + b"\x00"}])]
    elif name == "StartPingCheck":
        blocks = [("PingID", [{"PingID": body["ping"], "OldestUnacked": body.get("ou", 0)}])]
    elif name == "PacketAck":
        blocks = [("Packets", [{"ID": i} for i in body["ids"]])]
    else:  # pragma: no cover
        raise ValueError(name)
    if acks:
        flags |= F_ACK
    return refwire.encode({"name": name, "flags": flags, "packet_id": pid, "acks": list(acks), "blocks": blocks})


def parse_out(data: bytes) -> Dict[str, Any]:
    flags = data[0]
    pid = int.from_bytes(data[1:5], "big")
    body = data[6 + data[5]:]
    acks: List[int] = []
    if flags & F_ACK:
        n = body[-1]
        tail = body[len(body) - 1 - 4 * n:len(body) - 1]
        acks = [int.from_bytes(tail[i:i + 4], "big") for i in range(0, 4 * n, 4)]
        body = body[:len(body) - 1 - 4 * n]
    if flags & F_ZERO:
        body = refwire.zero_expand(body)
    out = {"flags": flags, "id": pid, "acks": acks, "name": "other:" + body[:4].hex(), "ids": [], "ping": None}
    if body[:4] == b"\xff\xff\xff\xfb":
        n = body[4]
        out["name"] = "PacketAck"
        out["ids"] = [int.from_bytes(body[5 + 4 * i:9 + 4 * i], "little") for i in range(n)]
    elif body[:1] == b"\x02":
        out["name"] = "CompletePingCheck"
        out["ping"] = body[1]
    elif body[:4] == b"\xff\xff\x00\x50":
        out["name"] = "ChatFromViewer"
    return out


class CapturingTransport(AbstractUDPTransport):
    def __init__(self, loop: VLoop):
        super().__init__()
        self.loop = loop
        self.out: List[Tuple[float, bytes, Any]] = []

    def send_packet(self, packet) -> None:
        self.out.append((self.loop.time(), bytes(packet.data), packet.dst_addr))

    def close(self) -> None:
        pass


class _Client(HippoClient):
    """HippoClient without the aiohttp session (never used here: no login, no caps)."""

    def __init__(self):  # noqa: deliberately not calling super().__init__ (it opens an aiohttp.ClientSession)
        self._username = self._password = None
        self._mac = 0
        self._options = set()
        self.http_session = None
        self.session = None
        self.settings = ClientSettings()
        self._resend_task = None

    def __del__(self):
        pass


_PREV_LOOP: Optional[VLoop] = None

# HippoClientProtocol.__init__ parses message.xml (1.5 ms, 75 % of building a world).  The parsed table is read-only
# (validate_udp_msg only looks names up), so all worlds of one process share one instance.
_REAL_MDX = hippo_client_mod.MessageDotXML
_MDX_CACHE: List[Any] = []


def _shared_message_dot_xml(*args, **kwargs):
    if args or kwargs:
        return _REAL_MDX(*args, **kwargs)
    if not _MDX_CACHE:
        _MDX_CACHE.append(_REAL_MDX())
    return _MDX_CACHE[0]


if getattr(hippo_client_mod.MessageDotXML, "__name__", "") != "_shared_message_dot_xml":
    hippo_client_mod.MessageDotXML = _shared_message_dot_xml

# Message.__init__ stats templates.py and re-imports it when its mtime moved (a development convenience).  Other agents
# commit to the shared /repo while checks run; a reload (or the file being absent for an instant) in the middle of a
# search would be nondeterminism the harness does not own -> the templates loaded at start-up stay in force.
import hippolyzer.lib.base.message.message as _message_mod  # noqa: E402

_message_mod.maybe_reload_templates = lambda: None


class World:
    def __init__(self, cfg: str = "solo"):
        global _PREV_LOOP
        self.cfg = cfg
        self.loop = VLoop()
        self.ctx = install(self.loop, clock_modules=[circuit_mod])
        if _PREV_LOOP is not None and not _PREV_LOOP.is_closed():
            try:
                # wind down the previous world's harness tasks (cfg queue consumers) before its loop goes away, so
                # that nothing is finalised against a closed loop ("Event loop is closed" noise on stderr)
                for t in getattr(_PREV_LOOP, "c19_tasks", ()):
                    t.cancel()
                if getattr(_PREV_LOOP, "c19_tasks", ()):
                    _PREV_LOOP.run_ready()
                _PREV_LOOP.close()
            except Exception:
                pass
        _PREV_LOOP = self.loop
        # --- what HippoClient.login() does, minus HTTP ---------------------------------------------------
        self.client = _Client()
        self.session = HippoClientSession.from_login_data(LOGIN, self.client)
        self.client.session = self.session
        self.transport = CapturingTransport(self.loop)
        self.session.transport = self.transport
        self.proto = HippoClientProtocol(self.session)
        self.session.protocol = self.proto
        self.client._resend_task = create_logged_task(self.client._attempt_resends(), "Circuit Resend")
        assert self.session.open_circuit(ADDR)
        self.region = self.session.regions[-1]
        self.circuit = self.region.circuit
        self.alive = cfg != "prehandshake"
        if cfg != "prehandshake":
            self.circuit.is_alive = True  # region.connect() sets this after the UseCircuitCode ack
        self.interval = float(self.circuit.resend_every)
        self.ticks = {"short": self.interval / 3.0, "past": self.interval + 0.5, "long": (BUDGET - 1) * self.interval}
        # --- subscribers: sync, both levels, by name and wildcard (the async one is the built-in ping handler) ----
        self.log: List[Tuple[str, str, str, int]] = []
        self.generation = 0
        self.n_x = 0
        self.n_cancel = 0
        self.resend_task_dead = False
        self.before_x: tuple = ()
        self.selfunsub_fired: List[Tuple[str, str, str]] = []
        self.waiters: List[Any] = []
        forms = {("session", "ChatFromSimulator"): "wait_for", ("session", "StartPingCheck"): "one_shot",
                 ("session", "*"): "returns-true", ("region", "ChatFromSimulator"): "returns-true",
                 ("region", "StartPingCheck"): "wait_for", ("region", "*"): "one_shot"}
        self.events = []
        for level, handler in (("session", self.session.message_handler), ("region", self.region.message_handler)):
            for key in ("ChatFromSimulator", "StartPingCheck", "*"):
                if key == "StartPingCheck" and level == "region" and cfg in ("solo", "reregister", "queue"):
                    continue  # cfg "solo": the built-in async handler is the only subscriber of that region-level Event
                if cfg == "selfunsub":
                    # a subscriber that removes itself while being notified, registered AHEAD of the persistent one
                    # (what every wait_for() does -- e.g. HippoClientRegion.connect() waiting for RegionHandshake --,
                    # one_shot subscriptions, and handlers returning a truthy value)
                    form = forms[(level, key)]
                    fired = self._make_selfunsub(level, key, form)
                    if form == "wait_for":
                        self.waiters.append(handler.wait_for((key,)))
                    elif form == "one_shot":
                        handler.register(key).subscribe(fired, one_shot=True)
                    else:
                        handler.subscribe(key, fired)
                handler.subscribe(key, self._make_sub(level, "*" if key == "*" else "name"))
                self.events.append(handler.register(key))
        self.qlog = []
        if cfg == "queue":
            self.attach_queue_subscribers()
        self.q_owed: Dict[Tuple[str, int], int] = {}
        self.q_cursor = 0
        self.loop.run_ready()  # start the resend task (first poll, then sleeping)
        # --- reference model -----------------------------------------------------------------------------
        self.violations: List[Dict[str, Any]] = []
        self.peer: Dict[int, Tuple[str, int]] = {}      # id -> (kind, rel), fixed at first arrival
        self.max_peer = 0
        self.carriers = 0
        self.rsends: List[Dict[str, Any]] = []           # client reliable sends
        self.n_sends = 0
        self.last_issued: Optional[int] = None
        self.issued: List[int] = []                      # ids of first transmissions, in wire order
        self.ack_debt: Dict[int, float] = {}
        self.ping_owed: Dict[int, int] = {}
        self.ping_seen: Dict[int, int] = {}
        self.cursor = 0
        self.log_cursor = 0
        self.n_sr = 0
        self.n_sp = 0
        self.last_rx = None      # newest Message object handed to the session-level "*" subscriber
        self.echo_msg = None     # newest delivered peer packet (id 1..3) not yet sent back
        self.dup_receipts = 0
        self.retransmissions = 0
        self.completions = 0

    def reregister(self):
        """The sim goes away and comes back at the SAME address (teleport away and back, region restart): what the
        session's DisableSimulator / CloseCircuit subscribers do (unregister_region), then what its TeleportFinish /
        EstablishAgentCommunication subscriber and connect() do (register_region + open_circuit + is_alive) -- a new
        HippoClientRegion and a new Circuit; the harness re-attaches its region-level subscribers to the new region."""
        old = self.region
        self.session.unregister_region(ADDR)
        self.generation += 1
        region = self.session.register_region(ADDR, seed_url=LOGIN["seed_capability"], handle=old.handle)
        assert region is not old and self.session.open_circuit(ADDR)
        region.circuit.is_alive = True
        self.region, self.circuit = region, region.circuit
        self.events = self.events[:3]  # session-level Events stay
        for key in ("ChatFromSimulator", "*"):
            region.message_handler.subscribe(key, self._make_sub("region", "*" if key == "*" else "name"))
            self.events.append(region.message_handler.register(key))
        # what the old connection had seen stays part of the state (canon): the reset wipes every *visible* trace of it,
        # and "traffic before AND after the re-registration" is the point of this cfg -- histories that differ in it
        # must not be merged with the one that re-registers an untouched region
        self.before_x = (bool(self.peer) or self.carriers > 0, any(rel for _, rel in self.peer.values()),
                         bool(self.rsends), any(r["status"] == "pending" for r in self.rsends))
        # model: a new connection -- both sides start their packet ids over, nothing is outstanding on the new circuit
        self.peer, self.max_peer = {}, 0
        self.rsends, self.issued, self.last_issued = [], [], None
        self.n_sr = self.n_sends = self.n_sp = 0  # the per-history send caps count per connection
        self.ack_debt, self.ping_owed, self.ping_seen = {}, {}, {}
        self.echo_msg = None

    def text(self, p: int) -> str:
        """Chat body of peer packet p: cfg queue gives every packet the SAME body (only ids differ)."""
        return "same" if self.cfg == "queue" else f"m{p}"

    def attach_queue_subscribers(self):
        """cfg queue: a subscribe_async (queue-style) subscriber at session level and at region level, each drained
        by a consumer task that records what it was handed."""
        self.qlog: List[Tuple[str, int]] = []
        self._queue_cms = []
        for level, handler in (("session", self.session.message_handler), ("region", self.region.message_handler)):
            cm = handler.subscribe_async(("ChatFromSimulator",))
            get = cm.__enter__()
            self._queue_cms.append(cm)

            async def _consume(level=level, get=get):
                while True:
                    msg = await get()
                    self.qlog.append((level, msg.packet_id))
            task = self.loop.create_task(_consume())
            self._queue_cms.append(task)
            self.loop.c19_tasks = getattr(self.loop, "c19_tasks", []) + [task]

    def _make_selfunsub(self, level, key, form):
        def _leaver(msg):
            self.selfunsub_fired.append((level, key, form))
            return form == "returns-true"
        return _leaver

    def _make_sub(self, level, which):
        gen = self.generation

        def _sub(msg):
            # a subscriber of a region object that has been unregistered must never be called again
            lvl = level if (level != "region" or gen == self.generation) else "stale-region"
            self.log.append((lvl, which, msg.name, msg.packet_id))
            if level == "session" and which == "*":
                self.last_rx = msg
        return _sub


class Harness:
    copyable = False

    def __init__(self, cfg: str = "solo", mute=(), max_sr: int = MAX_SR, max_su: int = MAX_SU, max_sp: int = MAX_SP):
        assert cfg in CFGS
        self.cfg = cfg
        self.kinds = {"solo": ("chat", "ping"), "shared": ("ping",), "prehandshake": ("chat",),
                      "selfunsub": ("chat", "ping"), "reregister": ("chat",), "queue": ("chat",)}[cfg]
        self.peer_ids = PEER_IDS if cfg not in ("prehandshake", "reregister") else PEER_IDS[:2]
        if cfg in ("selfunsub", "reregister", "queue"):  # differs from solo/shared on the dispatch side only: a thin send side suffices
            max_sr, max_su, max_sp = min(max_sr, 1), 0, 0
        self.site_resend = SITE_RESEND if cfg != "prehandshake" else SITE_RESEND_NOT_ALIVE
        self.mute = set(tuple(m) for m in mute)
        self.max_sr, self.max_su, self.max_sp = max_sr, max_su, max_sp

    def fresh(self) -> World:
        return World(self.cfg)

    def subs_for(self, level: str, name: str):
        if name not in NAME.values():
            return ("*",)
        if name == "StartPingCheck" and level == "region" and self.cfg in ("solo", "reregister", "queue"):
            return ("*",)
        return ("name", "*")

    # ---- alphabet ---------------------------------------------------------------------------------------
    def enabled(self, w: World):
        evs: List[tuple] = []
        ids = self.peer_ids
        missing_below = [p for p in ids if p < w.max_peer and p not in w.peer]
        new_ids = [p for p in (w.max_peer + 1, w.max_peer + 2) if p in ids] + missing_below[-1:]
        for p in ids:
            if p in w.peer:
                kind, rel = w.peer[p]
                if kind == "ping!":
                    continue  # a ping that carried a non-zero OldestUnacked is not offered again (keeps K out of the state)
                if kind == "chat":
                    variants = ((0, 0), (1, 0)) if rel else ((0, 0),)
                else:
                    variants = ((0, 0), (1, 0), (1, 1)) if rel else ((0, 0), (0, 1))
                for resent, defer in variants:
                    evs.append(("R", p, kind, rel, resent, defer, 1))
            elif p in new_ids:
                inorder = (p == w.max_peer + 1)
                if inorder and self.cfg == "solo":
                    # a StartPingCheck whose OldestUnacked says which packet the sim still considers unacked (our ack
                    # was lost): any reliable id it sent, its newest id, newest+1; plain "ping" carries 0
                    ous = sorted({q for q, (_, r) in w.peer.items() if r} | {w.max_peer, w.max_peer + 1}) if w.peer else []
                    for k in ous:
                        evs.append(("R", p, f"ping@{k}", 0, 0, 0, 1))
                for kind in (self.kinds if inorder else self.kinds[:1]):
                    # out-of-order arrival matters only through the id (dedupe), so only one kind arrives out of order
                    # (rel, resent, defer): RESENT on a first arrival only on chat (the receive path never looks at the
                    # kind and the flag together); deferral only where a task is spawned (ping)
                    variants = [(1, 0, 0), (0, 0, 0)]
                    if inorder:
                        variants += [(1, 1, 0)] if kind == "chat" or len(self.kinds) == 1 else []
                        variants += [(1, 0, 1), (0, 0, 1)] if kind == "ping" else []
                    for rel, resent, defer in variants:
                        dev = 0 if (inorder and not resent and not defer) else 1
                        evs.append(("R", p, kind, rel, resent, defer, dev))
        # ids the peer may still ack: pending sends, and a send whose future the caller cancelled (the peer cannot know)
        outstanding = [r["id"] for r in w.rsends if r["status"] in ("pending", "cancelled")]
        idsets: List[Tuple[tuple, int]] = []
        n = len(outstanding)
        for mask in range(1, 1 << n):
            idsets.append((tuple(outstanding[i] for i in range(n) if mask >> i & 1), 0))
        stale = self.stale_id(w)
        if stale is not None and outstanding:
            idsets.append(((stale,), 1))
        dup_carrier = min((p for p, (k, rel) in w.peer.items() if rel), default=None)
        for ids, dev in idsets:
            evs.append(("AP", ids, dev))
            evs.append(("AA", 0, ids, dev))
            if dup_carrier is not None and not dev and len(ids) == n:
                evs.append(("AA", dup_carrier, ids, 1))
        # both ack forms in ONE PacketAck datagram: every (body, appendix) pair of subsets of the outstanding ids with a
        # non-empty appendix -- appendix-only, disjoint splits, overlapping; (body-only is AP above)
        # (not in cfg shared, which differs from solo on the receive/dispatch side only)
        subsets = [tuple(outstanding[i] for i in range(n) if mask >> i & 1) for mask in range(0, 1 << n)]
        for body in (subsets if self.cfg in ("solo", "prehandshake") else ()):
            for app in subsets[1:]:
                disjoint_split = bool(body) and not set(body) & set(app)
                evs.append(("AB", body, app, 0 if disjoint_split else 1))
        # sends of a Message that already carries a packet_id
        if w.n_sp < self.max_sp and self.cfg in ("solo", "prehandshake"):
            last = w.last_issued
            whiches = ["zero"] + (["last"] if last is not None else []) + (["last-1"] if last else []) + ["last+50"]
            for which in whiches:
                # the reliable flag never meets the id logic: both flag values for "last" only, the rest unreliable
                for rel in ((0, 1) if which == "last" or last is None else (0,)):
                    evs.append(("SP", which, rel, 1))
            if w.echo_msg is not None:
                evs.append(("SP", "echo", 1 if int(w.echo_msg.send_flags) & F_REL else 0, 1))
        if self.cfg == "solo" and w.n_cancel < 1:
            # the caller cancels the future of a pending send (what `await asyncio.wait_for(send_reliable(m), 5)` does)
            evs += [("C", i, 1) for i, r in enumerate(w.rsends) if r["status"] == "pending"]
        if self.cfg == "reregister" and w.n_x < 1:
            evs.append(("X",))  # the sim is unregistered and registered again at the same address
        if not w.alive:
            evs.append(("H",))  # the handshake completes: connect() marks the circuit alive
        if w.n_sr < self.max_sr:
            # ack for the id the client will issue next, then (maybe) the send itself
            evs.append(("AP", (w.circuit.packet_id_base if w.last_issued is None else w.last_issued + 1,), 1))
            evs.append(("SR",))
        if w.n_sends - w.n_sr < self.max_su:
            evs.append(("SU",))
        # time matters only through the resend poll; before any reliable send one probe tick is kept (it must be a no-op)
        # and after the last one finished one probe tick is kept as well (nothing may be transmitted again)
        evs += [("T", "short"), ("T", "past"), ("T", "long")] if outstanding else [("T", "past")]
        return evs

    @staticmethod
    def stale_id(w: World) -> Optional[int]:
        """Newest id the client issued that is not an outstanding reliable send (acked, failed, unreliable, PacketAck)."""
        pending = {r["id"] for r in w.rsends if r["status"] in ("pending", "cancelled")}
        return max((i for i in w.issued if i not in pending), default=None)

    def deviation(self, ev) -> int:
        return int(ev[-1]) if ev[0] in ("R", "AP", "AA", "AB", "SP", "C") else 0

    # ---- canonical state ----------------------------------------------------------------------------------
    def canon(self, w: World):
        now = w.loop.time()
        c = w.circuit
        unacked = tuple(sorted(
            (k[0].name, k[1], v.tries_left, round((circuit_mod.dt.datetime.now() - v.last_resent).total_seconds(), 4),
             v.completed.done()) for k, v in c.unacked_reliable.items()))
        ready = sum(1 for h in w.loop._ready if not h._cancelled)
        timers = tuple(sorted(round(h._when - now, 4) for h in w.loop._scheduled if not h._cancelled))
        # a finished send can only matter through "is it ever transmitted again" -> its age / try count are dropped;
        # the carrier counter only picks the (always fresh, never tracked) id of the next ack carrier -> dropped
        sends = tuple((r["id"], r["status"], r["fut"].done()) +
                      ((len(r["tx"]), round(now - r["tx"][-1], 4)) if r["status"] == "pending" else ())
                      for r in w.rsends)
        return (tuple(c.seen_reliable), c.packet_id_base, unacked, c.is_alive, ready, timers,
                tuple(sorted(w.peer.items())), w.max_peer, sends, w.n_sends - w.n_sr, w.n_sr, w.n_sp,
                (w.echo_msg.name, int(w.echo_msg.send_flags) & F_REL) if w.echo_msg is not None else None,
                tuple(len(e) for e in w.events), w.alive, w.generation, w.n_x, w.before_x, w.n_cancel, w.client._resend_task.done(), tuple(sorted(w.q_owed.items())), len(w.qlog) - w.q_cursor,
                w.last_issued,
                self.stale_id(w), tuple(sorted(w.ack_debt)), tuple(sorted(w.ping_owed.items())),
                tuple(sorted(w.ping_seen.items())))

    def nontrivial(self, w: World, hist):
        if w.dup_receipts or w.retransmissions or w.completions:
            return self.canon(w)
        return None

    def observe(self, w: World):
        counts: Dict[tuple, int] = {}
        for level, which, name, pid in w.log:
            counts[(level, which, name)] = counts.get((level, which, name), 0) + 1
        kinds: Dict[str, int] = {}
        for _, data, _ in w.transport.out:
            k = parse_out(data)["name"]
            kinds[k] = kinds.get(k, 0) + 1
        return (tuple(sorted(counts.items())), tuple(sorted(kinds.items())),
                tuple((r["status"], len(r["tx"])) for r in w.rsends))

    # ---- bookkeeping ----------------------------------------------------------------------------------------
    def bad(self, w: World, clause: str, site: str, detail: str):
        if (clause, site) in self.mute:
            return
        w.violations.append({"clause": clause, "site": site, "detail": detail})

    def drain_out(self, w: World) -> List[Dict[str, Any]]:
        """Process datagrams the client put on the wire since the last call; returns the first transmissions."""
        fresh_tx = []
        out = w.transport.out
        while w.cursor < len(out):
            t, data, dst = out[w.cursor]
            w.cursor += 1
            if dst != ADDR:
                self.bad(w, "send-transmits", "Circuit.send_datagram", f"datagram sent to {dst!r}, peer is {ADDR!r}")
            d = parse_out(data)
            d["t"], d["data"] = t, data
            for a in list(d["acks"]) + list(d["ids"]):
                w.ack_debt.pop(a, None)
            if d["name"] == "CompletePingCheck":
                w.ping_seen[d["ping"]] = w.ping_seen.get(d["ping"], 0) + 1
            rec = next((r for r in w.rsends if r["id"] == d["id"] and r["orig"][1:] == data[1:]), None)
            if rec is not None:
                w.retransmissions += 1
                if data[0] != (rec["orig"][0] | F_RESENT):
                    self.bad(w, "retransmit-identity", "Circuit.resend_unacked",
                             f"retransmission of id {rec['id']} has flags {data[0]:#x}, expected "
                             f"{rec['orig'][0] | F_RESENT:#x} (original | RESENT)")
                if rec["status"] in ("cancelled", "cancelled-acked"):
                    pass  # unspecified: a cancelled send may or may not keep being retransmitted
                elif rec["status"] != "pending":
                    self.bad(w, "no-retransmit-after-completion", "Circuit.resend_unacked",
                             f"id {rec['id']} retransmitted at t={t} although its send is {rec['status']}")
                elif t - rec["tx"][-1] < w.interval - EPS:
                    self.bad(w, "retransmit-cadence", "Circuit.resend_unacked",
                             f"id {rec['id']} retransmitted {t - rec['tx'][-1]:.3f}s after the previous transmission, "
                             f"interval is {w.interval}s")
                rec["tx"].append(t)
                if len(rec["tx"]) > BUDGET and not rec["status"].startswith("cancelled"):
                    self.bad(w, "fail-on-budget", "Circuit.resend_unacked",
                             f"id {rec['id']} transmitted {len(rec['tx'])} times, retry budget is {BUDGET}")
                continue
            if w.last_issued is not None and d["id"] <= w.last_issued:
                self.bad(w, "ids-strictly-increase", "Circuit.prepare_message",
                         f"{d['name']} left with packet id {d['id']} after id {w.last_issued} had been issued")
            w.last_issued = d["id"] if w.last_issued is None else max(w.last_issued, d["id"])
            w.issued.append(d["id"])
            fresh_tx.append(d)
        return fresh_tx

    def check_futures(self, w: World):
        now = w.loop.time()
        for r in w.rsends:
            f = r["fut"]
            if r["status"] == "acked" and not r.get("checked"):
                r["checked"] = True
                form = r.get("form", "")
                ok = f.done() and not f.cancelled() and f.exception() is None
                if not ok:
                    state = "pending" if not f.done() else repr(f.exception() if not f.cancelled() else "cancelled")
                    self.bad(w, "complete-on-ack", f"Circuit.collect_acks:{form or 'ack'}",
                             f"ack for id {r['id']} arrived ({form}) but send_reliable's future is {state}")
            elif r["status"] == "pending" and f.done():
                exc = None if f.cancelled() else f.exception()
                if isinstance(exc, TimeoutError):
                    at = r.get("done_at", now)
                    r["status"] = "failed"
                    if len(r["tx"]) != BUDGET or at - r["tx"][-1] < w.interval - EPS:
                        self.bad(w, "fail-on-budget", "Circuit.resend_unacked",
                                 f"id {r['id']} failed with TimeoutError at t={at} after {len(r['tx'])} transmissions "
                                 f"(last at t={r['tx'][-1]}); budget is {BUDGET} transmissions, each waiting "
                                 f"{w.interval}s")
                else:
                    r["status"] = "broken"
                    self.bad(w, "complete-only-on-ack", "Circuit.collect_acks",
                             f"send_reliable's future for id {r['id']} is done ({exc!r}) although no ack carrying "
                             f"{r['id']} arrived")

    def account_log(self, w: World):
        """Subscriber invocations outside a datagram_received call (i.e. from a task) are never expected: the sync
        subscribers are invoked synchronously, exactly the expected number of times (checked in deliver)."""
        for level, which, name, pid in w.log[w.log_cursor:]:
            rel = w.peer[pid][1] if pid in w.peer else 0
            self.bad(w, "dispatch-once" if rel else "unreliable-delivery", "Event.notify:async-task",
                     f"{name} id {pid} ({'reliable' if rel else 'unreliable'}): {level}-level sync subscriber [{which}] "
                     f"invoked once more from a task, after datagram_received had already invoked it")
        w.log_cursor = len(w.log)

    def end_of_step(self, w: World, quiescent: bool):
        self.drain_out(w)
        self.account_log(w)
        task = w.client._resend_task
        if task is not None and task.done() and not w.resend_task_dead:
            w.resend_task_dead = True
            exc = None if task.cancelled() else task.exception()
            self.bad(w, "no-exception", "HippoClient._attempt_resends",
                     f"the resend task ended ({exc!r}): no pending send is retransmitted or failed any more")
        self.check_futures(w)
        now = w.loop.time()
        for r in w.rsends:
            if r["status"] != "pending":
                continue
            if now - r["tx"][-1] >= w.interval + POLL_SLACK + EPS:
                if len(r["tx"]) < BUDGET:
                    self.bad(w, "retransmit-cadence", self.site_resend,
                             f"id {r['id']} unacked, last transmitted at t={r['tx'][-1]}, now t={now}: no retransmission "
                             f"within interval {w.interval}s (+{POLL_SLACK}s poll); {len(r['tx'])}/{BUDGET} tries used")
                else:
                    self.bad(w, "fail-on-budget", self.site_resend,
                             f"id {r['id']}: all {BUDGET} transmissions unanswered, last at t={r['tx'][-1]}, now t={now}, "
                             f"future still pending")
                r["status"] = "broken"
        if quiescent:
            for p in sorted(w.ack_debt):
                self.bad(w, "ack-every-receipt", SITE_ACK,
                         f"reliable packet id {p} received at t={w.ack_debt[p]} but no PacketAck / appended ack "
                         f"containing {p} was sent afterwards")
            w.ack_debt.clear()
            for p in sorted(set(w.ping_owed) | set(w.ping_seen)):
                owed, seen = w.ping_owed.get(p, 0), w.ping_seen.get(p, 0)
                if seen == owed:
                    continue
                rel = w.peer.get(p, ("ping", 0))[1]
                if seen > owed:
                    clause = "dispatch-once" if rel else "unreliable-delivery"
                else:
                    clause = "dispatch-first-receipt" if rel else "unreliable-delivery"
                self.bad(w, clause, SITE_PING,
                         f"StartPingCheck id {p} ({'reliable' if rel else 'unreliable'}): async region subscriber "
                         f"answered {seen} time(s) since the last quiescence, expected {owed}")
            w.ping_owed.clear()
            w.ping_seen.clear()
            if self.cfg == "queue":
                seen: Dict[Tuple[str, int], int] = {}
                for e in w.qlog[w.q_cursor:]:
                    seen[e] = seen.get(e, 0) + 1
                w.q_cursor = len(w.qlog)
                for key in sorted(set(seen) | set(w.q_owed)):
                    got, owed = seen.get(key, 0), w.q_owed.get(key, 0)
                    if got == owed:
                        continue
                    level, p = key
                    rel = w.peer[p][1] if p in w.peer else 0
                    clause = ("unreliable-delivery" if not rel else
                              "dispatch-once" if got > owed else "dispatch-first-receipt")
                    self.bad(w, clause, f"{SITE_QUEUE}:{level}-queue",
                             f"ChatFromSimulator id {p} ({'reliable' if rel else 'unreliable'}): the {level}-level "
                             f"subscribe_async consumer was handed it {got} time(s) since the last quiescence, expected "
                             f"{owed} (all chat bodies are equal in this cfg, only the packet ids differ)")
                w.q_owed.clear()

    # ---- transitions ------------------------------------------------------------------------------------------
    def deliver(self, w: World, data: bytes, pid: int, name: str, rel: int, first: bool, acks=(), form: str = "",
                forms: Optional[Dict[int, str]] = None):
        for r in w.rsends:
            if r["status"] == "pending" and r["id"] in acks:
                r["status"] = "acked"
                r["form"] = (forms or {}).get(r["id"], form)
                w.completions += 1
            elif r["status"] == "cancelled" and r["id"] in acks:
                r["status"] = "cancelled-acked"  # no demand on the (cancelled) future; everything else must go on
        self.account_log(w)
        n0 = len(w.log)
        try:
            w.proto.datagram_received(data, ADDR)
        except Exception as e:  # the statement gives no licence to drop a well-formed datagram with an exception
            self.bad(w, "no-exception", "HippoClientProtocol.datagram_received", f"{name} id {pid}: raised {e!r}")
        self.check_futures(w)
        new = w.log[n0:]
        w.log_cursor = len(w.log)
        expect = 1 if (not rel or first) else 0
        for level, site in (("session", SITE_SESSION), ("region", SITE_REGION)):
            for which in self.subs_for(level, name):
                got = sum(1 for e in new if e == (level, which, name, pid))
                if got == expect:
                    continue
                if rel:
                    clause = "dispatch-once" if got > expect else "dispatch-first-receipt"
                else:
                    clause = "unreliable-delivery"
                what = "first receipt" if first else "repeated receipt"
                self.bad(w, clause, site,
                         f"{name} id {pid} ({'reliable' if rel else 'unreliable'}, {what}): {level}-level "
                         f"subscriber [{which}] invoked {got} time(s), expected {expect}")
        stale = [e for e in new if e[0] == "stale-region"]
        if stale:
            self.bad(w, "dispatch-once", SITE_STALE_REGION,
                     f"{name} id {pid}: subscribers of the unregistered region object were called: {stale!r}")
        stray = [e for e in new if e[3] != pid]
        if stray:
            self.bad(w, "dispatch-once", "HippoClientProtocol.datagram_received:stray", f"subscribers saw {stray!r}")
        if rel:
            w.ack_debt[pid] = w.loop.time()
        if name == "StartPingCheck":
            w.ping_owed[pid] = w.ping_owed.get(pid, 0) + expect
        if self.cfg == "queue" and name == "ChatFromSimulator":
            for level in ("session", "region"):
                w.q_owed[(level, pid)] = w.q_owed.get((level, pid), 0) + expect
        return expect

    def burst(self, w: World, n: int):
        """Macro event: n unreliable ChatFromSimulator packets with fresh ids in a row (lean loop, bulk oracle)."""
        base = bytearray(peer_datagram("ChatFromSimulator", 0, 0, text="burst"))
        first_id = CARRIER_BASE + w.carriers + 1
        w.carriers += n
        self.account_log(w)
        n0 = len(w.log)
        for pid in range(first_id, first_id + n):
            base[1:5] = pid.to_bytes(4, "big")
            try:
                w.proto.datagram_received(bytes(base), ADDR)
            except Exception as e:
                self.bad(w, "no-exception", "HippoClientProtocol.datagram_received", f"burst packet id {pid}: raised {e!r}")
                break
        new = w.log[n0:]
        w.log_cursor = len(w.log)
        for level, site in (("session", SITE_SESSION), ("region", SITE_REGION)):
            for which in self.subs_for(level, "ChatFromSimulator"):
                got = sum(1 for e in new if e[:3] == (level, which, "ChatFromSimulator") and first_id <= e[3] < first_id + n)
                if got != n:
                    self.bad(w, "unreliable-delivery", site,
                             f"burst of {n} unreliable packets: {level}-level subscriber [{which}] invoked {got} time(s)")
        self.check_futures(w)

    def step(self, w: World, ev):
        self.drain_out(w)
        kind = ev[0]
        quiescent = True
        if kind == "R":
            _, p, k, rel, resent, defer, _dev = ev
            first = p not in w.peer
            if "@" in k:
                assert first and not rel
            if not first:
                assert w.peer[p] == (k, rel), f"id {p} was {w.peer[p]}, event says {(k, rel)}"
                if rel:
                    w.dup_receipts += 1
            w.peer.setdefault(p, ("ping!" if "@" in k else k, rel))
            w.max_peer = max(w.max_peer, p)
            flags = (F_REL if rel else 0) | (F_RESENT if resent else 0)
            data = peer_datagram(kind_name(k), p, flags, text=w.text(p), ping=p, ou=kind_ou(k))
            w.last_rx = None
            self.deliver(w, data, p, kind_name(k), rel, first)
            if w.last_rx is not None and w.last_rx.packet_id == p:
                w.echo_msg = w.last_rx
            quiescent = not defer
        elif kind in ("AP", "AA"):
            ids = tuple(ev[1] if kind == "AP" else ev[2])
            if kind == "AP":
                w.carriers += 1
                pid = CARRIER_BASE + w.carriers
                data = peer_datagram("PacketAck", pid, 0, ids=ids)
                self.deliver(w, data, pid, "PacketAck", 0, True, acks=ids, form="PacketAck")
            elif ev[1] == 0:
                w.carriers += 1
                pid = CARRIER_BASE + w.carriers
                data = peer_datagram("ChatFromSimulator", pid, 0, acks=ids, text=f"c{pid}")
                self.deliver(w, data, pid, "ChatFromSimulator", 0, True, acks=ids, form="appended")
            else:
                p = ev[1]
                k, rel = w.peer[p]
                assert rel
                w.dup_receipts += 1
                data = peer_datagram(kind_name(k), p, F_REL | F_RESENT, acks=ids, text=w.text(p), ping=p, ou=kind_ou(k))
                self.deliver(w, data, p, kind_name(k), 1, False, acks=ids, form="appended-on-duplicate")
        elif kind == "AB":
            # one PacketAck datagram using both forms at once: ids in its Packets blocks AND ids appended after the body
            body, app = tuple(ev[1]), tuple(ev[2])
            w.carriers += 1
            pid = CARRIER_BASE + w.carriers
            filler = (w.last_issued if w.last_issued is not None else 0) + 1000  # a PacketAck needs >= 1 block
            data = peer_datagram("PacketAck", pid, 0, acks=app, ids=body or (filler,))
            forms = {i: "PacketAck+appendix:body" for i in body}
            forms.update({i: "PacketAck+appendix:appended" for i in app if i not in body})
            forms.update({i: "PacketAck+appendix:both" for i in app if i in body})
            self.deliver(w, data, pid, "PacketAck", 0, True, acks=body + app, forms=forms)
        elif kind == "SP":
            # client sends a Message object that already carries a packet_id (Message(..., packet_id=N), or a received
            # message turned around by a subscriber); it must leave with a fresh sequential id like any other send
            _, which, rel, _dev = ev
            w.n_sp += 1
            site = f"Circuit.send:preset-id-{which}"
            if which == "echo":
                msg = w.echo_msg
                w.echo_msg = None
                msg.direction = Direction.OUT
                msg.send_flags = PacketFlags(int(msg.send_flags) & F_REL)
                preset = msg.packet_id
            else:
                last = w.last_issued
                preset = {"zero": 0, "last": last, "last-1": (last or 0) - 1, "last+50": (last or 0) + 50}[which]
                msg = Message(
                    "ChatFromViewer",
                    Block("AgentData", SessionID=w.session.id, AgentID=w.session.agent_id),
                    Block("ChatData", Message=f"p{w.n_sp}", Channel=0, Type=1),
                    packet_id=preset, flags=PacketFlags.RELIABLE if rel else PacketFlags(0),
                )
            try:
                w.circuit.send(msg)
            except Exception as e:
                self.bad(w, "send-transmits", site, f"Message with preset packet_id {preset}: send raised {e!r}")
            sent = self.drain_out(w)
            if len(sent) != 1 or bool(sent[0]["flags"] & F_REL) != bool(rel) or sent[0]["flags"] & F_RESENT:
                self.bad(w, "send-transmits", site,
                         f"Message with preset packet_id {preset}: expected exactly one datagram, reliable={bool(rel)}, "
                         f"got {[(d['name'], d['id'], hex(d['flags'])) for d in sent]}")
        elif kind in ("SR", "SU"):
            w.n_sends += 1
            reliable = kind == "SR"
            w.n_sr += int(reliable)
            msg = Message(
                "ChatFromViewer",
                Block("AgentData", SessionID=w.session.id, AgentID=w.session.agent_id),
                Block("ChatData", Message=f"{'r' if reliable else 'u'}{w.n_sends}", Channel=0, Type=1),
            )
            fut = None
            try:
                if reliable:
                    fut = w.circuit.send_reliable(msg)
                else:
                    w.circuit.send(msg)
            except Exception as e:
                self.bad(w, "send-transmits", "Circuit.send_reliable" if reliable else "Circuit.send", f"raised {e!r}")
            sent = [d for d in self.drain_out(w) if d["name"] == "ChatFromViewer"]
            site = "Circuit.send_reliable" if reliable else "Circuit.send"
            if len(sent) != 1 or bool(sent[0]["flags"] & F_REL) != reliable or sent[0]["flags"] & F_RESENT:
                self.bad(w, "send-transmits", site,
                         f"expected exactly one ChatFromViewer datagram, reliable={reliable}, got "
                         f"{[(d['id'], hex(d['flags'])) for d in sent]}")
            if reliable and fut is not None and sent:
                d = sent[0]
                rec = {"id": d["id"], "orig": d["data"], "tx": [d["t"]], "status": "pending", "fut": fut}
                loop = w.loop
                fut.add_done_callback(lambda f, rec=rec, loop=loop: rec.__setitem__("done_at", loop.time()))
                w.rsends.append(rec)
        elif kind == "C":
            rec = w.rsends[ev[1]]
            assert rec["status"] == "pending"
            w.n_cancel += 1
            rec["status"] = "cancelled"
            rec["fut"].cancel()
        elif kind == "X":
            w.loop.run_ready()
            self.drain_out(w)
            w.n_x += 1
            w.reregister()
        elif kind == "B":
            self.burst(w, int(ev[1]))
        elif kind == "H":
            # what HippoClientRegion.connect() does once the ack for UseCircuitCode is in
            w.circuit.is_alive = True
            w.alive = True
        elif kind == "T":
            w.loop.advance(w.ticks[ev[1]])
        else:  # pragma: no cover
            raise ValueError(ev)
        if quiescent:
            w.loop.run_ready()
        self.end_of_step(w, quiescent)


def dedupe_window() -> Optional[int]:
    """Size of the circuit's resend-suppression window, measured through the public Circuit.track_reliable alone: the
    smallest k such that after id 0 and k further fresh ids, id 0 counts as new again.  None = not reached by 5000."""
    from hippolyzer.lib.base.message.circuit import Circuit

    def evicted_after(k: int) -> bool:
        c = Circuit(("127.0.0.1", 0), ADDR, None)
        c.track_reliable(0)
        for i in range(1, k + 1):
            c.track_reliable(i)
        return bool(c.track_reliable(0))

    lo, hi = 0, None  # not evicted after lo; evicted after hi
    for k in (1, 10, 100, 999, 1000, 1001, 2000, 5000):
        if evicted_after(k):
            hi = k
            break
        lo = k
    if hi is None:
        return None
    while hi - lo > 1:  # eviction is monotone in k
        mid = (lo + hi) // 2
        if evicted_after(mid):
            hi = mid
        else:
            lo = mid
    return hi


def _window_case(item):
    """Worker: one scenario of the dedupe-window family."""
    from hmc.core import Part
    hist = item
    part = Part()
    h = Harness("solo")
    w = h.fresh()
    for ev in hist:
        w.violations = []
        h.step(w, ev)
        for v in w.violations:
            part.violation(v["clause"], v["site"], {"cfg": "solo", "history": [list(e) for e in hist]}, v.get("detail", ""))
    part.count("evaluations")
    part.count("window_scenarios")
    part.mark_nontrivial(("window", hist))
    part.outcome(("window", len(w.log), len(w.transport.out)))
    return part.dump()


def window_family(run: Run):
    """Bounded-exhaustive scenario family for the dedupe window (a BFS cannot afford ~1000-event histories):
    reliable ids {1} | {1,2} (chat | ping) arrive, a burst of N unreliable packets with fresh ids follows,
    N in {W-1, W, W+1} (W = measured window; thorough adds 1 and 2W+1), then every reliable id is retransmitted (with /
    without RESENT): unreliable traffic must not evict reliable ids from the window, so nothing is delivered twice and
    everything is acked again.  (More than W *reliable* packets in between is out of scope: bounded memory.)"""
    from hmc.core import pmap
    w_size = dedupe_window()
    run.coverage_extra["dedupe_window_measured"] = w_size
    base = w_size if w_size is not None else 1000
    lengths = [base - 1, base, base + 1] + ([] if run.tier == "quick" else [1, 2 * base + 1])
    items = []
    for ids in ((1,), (1, 2)):
        for kind in ("chat", "ping"):
            for n in lengths:
                for resent in (0, 1):
                    hist = [("R", p, kind, 1, 0, 0, 0) for p in ids] + [("B", n)]
                    hist += [("R", p, kind, 1, resent, 0, 1) for p in ids]
                    items.append(tuple(hist))
    # aliasing ids: a reliable packet with id a, ONE other reliable packet whose id is a + delta, then a is retransmitted.  delta runs over every
    # power of two up to 2^24, their neighbours, and the decimal window sizes: whatever index structure backs the dedupe window (ring, hash
    # slots, bitmask, modulus), two ids that collide in it must still be told apart -- one packet in between is far inside any window.
    deltas = sorted({d for k in range(0, 25) for d in (2 ** k - 1, 2 ** k, 2 ** k + 1) if d > 0} | {base - 1, base, base + 1, 10 * base, 999, 1000, 1001, 10000})
    n_alias = 0
    for a in (1, 5):
        for delta in deltas:
            for kind in (("chat",) if run.tier == "quick" else ("chat", "ping")):
                for order in (0, 1):  # which of the two ids arrives first
                    first, second = (a, a + delta) if order == 0 else (a + delta, a)
                    hist = [("R", first, kind, 1, 0, 0, 0), ("R", second, kind, 1, 0, 0, 0),
                            ("R", first, kind, 1, 1, 0, 1), ("R", second, kind, 1, 1, 0, 1)]
                    items.append(tuple(hist))
                    n_alias += 1
    run.coverage_extra["alias_id_scenarios"] = n_alias
    run.coverage_extra["alias_id_deltas"] = deltas
    for d in pmap(_window_case, items, run.jobs):
        run.merge(d)
    run.coverage_extra["window_scenarios"] = len(items)
    run.sample({"harness": "window-family", "history": [list(e) for e in items[0]]})


def run(run: Run):
    quick = run.tier == "quick"
    depth = QUICK_DEPTH if quick else 7
    devb = 3
    run.rule = (
        "explicit-state BFS over {peer datagram id 1..3 x chat|ping x reliable|unreliable x RESENT x defer-tasks, peer acks "
        "(PacketAck | appended, on a fresh packet or on a duplicate) for every non-empty subset of outstanding ids or one stale/"
        "future id, PacketAck datagrams carrying body ids AND appended ids (every body/appendix pair of subsets), client "
        "send_reliable / send / send of a Message with a preset packet_id (0, last, last-1, last+50, a received message sent "
        "back), Tick short|past|long} on the real HippoClientProtocol + Session + Region + "
        "Circuit + resend task under a virtual loop/clock; states deduplicated on (seen_reliable, unacked table with tries "
        "and ages, packet_id_base, loop ready/timer phases, model); non-trivial = distinct states whose history contains a "
        "repeated receipt of a reliable id, a retransmission by the client, or a completed reliable send")
    run.assumptions += [
        "cfg solo/shared: circuit is live (is_alive=True as after the handshake); one region; packet-id wrap-around and "
        "the 1000-entry dedupe window are far outside the universe",
        "a peer never reuses a packet id for a different message; ack carriers use fresh ids >= 100",
        "acks / ping replies are demanded by the next quiescent point of the loop, not synchronously",
        f"cadence and failure time are allowed to be late by one resend-poll period ({POLL_SLACK}s); never early",
        f"retry budget {BUDGET} read from ReliableResendInfo.tries_left default, interval from Circuit.resend_every",
        "outgoing datagrams are read with an independent header/PacketAck decoder; incoming ones are encoded by hmc.refwire",
        "harness-side patches of the library: MessageDotXML() memoized (read-only table), Message's templates.py mtime "
        "reload disabled (the shared /repo is committed to while checks run)",
    ]
    run.assumptions.append(
        f"at most {MAX_SR} send_reliable and {MAX_SU} unreliable client sends per history; subscriber configurations: "
        "'solo' (region-level StartPingCheck Event holds only the built-in async handler; chat+ping alphabet) and "
        "'shared' (a sync region-level StartPingCheck subscriber shares that Event; ping-only alphabet); plus "
        "'prehandshake' (circuit left as open_circuit() creates it, is_alive=False, i.e. while UseCircuitCode is in "
        "flight; chat packets with ids 1..2 arrive before and after the event 'handshake completes' = is_alive:=True as "
        "connect() does; the code documents no special treatment of traffic on a not-yet-alive circuit -- "
        "datagram_received never reads is_alive -- so ack/dedupe/delivery are asserted as on a live circuit; "
        f"overdue-clauses carry the site {SITE_RESEND_NOT_ALIVE!r}); 'selfunsub' (a wait_for waiter / one_shot / "
        "returns-True subscriber registered ahead of the persistent subscriber on each Event, both levels; "
        "connect()'s own RegionHandshake wait_for is represented by the same mechanism on ChatFromSimulator / "
        "StartPingCheck, connect() itself is not run); "
        f"at most {MAX_SP} send of a Message with a preset packet_id per history; "
        "a send whose future the caller cancelled makes no further demands (retransmission unspecified), all other clauses "
        "continue to hold; 'reregister' (unregister_region + register_region/open_circuit at the same address once per history; a new "
        "connection restarts packet ids on both sides; sends pending on the torn-down circuit are out of scope); "
        "dedupe-window family: only UNRELIABLE traffic lies between a reliable packet and its retransmission (a "
        "retransmission after more than `window` reliable packets may legitimately be re-delivered); window size measured "
        "through Circuit.track_reliable")
    muted_all = {}
    for cfg in CFGS:
        n0, keys0 = len(run.violations), dict(run._viol_keys)
        # the two cfgs added for one mechanism each (not-yet-alive circuit, self-unsubscribing subscribers) stop one event
        # short of the thorough horizon; quick searches all four to the same depth
        d = depth if cfg in ("solo", "shared") else max(QUICK_DEPTH, depth - 1)
        if cfg == "reregister":
            d += 1  # thin alphabet; traffic is needed on both sides of the re-registration
        # pass 1 (all clauses) runs to the quick horizon: it names the (clause, site) pairs that fail on this tree.
        # The explorer never extends a violating history, so pass 2 re-explores to the full horizon with exactly those
        # pairs muted (every other clause stays armed): what lies *behind* a known violation is still searched.
        d1 = min(d, QUICK_DEPTH)
        explore.bfs(run, Harness(cfg), depth=d1, dev_bound=devb, label=f"cfg={cfg} all-clauses ")
        found = sorted(k for k, n in run._viol_keys.items() if n > keys0.get(k, 0))
        if found or d > d1:
            explore.bfs(run, Harness(cfg, mute=found), depth=d, dev_bound=devb,
                        label=f"cfg={cfg} " + ("behind-found-violations " if found else "all-clauses-full-depth "))
        if found:
            muted_all[cfg] = [list(f) for f in found]
        for v in run.violations[n0:]:
            v["witness"]["cfg"] = cfg
    window_family(run)
    run.coverage_extra["muted_in_second_pass"] = muted_all
    run.coverage_extra["depth"] = depth
    run.coverage_extra["deviation_bound"] = devb
    run.coverage_extra["retry_budget"] = BUDGET
    run.coverage_extra["wall"] = f"{time.time() - run.t0:.0f}s"
    for v in run.violations:  # shrink witnesses (replay applies every step; muting is only an explorer concern)
        try:
            small = explore._minimise_tuples(Harness(v["witness"]["cfg"]), v["witness"]["history"], v["clause"], v["site"])
            v["witness"]["history"] = [list(e) for e in small]
        except Exception as e:  # best effort
            run.notes.append(f"minimise failed: {e!r}")


def replay(witness):
    return explore.replay_history(Harness(witness.get("cfg", "solo")), witness["history"])

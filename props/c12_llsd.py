"""C12 -- LLSD forms are faithful (bounded-exhaustive enumeration, DESIGN §4 C12).

Three enumerated families, all finite and written out below:

MESSAGES OVER LLSD (family "msg").  For each of the 481 templates: every value row (row k gives every variable the k-th
element of its wire-type alphabet, so every alphabet element of every variable occurs), Variable-block counts {0,2,255} +
mixed counts, every trailing-block omission (hmc.msggen).  The value domain is restricted to what LLSD/XML can carry:
finite floats, text without the code points XML 1.0 forbids (the generator's "a\\0b" row is dropped; XML-significant and
whitespace-only rows are added), bytes for binary fields.  Routes: serialize(as_dict=True) -> deserialize; serialize() (XML
bytes) -> deserialize; EventQueueManager.inject_message on a real Session/ProxiedRegion with a recording transport.
  clause msg-llsd-roundtrip   dict route: same block names (in order), multiplicities and values (floats bit-exact, vectors by
                              class+components, str stays str, bytes stay bytes)
  clause msg-xml-roundtrip    the same through the XML bytes
  clause msg-llsd-input-intact  serialize() does not change the Message and deserialize(dict) does not change the caller's
                              dict (deep canonical snapshot before/after)
  clause msg-llsd-repeatable  serialize twice on one Message gives identical output; deserialize twice on one dict object both
                              succeed and equal the original; deserialize(d) then format_xml(d) -> deserialize equals it too
                              (http_event_manager deserializes an event and then forwards the same dict as XML)
  clause msg-llsd-history-independent  (family "hist") for every template with >= 2 blocks or a Variable block and every pair
                              (m_small, m_full) -- m_small = each trailing-block omission / Variable counts 0 / one Variable block
                              left out, m_full = every block present -- every ordered pair (incl. repeats) of the 5 operations
                              {serialize(small), deserialize(dict small), serialize(full), deserialize(dict full), deserialize(xml
                              full)} on ONE serializer instance gives, for each operation, exactly what a FRESH instance gives
                              for the same input; the same for two inject_message calls on one EventQueueManager (its long-lived
                              serializer).  Site "LLSDMessageSerializer:<op1>-then-<op2>:<MVT type | block:<name> | raises>".
                              Families msg / hist use a fresh serializer and a fresh EventQueueManager per case, so no history
                              leaks between cases.
  clause msg-eq-snapshot      (family "eqsnap") the queue holds each message AS INJECTED: on a real EventQueueManager, for every
                              template, every start row k and every sequence over {I = inject_message(m), M = rewrite every
                              variable of the same Message object in place with the next value row} starting with I, of length
                              <= 3 (thorough <= 4), take_injected_events() yields one event per I (and one wake-up datagram per
                              I) and event i deserializes to the value row m held at the i-th injection.  Site
                              "EventQueueManager.inject_message:<sequence>:<MVT type>".
  clause msg-eq-inject        the injected event equals the serializer output (value and LLSD type), exactly one event is
                              queued and exactly one PlacesQuery wake-up datagram is sent

LLSD CODECS (family "tree").  All LLSD trees of depth <= D over the leaf alphabet LEAVES and the containers {array, map} of
size 0..2; size-2 containers take each-choice sibling pairs (child i with child i+1 of the previous level, so every subtree
occurs in both positions); map keys cycle through KEYS.  quick: D = 3.  thorough: additionally the *full* sibling cross
product at depth 2 and D = 4 (quick's tree set is a subset).  x codecs {binary+header, binary, BinaryLLSD spec through a
BufferReader with a trailing sentinel, notation, XML, zip/unzip} x process TZ {UTC, America/Los_Angeles, Europe/London,
Australia/Lord_Howe} (TZ is switched with os.environ + time.tzset() inside forked worker processes only).
  clause llsd-roundtrip-completes   formatter and parser do not raise
  clause llsd-type-preserved        the parsed node has the same LLSD type (undef/bool/int/real/string/uri/binary/uuid/date/
                                    array/map; the library's vector classes are arrays of reals)
  clause llsd-value-preserved       ... and the same value (reals bit-exact incl. -0.0; maps as unordered key sets)
  clause llsd-date-instant          a date denotes the same instant (naive datetimes denote UTC, which is what the XML and
                                    notation forms write) in every process TZ
  clause binaryllsd-framing         BinaryLLSD.deserialize consumes exactly the bytes BinaryLLSD.serialize wrote
  clause notation-no-raw-newline    b"\\n" not in format_notation(v) (no leaf but strings / map keys contains a newline)
Sites are "<function>:<leaf kind>"; for the binary family an independent reference encoder decides whether the formatter
("format_binary:...") or the parser ("parse_binary:..." / "unzip_llsd:..." / "BinaryLLSD.deserialize:...") is to blame.
An exception in a nested tree is attributed to the leaves of that tree which fail on their own with the same codec and
stage; otherwise to "<function>:nested:<shape of the smallest subtree that still fails>".  When the XML/notation parser
rejects a date whose formatted text is not an LLSD date (YYYY-MM-DDTHH:MM:SS[.f]Z) the site is the formatter.

REALS (family "real").  Besides the real / vector leaves of the tree alphabet (which include F32-widened doubles: non-dyadic
fractions, whole numbers above 2**24, FLT_MAX/FLT_MIN/denormals, and Vector2/3/4/Quaternion made of them), a sweep: every
finite F32 exponent (denormals included) x 8 mantissa patterns x both signs widened to double, and every finite F64 exponent
(quick: every 16th) x 6 mantissa patterns x both signs, through all 6 codecs, compared bit-exactly.  Clause
llsd-value-preserved, site "<codec or function>:real-f32-sweep" / "...:real-f64-sweep".

DATE MICROSECONDS (family "us").  The tree alphabet only uses microsecond values that are exact in binary; the sub-second
digits are swept separately: every microsecond value 0..999_999 (quick: 0..19_999) of one naive-UTC date through
{binary, notation, XML}, TZ=UTC.  Clause llsd-date-instant, site "<parser>:date-microseconds".

Deviations from DESIGN: (1) the reference for *what the value is* is a tagged canonical form written here, not `==` of
Python objects (`uri("x") == "x"`, `True == 1` would hide type loss).  (2) map keys containing a newline are reported under
their own site `format_notation:map-key` (the statement says "string value"; whether a key counts is flagged in the report).
(3) inject_message is only exercised when serialize() itself succeeds (otherwise there is no serializer output to compare).
(4) value rows are built from msggen's primitives under one fixed LLUDP header (the header is not part of the LLSD form), so
msggen's header cycling / zero-coding twin rows do not multiply identical LLSD cases.
"""
from __future__ import annotations

import datetime
import multiprocessing as mp
import os
import re
import struct
import time
import uuid as std_uuid
from typing import Any, Dict, List, Tuple

from hippolyzer.lib.base import llsd
from hippolyzer.lib.base import serialization as se
from hippolyzer.lib.base.datatypes import UUID, Quaternion, Vector2, Vector3, Vector4
from hippolyzer.lib.base.message.data_packer import LLSDDataPacker
from hippolyzer.lib.base.message.llsd_msg_serializer import LLSDMessageSerializer
from hippolyzer.lib.base.message.template_dict import DEFAULT_TEMPLATE_DICT

from hmc import msggen
from hmc.core import Part, Run
from props.c01_lludp_codec import same_value

LEVEL = "exploration"

TZS = ["UTC", "America/Los_Angeles", "Europe/London", "Australia/Lord_Howe"]
CODECS = ["binary+header", "binary", "BinaryLLSD", "notation", "xml", "zip"]
UTC = datetime.timezone.utc
_EPOCH = datetime.datetime(1970, 1, 1, tzinfo=UTC)


# =====================================================================================================================
# Reference model of an LLSD value: tagged canonical form (plain tuples), independent of the code under test.
# =====================================================================================================================
def _bits(f: float) -> str:
    return struct.pack(">d", f).hex()


def _instant_us(dt: datetime.datetime) -> int:
    """Microseconds since the epoch; naive = UTC (LLSD dates are UTC).  Pure aware-datetime arithmetic: no tz database."""
    if dt.tzinfo is None:
        dt = dt.replace(tzinfo=UTC)
    return (dt - _EPOCH) // datetime.timedelta(microseconds=1)


def canon(x: Any):
    """Canonical form of a *parsed* Python value, by the LLSD type its Python type stands for."""
    if x is None:
        return ("undef",)
    if isinstance(x, bool):
        return ("bool", x)
    if isinstance(x, int):
        return ("int", int(x))
    if isinstance(x, float):
        return ("real", _bits(x))
    if isinstance(x, llsd.uri):
        return ("uri", str(x))
    if isinstance(x, str):
        return ("string", str(x))
    if isinstance(x, (bytes, bytearray)):
        return ("binary", bytes(x))
    if isinstance(x, std_uuid.UUID):
        return ("uuid", x.bytes)
    if isinstance(x, datetime.datetime):
        return ("date", _instant_us(x))
    if isinstance(x, datetime.date):
        return ("date", _instant_us(datetime.datetime(x.year, x.month, x.day)))
    if isinstance(x, list):
        return ("array", [canon(c) for c in x])
    if isinstance(x, dict):
        return ("map", {k: canon(v) for k, v in x.items()})
    return ("unknown", type(x).__name__ + ":" + repr(x)[:80])


# ---- leaf alphabet: name -> (kind, builder of the Python input, expected canonical form) ---------------------------
_U = bytes(range(1, 17))
_B300 = bytes((i * 7 + 1) % 256 for i in range(300))


def _dt(*a, tz=None):
    return datetime.datetime(*a, tzinfo=tz)


_OFF = datetime.timezone(datetime.timedelta(hours=10, minutes=30))


def _days(y, m, d) -> int:
    """days from civil (proleptic Gregorian) -- written out so that expected instants do not come from datetime."""
    y -= m <= 2
    era = (y if y >= 0 else y - 399) // 400
    yoe = y - era * 400
    doy = (153 * (m + (-3 if m > 2 else 9)) + 2) // 5 + d - 1
    doe = yoe * 365 + yoe // 4 - yoe // 100 + doy
    return era * 146097 + doe - 719468


def _us(y, mo, d, h=0, mi=0, s=0, us=0, off_min=0) -> int:
    return ((_days(y, mo, d) * 86400 + h * 3600 + mi * 60 + s) - off_min * 60) * 1_000_000 + us


def _vec(*c):
    return ("array", [("real", _bits(float(v))) for v in c])


LEAVES: Dict[str, Tuple[str, Any, Any]] = {}


def _leaf(name, kind, build, exp):
    LEAVES[name] = (kind, build, exp)


_leaf("undef", "undef", lambda: None, ("undef",))
_leaf("true", "bool", lambda: True, ("bool", True))
_leaf("false", "bool", lambda: False, ("bool", False))
for _n in (0, 1, -1, 2 ** 31 - 1, -2 ** 31, 2 ** 31 - 2, -2 ** 31 + 1, 0x01020304):
    _leaf(f"int:{_n}", "int", (lambda n=_n: n), ("int", _n))
for _f in (0.0, -0.0, 1.0, -1.5, 0.1, 1e300, 5e-324, 1.7976931348623157e308, 123456789.125, -2.5e-10):
    _leaf(f"real:{_f!r}", "real", (lambda f=_f: f), ("real", _bits(_f)))
for _n, _k, _s in (("empty", "string-empty", ""), ("ascii", "string", "abc"), ("unicode", "string-unicode", "héllo ✓ \U0001f600"),
                   ("newline", "string-newline", "line1\nline2\n"), ("cr", "string-CR", "a\rb"), ("crlf", "string-CR", "a\r\nb"),
                   ("quotes", "string-quotes", "it's \"q\""), ("backslash", "string-backslash", "a\\b\\\\c\\"),
                   ("backslash-n", "string-backslash", "a\\nb"), ("xmlish", "string-xml", "<a>&amp;]]>"),
                   ("space", "string-space", "  x \t")):
    _leaf(f"str:{_n}", _k, (lambda s=_s: s), ("string", _s))
for _n, _s in (("http", "http://example.com/a?b=c&d=%20"), ("empty", ""), ("quote", "x:\"y\"'z'")):
    _leaf(f"uri:{_n}", "uri", (lambda s=_s: llsd.uri(s)), ("uri", _s))
for _n, _b in (("empty", b""), ("nul", b"\x00"), ("text", b"abc"), ("nonutf8", b"\xff\xfe\x00'\"\n"), ("300", _B300)):
    _leaf(f"bin:{_n}", "binary", (lambda b=_b: b), ("binary", _b))
_leaf("uuid:std", "uuid-stdlib", lambda: std_uuid.UUID(bytes=_U), ("uuid", _U))
_leaf("uuid:std-zero", "uuid-stdlib", lambda: std_uuid.UUID(int=0), ("uuid", b"\x00" * 16))
_leaf("uuid:hippo", "uuid-hippo", lambda: UUID(bytes=_U), ("uuid", _U))
_leaf("uuid:hippo-zero", "uuid-hippo", lambda: UUID(), ("uuid", b"\x00" * 16))
_leaf("date:naive", "date-naive", lambda: _dt(2020, 1, 2, 3, 4, 5), ("date", _us(2020, 1, 2, 3, 4, 5)))
_leaf("date:naive-july", "date-naive", lambda: _dt(2020, 7, 1, 12, 0, 0), ("date", _us(2020, 7, 1, 12)))
_leaf("date:naive-us", "date-naive-us", lambda: _dt(2020, 7, 1, 12, 0, 0, 250000), ("date", _us(2020, 7, 1, 12, 0, 0, 250000)))
_leaf("date:naive-epoch", "date-naive-epoch", lambda: _dt(1970, 1, 1), ("date", 0))
_leaf("date:naive-pre1970", "date-naive-pre1970", lambda: _dt(1969, 7, 20, 20, 17, 40), ("date", _us(1969, 7, 20, 20, 17, 40)))
_leaf("date:naive-gap-la", "date-naive", lambda: _dt(2021, 3, 14, 2, 30, 0), ("date", _us(2021, 3, 14, 2, 30)))
_leaf("date:naive-fold-london", "date-naive", lambda: _dt(2021, 10, 31, 1, 30, 0), ("date", _us(2021, 10, 31, 1, 30)))
_leaf("date:aware-utc", "date-aware-utc", lambda: _dt(2020, 1, 2, 3, 4, 5, tz=UTC), ("date", _us(2020, 1, 2, 3, 4, 5)))
_leaf("date:aware-utc-us", "date-aware-utc", lambda: _dt(2020, 7, 1, 12, 0, 0, 250000, tz=UTC), ("date", _us(2020, 7, 1, 12, 0, 0, 250000)))
_leaf("date:aware-epoch", "date-aware-utc", lambda: _dt(1970, 1, 1, tz=UTC), ("date", 0))
_leaf("date:aware-pre1970", "date-aware-utc", lambda: _dt(1969, 7, 20, 20, 17, 40, tz=UTC), ("date", _us(1969, 7, 20, 20, 17, 40)))
_leaf("date:aware-offset", "date-aware-offset", lambda: _dt(2020, 1, 2, 13, 34, 5, tz=_OFF), ("date", _us(2020, 1, 2, 13, 34, 5, off_min=630)))
_leaf("date:date", "date-dateonly", lambda: datetime.date(2020, 1, 2), ("date", _us(2020, 1, 2)))
_leaf("vec2", "Vector2", lambda: Vector2(1.5, -0.0), _vec(1.5, -0.0))
_leaf("vec3", "Vector3", lambda: Vector3(1.0, -2.5, 0.1), _vec(1.0, -2.5, 0.1))
_leaf("vec4", "Vector4", lambda: Vector4(0.0, 1.0, 2.0, 3.5), _vec(0.0, 1.0, 2.0, 3.5))
_leaf("quat", "Quaternion", lambda: Quaternion(0.5, 0.5, 0.5, 0.5), _vec(0.5, 0.5, 0.5, 0.5))
_leaf("quat-ident", "Quaternion", lambda: Quaternion(0.0, 0.0, 0.0, 1.0), _vec(0.0, 0.0, 0.0, 1.0))

BASE_LEAVES = list(LEAVES)  # the leaves that take part in the full tree product

# Notation-significant characters: the full product of presence/absence (2^7 - 1 non-empty combinations), each in three
# orders: A = separated by filler in the middle of the string, B = adjacent, first char at position 0 and last char at the
# end (quote -> backslash -> newline adjacency, trailing backslash/newline), C = adjacent in reverse order (newline directly
# BEFORE backslash/quote).  These "xstr" leaves occur alone and with each-choice placement in containers (enumerate_trees).
SIG_CHARS = [("apos", "'"), ("dq", '"'), ("bs", "\\"), ("nl", "\n"), ("cr", "\r"), ("nul", "\x00"), ("u8", "é")]
XSTR_LEAVES: List[str] = []
for _mask in range(1, 1 << len(SIG_CHARS)):
    _sel = [(n, c) for i, (n, c) in enumerate(SIG_CHARS) if _mask >> i & 1]
    _kind = "string:" + "+".join(n for n, _ in _sel)
    _chars = [c for _, c in _sel]
    for _o, _s in (("A", "a" + "b".join(_chars) + "c"), ("B", "".join(_chars)), ("C", "".join(reversed(_chars)) + "z")):
        _leaf(f"xstr:{_kind[7:]}:{_o}", _kind, (lambda s=_s: s), ("string", _s))
        XSTR_LEAVES.append(f"xstr:{_kind[7:]}:{_o}")



def f32(x: float) -> float:
    """x rounded to the nearest F32 and widened back to a double -- what every F32 message field / vector component is."""
    return struct.unpack("<f", struct.pack("<f", x))[0]


# Doubles that are exactly F32-representable (non-dyadic fractions, whole numbers above 2**24, the F32 range limits and
# denormals) and vectors made of them: the values that actually reach LLSD from the wire.  Compared bit-exactly like every real.
XREAL_LEAVES: List[str] = []
_F32_REALS = [f32(0.3), f32(0.1), f32(1 / 3), f32(-2.7), f32(4001.123), f32(0.001), f32(1e-7), 1.0000001192092896, 0.9999999403953552,
              16777215.0, 16777216.0, 16777218.0, -16777220.0, 123456792.0, f32(4e9), f32(1e10), f32(1.2345678e20), -f32(6.02e23),
              3.4028234663852886e38, -3.4028234663852886e38, 1.1754943508222875e-38, 1.1754942106924411e-38, 1.401298464324817e-45,
              -1.401298464324817e-45]
for _f in _F32_REALS:
    assert f32(_f) == _f, _f
    _kind = "real-f32-whole" if _f == int(_f) and abs(_f) < 1e30 else "real-f32"
    _leaf(f"real32:{_f!r}", _kind, (lambda f=_f: f), ("real", _bits(_f)))
    XREAL_LEAVES.append(f"real32:{_f!r}")
_A, _B, _C, _D = f32(0.3), f32(-2.7), f32(4001.123), 123456792.0
_leaf("vec2:f32", "Vector2-f32", lambda: Vector2(f32(0.1), f32(1 / 3)), _vec(f32(0.1), f32(1 / 3)))
_leaf("vec3:f32", "Vector3-f32", lambda: Vector3(_A, _B, _C), _vec(_A, _B, _C))
_leaf("vec3:f32-big", "Vector3-f32", lambda: Vector3(_D, 16777218.0, 1.401298464324817e-45), _vec(_D, 16777218.0, 1.401298464324817e-45))
_leaf("vec4:f32", "Vector4-f32", lambda: Vector4(_A, _B, _C, _D), _vec(_A, _B, _C, _D))
_leaf("quat:f32", "Quaternion-f32", lambda: Quaternion(f32(0.1), f32(0.2), f32(0.3), f32(0.9273618495495703)),
      _vec(f32(0.1), f32(0.2), f32(0.3), f32(0.9273618495495703)))
XREAL_LEAVES += ["vec2:f32", "vec3:f32", "vec3:f32-big", "vec4:f32", "quat:f32"]

for _name, (_k, _b, _e) in LEAVES.items():  # the alphabet's own consistency (dates: hand formula vs aware arithmetic)
    _v = _b()
    if not isinstance(_v, (Vector2, Vector3, Vector4, Quaternion)):
        assert canon(_v) == _e, (_name, canon(_v), _e)

KEYS = ["a", "", "ключ ✓", "k'q\"\\", "sp ace", "<k>&", "line\nfeed"]

# A tree spec is JSON-able: ["L", leaf name] | ["A", [spec, ...]] | ["M", [[key, spec], ...]]


def build(spec):
    t = spec[0]
    if t == "L":
        return LEAVES[spec[1]][1]()
    if t == "A":
        return [build(c) for c in spec[1]]
    return {k: build(c) for k, c in spec[1]}


def expected(spec):
    """Expected canonical tree; leaves are wrapped as ("leaf", kind, canon) so a mismatch can be attributed."""
    t = spec[0]
    if t == "L":
        kind, _, exp = LEAVES[spec[1]]
        return ("leaf", kind, exp, spec[1])
    if t == "A":
        return ("array", [expected(c) for c in spec[1]])
    return ("map", {k: expected(c) for k, c in spec[1]})


def strip(e):
    if e[0] == "leaf":
        return e[2]
    if e[0] == "array":
        return ("array", [strip(c) for c in e[1]])
    return ("map", {k: strip(c) for k, c in e[1].items()})


def leaves_of(spec) -> List[str]:
    if spec[0] == "L":
        return [spec[1]]
    if spec[0] == "A":
        return [n for c in spec[1] for n in leaves_of(c)]
    return [n for _, c in spec[1] for n in leaves_of(c)]


def keys_of(spec) -> List[str]:
    if spec[0] == "L":
        return []
    if spec[0] == "A":
        return [n for c in spec[1] for n in keys_of(c)]
    return [k for k, _ in spec[1]] + [n for _, c in spec[1] for n in keys_of(c)]


def diff(exp, got, kind="container", path="$", leaf=None):
    """yield (clause, kind, path, detail, leaf name or None) for every difference between expected tree and parsed value."""
    if exp[0] == "leaf":
        yield from diff(exp[2], got, exp[1], path, exp[3])
        return
    if exp[0] != got[0]:
        yield ("llsd-type-preserved", kind, path, f"expected LLSD {exp[0]} {_short(exp)}, parsed {got[0]} {_short(got)}", leaf)
        return
    if exp[0] == "array":
        if len(exp[1]) != len(got[1]):
            yield ("llsd-value-preserved", kind if kind != "container" else "array-length", path,
                   f"array of {len(exp[1])} parsed as array of {len(got[1])}", leaf)
            return
        for i, (e, g) in enumerate(zip(exp[1], got[1])):
            yield from diff(e, g, kind, f"{path}[{i}]", leaf)
        return
    if exp[0] == "map":
        if set(exp[1]) != set(got[1]):
            yield ("llsd-value-preserved", "map-keys", path, f"map keys {sorted(exp[1])!r} parsed as {sorted(map(repr, got[1]))!r}", leaf)
            return
        for k in exp[1]:
            yield from diff(exp[1][k], got[1][k], kind, f"{path}[{k!r}]", leaf)
        return
    if exp != got:
        if exp[0] == "date":
            yield ("llsd-date-instant", kind, path,
                   f"expected instant {exp[1]} us since epoch, parsed {got[1]} (off by {(got[1] - exp[1]) / 1e6} s)", leaf)
        else:
            yield ("llsd-value-preserved", kind, path, f"expected {_short(exp)}, parsed {_short(got)}", leaf)


def _short(c) -> str:
    r = repr(c)
    return r if len(r) <= 120 else r[:117] + "..."


# ---- independent reference encoder for the binary form (used ONLY to decide formatter-vs-parser for the site) ----------
def ref_binary(c) -> bytes:
    t = c[0]
    if t == "undef":
        return b"!"
    if t == "bool":
        return b"1" if c[1] else b"0"
    if t == "int":
        return b"i" + struct.pack(">i", c[1])
    if t == "real":
        return b"r" + bytes.fromhex(c[1])
    if t == "string":
        b = c[1].encode("utf8")
        return b"s" + struct.pack(">i", len(b)) + b
    if t == "uri":
        b = c[1].encode("utf8")
        return b"l" + struct.pack(">i", len(b)) + b
    if t == "binary":
        return b"b" + struct.pack(">i", len(c[1])) + c[1]
    if t == "uuid":
        return b"u" + c[1]
    if t == "date":
        return b"d" + struct.pack("<d", c[1] / 1e6)  # seconds as a host-order (little-endian) double, as the viewer writes it
    if t == "array":
        return b"[" + struct.pack(">i", len(c[1])) + b"".join(ref_binary(x) for x in c[1]) + b"]"
    if t == "map":
        out = b"{" + struct.pack(">i", len(c[1]))
        for k, v in c[1].items():
            kb = k.encode("utf8")
            out += b"k" + struct.pack(">i", len(kb)) + kb + ref_binary(v)
        return out + b"}"
    raise ValueError(t)


# =====================================================================================================================
# The codecs under test
# =====================================================================================================================
SENTINEL = 0xA5


def run_codec(codec: str, value):
    """-> (stage reached, formatted bytes or None, parsed value, framing problem or None).  Raises what the library raises."""
    framing = None
    if codec == "binary+header":
        data = llsd.format_binary(value)
        got = llsd.parse_binary(data)
    elif codec == "binary":
        data = llsd.format_binary(value, with_header=False)
        got = llsd.parse_binary(data)
    elif codec == "BinaryLLSD":
        w = se.BufferWriter("<")
        w.write(se.BinaryLLSD, value)
        data = bytes(w.copy_buffer())
        w.write(se.U8, SENTINEL)
        framed = bytes(w.copy_buffer())
        r = se.BufferReader("<", framed)
        got = r.read(se.BinaryLLSD)
        pos = r.tell()
        if pos != len(data):
            framing = f"serialize wrote {len(data)} bytes, deserialize consumed {pos} (sentinel follows at {len(data)})"
        elif r.read(se.U8) != SENTINEL or len(r) != 0:
            framing = "sentinel after the value not read back"
    elif codec == "notation":
        data = llsd.format_notation(value)
        got = llsd.parse_notation(data)
    elif codec == "xml":
        data = llsd.format_xml(value)
        got = llsd.parse_xml(data)
    elif codec == "zip":
        data = llsd.zip_llsd(value)
        got = llsd.unzip_llsd(data)
    else:
        raise ValueError(codec)
    return data, got, framing


def _format_only(codec: str, value) -> bytes:
    if codec == "binary+header":
        return llsd.format_binary(value)[len(b"<?llsd/binary?>\n"):]
    if codec in ("binary", "BinaryLLSD", "zip"):
        return llsd.format_binary(value, with_header=False)
    if codec == "notation":
        return llsd.format_notation(value)
    return llsd.format_xml(value)


_FORMAT_SITE = {"binary+header": "format_binary", "binary": "format_binary", "BinaryLLSD": "format_binary", "zip": "format_binary",
                "notation": "format_notation", "xml": "format_xml"}
_PARSE_SITE = {"binary+header": "parse_binary", "binary": "parse_binary", "BinaryLLSD": "BinaryLLSD.deserialize", "zip": "unzip_llsd",
               "notation": "parse_notation", "xml": "parse_xml"}


def _leaf_outcome(codec: str, name: str):
    """None if the single leaf round-trips with this codec without raising, else the stage ('format'/'parse')."""
    v = LEAVES[name][1]()
    try:
        _format_only(codec, v)
    except Exception:
        return "format"
    try:
        run_codec(codec, LEAVES[name][1]())
    except Exception:
        return "parse"
    return None


def check_tree(part: Part, tz: str, codec: str, spec, count=True):
    witness = {"family": "tree", "tz": tz, "codec": codec, "tree": spec}
    if codec == "xml" and any(LEAVES[n][2][0] == "string" and "\x00" in LEAVES[n][2][1] for n in leaves_of(spec)):
        part.count("skipped_xml_illegal_nul_out_of_domain")  # XML 1.0 cannot carry U+0000 at all
        return
    if codec == "xml" and any(LEAVES[n][2][0] == "string" and "\r" in LEAVES[n][2][1] for n in leaves_of(spec)):
        # XML 1.0 line-end normalisation turns a literal CR into LF in *any* conforming parser; strings carrying a CR
        # are outside the XML route's domain (the codec sentence of the statement names binary and notation).
        part.count("skipped_xml_cr_out_of_domain")
        return
    if count:
        part.count("evaluations")
        part.count("tree_evaluations")
    exp = expected(spec)
    exp_c = strip(exp)
    # -- stage 1: format (separately, to know which side raised)
    try:
        raw = _format_only(codec, build(spec))
    except Exception as e:
        _attribute_exception(part, codec, spec, witness, "format", e)
        part.outcome(("tree", codec, "format-raises", type(e).__name__))
        return
    if codec == "notation":
        check_notation_newline(part, spec, raw, witness)
    try:
        data, got, framing = run_codec(codec, build(spec))
    except Exception as e:
        _attribute_exception(part, codec, spec, witness, "parse", e)
        part.outcome(("tree", codec, "parse-raises", type(e).__name__))
        return
    if framing:
        small = _minimal(spec, lambda t: _framing_of(codec, t) is not None)
        part.violation("binaryllsd-framing", "BinaryLLSD.deserialize:" + _shape(small, kinds=small[0] == "L"), witness,
                       f"tz={tz}: {framing} (smallest subtree with the problem: {small!r})")
    got_c = canon(got)
    n_diff = 0
    for clause, kind, path, detail, leaf in diff(exp, got_c):
        n_diff += 1
        if codec in ("notation", "xml"):
            site = f"{codec}:{kind}"  # round trip through the dependency's parser; side not decided
        else:
            # the independent reference encoder decides which side is to blame: per leaf when the difference is in a leaf
            try:
                if leaf is not None:
                    fmt_ok = _format_only("binary", LEAVES[leaf][1]()) == ref_binary(LEAVES[leaf][2])
                else:
                    fmt_ok = raw == ref_binary(exp_c)
            except Exception:
                fmt_ok = True
            site = (f"{_PARSE_SITE[codec]}:{kind}" if fmt_ok else f"format_binary:{kind}")
        part.violation(clause, site, witness, f"tz={tz} codec={codec} at {path}: {detail}")
    part.outcome(("tree", codec, got_c[0], n_diff, len(data) if codec != "zip" else 0))
    part.mark_nontrivial(("tree", tz, codec, _shape(spec), tuple(sorted({LEAVES[n][0] for n in leaves_of(spec)}))))


def _shape(spec, kinds=False) -> str:
    if spec[0] == "L":
        return LEAVES[spec[1]][0] if kinds else "leaf"
    if spec[0] == "A":
        return "A[" + ",".join(_shape(c, kinds) for c in spec[1]) + "]"
    return "M{" + ",".join(_shape(c, kinds) for _, c in spec[1]) + "}"


def _children(spec):
    if spec[0] == "A":
        return list(spec[1])
    if spec[0] == "M":
        return [c for _, c in spec[1]]
    return []


def _minimal(spec, fails):
    """Smallest subtree (following children that still fail on their own) -- keeps nested sites few and specific."""
    while True:
        for c in _children(spec):
            if fails(c):
                spec = c
                break
        else:
            if spec[0] == "M" and len(spec[1]) > 1:  # a 2-entry map whose single entries pass: try each entry alone
                for kv in spec[1]:
                    if fails(["M", [kv]]):
                        spec = ["M", [kv]]
                        break
                else:
                    return spec
                continue
            if spec[0] == "A" and len(spec[1]) > 1:
                for c in spec[1]:
                    if fails(["A", [c]]):
                        spec = ["A", [c]]
                        break
                else:
                    return spec
                continue
            return spec


def _framing_of(codec, spec):
    try:
        return run_codec(codec, build(spec))[2]
    except Exception:
        return None


def _stage_of(codec, spec):
    try:
        _format_only(codec, build(spec))
    except Exception:
        return "format"
    try:
        run_codec(codec, build(spec))
    except Exception:
        return "parse"
    return None


_DATE_TEXT = re.compile(rb"""[>"]\d{4}-\d{2}-\d{2}T\d{2}:\d{2}:\d{2}(\.\d+)?Z["<]""")


def _attribute_exception(part: Part, codec: str, spec, witness, stage: str, exc: Exception):
    fn = _FORMAT_SITE[codec] if stage == "format" else _PARSE_SITE[codec]
    detail = f"tz={witness['tz']} codec={codec}: {stage} raised {type(exc).__name__}: {str(exc)[:200]}"
    culprits = sorted({LEAVES[n][0] for n in set(leaves_of(spec)) if _leaf_outcome(codec, n) == stage})
    if stage == "parse" and codec in ("notation", "xml") and culprits and all(k.startswith("date") for k in culprits):
        # the parser rejects what the formatter wrote: if that text is not an LLSD date (YYYY-MM-DDTHH:MM:SS[.f]Z) the formatter is the site
        bad_fmt = [n for n in set(leaves_of(spec)) if LEAVES[n][0] in culprits and not _DATE_TEXT.search(_format_only(codec, LEAVES[n][1]()))]
        if bad_fmt:
            fn = _FORMAT_SITE[codec]
            detail += f" -- formatter wrote {_format_only(codec, LEAVES[bad_fmt[0]][1]())[-60:]!r}"
    if not culprits:
        small = _minimal(spec, lambda t: _stage_of(codec, t) == stage)
        part.violation("llsd-roundtrip-completes", f"{fn}:nested:{_shape(small, kinds=small[0] == "L")}", witness,
                       detail + f" (every leaf passes on its own; smallest failing subtree {small!r})")
    for k in culprits:
        part.violation("llsd-roundtrip-completes", f"{fn}:{k}", witness, detail)


def check_notation_newline(part: Part, spec, raw: bytes, witness):
    part.count("notation_newline_checks")
    if b"\n" not in raw:
        return
    # domain of the sentence: the only newlines of the tree are inside string values (and, reported apart, map keys);
    # by construction of LEAVES no other leaf kind carries one (binary is base64 in notation, no URI has one)
    str_nl = [n for n in leaves_of(spec) if LEAVES[n][0].startswith("string") and "\n" in LEAVES[n][2][1]]
    key_nl = [k for k in keys_of(spec) if "\n" in k]
    if key_nl:
        # The sentence speaks of string *values*; a newline inside a map key is outside its domain (lead's triage:
        # not asserted, counted).  Such keys still take part in every round-trip clause.
        part.count("skipped_newline_map_key_out_of_domain")
        return
    # decide which of them actually leaks: format each alone
    leaked = False
    for n in sorted(set(str_nl)):
        if b"\n" in llsd.format_notation(LEAVES[n][1]()):
            part.violation("notation-no-raw-newline", f"format_notation:{LEAVES[n][0]}", witness, f"raw newline in notation output {raw[:80]!r}")
            leaked = True
    for k in sorted(set(key_nl)):
        if b"\n" in llsd.format_notation({k: 0}):
            part.violation("notation-no-raw-newline", "format_notation:map-key", witness,
                           f"map key {k!r} puts a raw newline into notation output {raw[:80]!r}")
            leaked = True
    if not leaked:
        part.violation("notation-no-raw-newline", f"format_notation:nested:{_shape(spec)}", witness, f"raw newline in notation output {raw[:80]!r}")


# ---- tree enumeration --------------------------------------------------------------------------------------------------
def _containers(children: List[Any], pairs: List[Tuple[Any, Any]], key_off: int = 0) -> List[Any]:
    out = []
    nk = len(KEYS)
    for i, c in enumerate(children):
        out.append(["A", [c]])
        out.append(["M", [[KEYS[(i + key_off) % nk], c]]])
    for i, (a, b) in enumerate(pairs):
        out.append(["A", [a, b]])
        k0 = KEYS[(i + key_off) % nk]
        k1 = KEYS[(i + key_off + 1 + (i // nk) % (nk - 1)) % nk]  # second key walks through all other keys
        out.append(["M", [[k0, a], [k1, b]]])
    return out


def _each_choice_pairs(xs: List[Any]):
    return [(xs[i], xs[(i + 1) % len(xs)]) for i in range(len(xs))] if len(xs) > 1 else []


def xstr_trees() -> List[Any]:
    """The notation-significant string product and the F32-widened reals / vectors: each leaf alone, and each-choice in containers -- as the only element, as
    first and second sibling (next string of the product / a base leaf), and one level further down.  Map keys here never
    contain a newline, so the notation-newline clause is evaluated for every one of these trees."""
    keys = [k for k in KEYS if "\n" not in k]
    nk = len(keys)
    xs = [["L", n] for n in XSTR_LEAVES + XREAL_LEAVES]
    base = [["L", n] for n in BASE_LEAVES]
    out = list(xs)
    for i, x in enumerate(xs):
        nxt = xs[(i + 1) % len(xs)]
        b = base[i % len(base)]
        k0, k1 = keys[i % nk], keys[(i + 1 + (i // nk) % (nk - 1)) % nk]
        out += [["A", [x]], ["M", [[k0, x]]], ["A", [x, nxt]], ["M", [[k0, x], [k1, nxt]]], ["A", [b, x]], ["M", [[k0, b], [k1, x]]],
                ["A", [["M", [[k1, x]]]]], ["M", [[k0, ["A", [x, b]]]]]]
    return out


def enumerate_trees(quick: bool) -> List[Any]:
    level1 = [["L", n] for n in BASE_LEAVES] + [["A", []], ["M", []]]
    level2 = _containers(level1, _each_choice_pairs(level1))
    level3 = _containers(level2, _each_choice_pairs(level2), key_off=3)
    trees = level1 + level2 + level3 + xstr_trees()
    if not quick:
        full2 = _containers([], [(a, b) for a in level1 for b in level1], key_off=1)
        lvl3b = _containers(full2, _each_choice_pairs(full2), key_off=2)
        level4 = _containers(level3, _each_choice_pairs(level3), key_off=5)
        seen = set()
        out = []
        for t in trees + full2 + lvl3b + level4:
            r = repr(t)
            if r not in seen:
                seen.add(r)
                out.append(t)
        trees = out
    return trees


# ---- date microsecond sweep --------------------------------------------------------------------------------------------
US_CODECS = ["binary", "notation", "xml"]


def check_us(part: Part, codec: str, us: int):
    part.count("evaluations")
    part.count("us_evaluations")
    witness = {"family": "us", "codec": codec, "us": us, "tz": "UTC"}
    exp = _us(2020, 1, 2, 3, 4, 5, us)
    try:
        _, got, _ = run_codec(codec, _dt(2020, 1, 2, 3, 4, 5, us))
    except Exception as e:
        part.violation("llsd-roundtrip-completes", f"{_PARSE_SITE[codec]}:date-microseconds", witness, f"raised {e!r}")
        return
    g = canon(got)
    if g != ("date", exp):
        clause = "llsd-date-instant" if g[0] == "date" else "llsd-type-preserved"
        part.violation(clause, f"{_PARSE_SITE[codec]}:date-microseconds", witness,
                       f"2020-01-02T03:04:05.{us:06d}Z parsed back as {got!r} ({g})")
        part.outcome(("us", codec, "off", g[1] - exp if g[0] == "date" else g[0]))
    else:
        part.outcome(("us", codec, "same"))


# ---- real sweep --------------------------------------------------------------------------------------------------------
F32_MANT = [0x000000, 0x000001, 0x199999, 0x19999A, 0x2AAAAB, 0x400000, 0x555555, 0x7FFFFF]
F64_MANT = [0x0, 0x1, 0x999999999999A, 0x5555555555555, 0x8000000000000, 0xFFFFFFFFFFFFF]


def real_sweep(quick: bool) -> List[Tuple[int, str]]:
    """(width, hex of the IEEE bits): every finite F32 exponent (denormals included) x 8 mantissa patterns x both signs, widened
    to a double; every finite F64 exponent (quick: every 16th, plus the first and last two) x 6 mantissa patterns x both signs."""
    out = []
    for sign in (0, 1):
        for e in range(0, 255):
            for m in F32_MANT:
                out.append((32, struct.pack(">I", sign << 31 | e << 23 | m).hex()))
        for e in range(0, 2047):
            if quick and e % 16 and e not in (1, 2045, 2046):
                continue
            for m in F64_MANT:
                out.append((64, struct.pack(">Q", sign << 63 | e << 52 | m).hex()))
    return out


def check_real(part: Part, codec: str, width: int, hx: str):
    part.count("evaluations")
    part.count("real_evaluations")
    witness = {"family": "real", "codec": codec, "width": width, "hex": hx, "tz": "UTC"}
    v = struct.unpack(">f" if width == 32 else ">d", bytes.fromhex(hx))[0]
    kind = f"real-f{width}-sweep"
    exp = ("real", _bits(v))
    try:
        raw = _format_only(codec, v)
    except Exception as e:
        part.violation("llsd-roundtrip-completes", f"{_FORMAT_SITE[codec]}:{kind}", witness, f"format of {v!r} raised {e!r}")
        return
    try:
        _, got, _ = run_codec(codec, v)
    except Exception as e:
        part.violation("llsd-roundtrip-completes", f"{_PARSE_SITE[codec]}:{kind}", witness, f"parse of {raw[-40:]!r} raised {e!r}")
        return
    g = canon(got)
    if g != exp:
        if codec in ("notation", "xml"):
            site = f"{codec}:{kind}"
        else:
            site = f"{_PARSE_SITE[codec]}:{kind}" if raw == ref_binary(exp) else f"format_binary:{kind}"
        part.violation("llsd-type-preserved" if g[0] != "real" else "llsd-value-preserved", site, witness,
                       f"{v!r} (bits {exp[1]}) written as {raw[-40:]!r} parsed back as {got!r} ({g})")
        part.outcome(("real", codec, width, "diff"))
    else:
        part.outcome(("real", codec, width, "same", len(raw) if codec in ("notation", "xml") else 0))
    part.mark_nontrivial(("real", codec, width, hx[:3]))


# =====================================================================================================================
# Messages over LLSD
# =====================================================================================================================
_XML_ILLEGAL = set(range(0, 9)) | {0x0B, 0x0C} | set(range(0x0E, 0x20)) | {0xFFFE, 0xFFFF} | set(range(0xD800, 0xE000))
EXTRA_TEXT = ["<a href='x'>&amp;</a>]]>", "  lead/trail \t "]


def xml_legal(s: str) -> bool:
    # a literal CR is a legal XML character but XML 1.0 (2.11) normalises CR / CRLF to LF on parsing, so it cannot round-trip
    # through an XML form that does not escape it (out of domain for the XML route, like xml:string-CR in the tree family)
    return "\r" not in s and not any(ord(ch) in _XML_ILLEGAL for ch in s)


def make_gen(seed: int) -> msggen.Gen:
    g = msggen.Gen(seed, finite_only=True)
    for key in ("TEXT1", "TEXT2", "UNK1", "UNK2"):
        alpha = [p for p in g.alpha[key] if not (isinstance(p[0], str) and not xml_legal(p[0]))]
        for s in EXTRA_TEXT:
            alpha.append((s, s.encode("utf8") + b"\x00"))
        g.alpha[key] = alpha
    return g


def same_llsd_value(dec, exp) -> bool:
    if isinstance(exp, str):
        return isinstance(dec, str) and not isinstance(dec, llsd.uri) and dec == exp
    if isinstance(exp, bytes):
        return isinstance(dec, bytes) and bytes(dec) == bytes(exp)
    if isinstance(exp, std_uuid.UUID):
        # the XML parser yields stdlib uuid.UUID where the message held the library's subclass; both are LLSD uuid and
        # `==` holds between them, so "equals the original" is satisfied (triaged false alarm, see final report)
        return isinstance(dec, std_uuid.UUID) and dec.bytes == exp.bytes
    return same_value(dec, exp)


def _var_types(name: str) -> Dict[Tuple[str, str], Any]:
    tmpl = DEFAULT_TEMPLATE_DICT[name]
    return {(b.name, v.name): v.type for b in tmpl.blocks for v in b.variables}


def _type_site(route: str, mvt, exp) -> str:
    if mvt in LLSDDataPacker.SPECS:
        return f"LLSDDataPacker:{mvt.name}"
    extra = ""
    if mvt.name in ("MVT_VARIABLE", "MVT_FIXED"):
        extra = ":str" if isinstance(exp, str) else ":bytes"
    return f"{route}:{mvt.name}{extra}"


def compare_msg(part: Part, clause: str, route: str, dec, case, exp_blocks, vtypes, witness) -> bool:
    ok = True
    name = case["name"]

    def bad(site, detail):
        nonlocal ok
        ok = False
        part.violation(clause, site, witness, f"{route}: {detail}")

    if dec.name != name:
        bad(f"{route}:{name}:name", f"decoded name {dec.name!r}")
        return False
    blocks = dec.blocks
    if list(blocks.keys()) != [b for b, _ in exp_blocks]:
        bad(f"{route}:{name}:blocks", f"block names {list(blocks.keys())} != {[b for b, _ in exp_blocks]}")
        return False
    for bname, rows in exp_blocks:
        got = blocks[bname]
        if len(got) != len(rows):
            bad(f"{route}:{name}.{bname}:count", f"{len(got)} blocks != {len(rows)}")
            continue
        for i, (gb, row) in enumerate(zip(got, rows)):
            if list(gb.vars.keys()) != list(row.keys()):
                bad(f"{route}:{name}.{bname}:vars", f"{list(gb.vars.keys())} != {list(row.keys())}")
                continue
            for vname, exp in row.items():
                if not same_llsd_value(gb.vars[vname], exp):
                    bad(_type_site(route, vtypes[(bname, vname)], exp),
                        f"{name}.{bname}[{i}].{vname}: decoded {gb.vars[vname]!r} ({type(gb.vars[vname]).__name__}) != original {exp!r}")
    return ok


def msg_snapshot(msg):
    """Deep, value-only snapshot of a Message's blocks (type name + repr per variable; -0.0 and str/bytes stay distinct)."""
    return [(bname, [[(vn, type(v).__name__, repr(v)) for vn, v in blk.vars.items()] for blk in blist])
            for bname, blist in msg.blocks.items()]


def _first_diff(a, b, path="$") -> str:
    if type(a) is not type(b):
        return f"{path}: {_short(a)} -> {_short(b)}"
    if isinstance(a, dict):
        if set(a) != set(b):
            return f"{path}: keys {sorted(a)!r} -> {sorted(b)!r}"
        for k in a:
            if a[k] != b[k]:
                return _first_diff(a[k], b[k], f"{path}[{k!r}]")
    if isinstance(a, (list, tuple)) and len(a) == len(b):
        for i, (x, y) in enumerate(zip(a, b)):
            if x != y:
                return _first_diff(x, y, f"{path}[{i}]")
    return f"{path}: {_short(a)} -> {_short(b)}"


def _culprit_types(msg, vtypes, op: str) -> List[str]:
    """Which template types make LLSDDataPacker.pack raise for this message's values (site attribution only)."""
    out = set()
    for bname, blist in msg.blocks.items():
        for blk in blist:
            for vname, val in blk.vars.items():
                t = vtypes.get((bname, vname))
                if t in LLSDDataPacker.SPECS:
                    try:
                        LLSDDataPacker.pack(val, t)
                    except Exception:
                        out.add(t.name)
    return sorted(out)


def _unpack_culprits(d: dict, vtypes) -> List[str]:
    """Which template types make LLSDDataPacker.unpack raise for the values of this LLSD form (site attribution only)."""
    out = set()
    for bname, blist in d.get("body", {}).items():
        for blk in blist:
            for vname, val in blk.items():
                t = vtypes.get((bname, vname))
                if t in LLSDDataPacker.SPECS:
                    try:
                        LLSDDataPacker.unpack(val, t)
                    except Exception:
                        out.add(f"LLSDDataPacker:{t.name}")
    return sorted(out)


_HDR = {"flags": 0, "packet_id": 1, "acks": (), "extra": b""}  # the LLUDP header is not part of the LLSD form


def value_rows(gen: msggen.Gen, name: str):
    """msggen's value rows (row k = k-th alphabet element of every variable) under one fixed header."""
    tmpl = gen.templates[name]
    for k in range(gen.n_rows(tmpl)):
        yield {"name": name, **_HDR, "blocks": gen.blocks(tmpl, k, {}), "tag": f"row{k}"}


_EQ = None


def _eq_world():
    """A real Session + ProxiedRegion + circuit over a recording transport (no sockets, no loop)."""
    global _EQ
    if _EQ is not None and _EQ[0] == os.getpid():
        return _EQ[1:]
    from hippolyzer.lib.base.test_utils import MockTransport
    from hippolyzer.lib.proxy.sessions import SessionManager
    from hippolyzer.lib.proxy.settings import ProxySettings
    sm = SessionManager(ProxySettings())
    s = sm.create_session({"session_id": UUID(int=1), "secure_session_id": UUID(int=2), "agent_id": UUID(int=3), "circuit_code": 1234,
                           "sim_ip": "127.0.0.1", "sim_port": 3, "region_x": 0, "region_y": 123,
                           "seed_capability": "https://test.localhost:4/foo"})
    t = MockTransport()
    sm.claim_session(s.id)
    region = s.regions[-1]
    s.open_circuit(("127.0.0.1", 1), region.circuit_addr, t)
    _EQ = (os.getpid(), sm, s, region, t)
    return _EQ[1:]


def check_msg_case(part: Part, gen: msggen.Gen, case: dict, ser: LLSDMessageSerializer, vtypes, de_udp):
    name = case["name"]
    witness = {"family": "msg", "seed": gen.seed, "case": case}
    part.count("evaluations")
    part.count("msg_evaluations")
    exp_blocks = gen.expected_values(case)
    msg = gen.lib_message(case)
    msg_before = msg_snapshot(msg)
    # ---- dict route
    try:
        d = ser.serialize(msg, as_dict=True)
    except Exception as e:
        types = _culprit_types(msg, vtypes, "pack") or [f"?:{name}"]
        for t in types:
            part.violation("msg-llsd-roundtrip", f"LLSDDataPacker:{t}", witness, f"serialize(as_dict=True) raised {type(e).__name__}: {e}")
        part.outcome(("msg", "serialize-raises", type(e).__name__))
        part.count("eq_skipped_serialize_failed")
        return
    # ---- serialize() leaves the message alone and is repeatable on the same Message object
    part.count("aliasing_checks")
    if msg_snapshot(msg) != msg_before:
        part.violation("msg-llsd-input-intact", "LLSDMessageSerializer.serialize:aliasing", witness,
                       f"serialize(as_dict=True) changed the Message: {_first_diff(msg_before, msg_snapshot(msg))}")
    try:
        d_again = ser.serialize(msg, as_dict=True)
    except Exception as e:
        part.violation("msg-llsd-repeatable", "LLSDMessageSerializer.serialize:second-call", witness,
                       f"second serialize(as_dict=True) of the same Message raised {type(e).__name__}: {e}")
    else:
        if canon(d_again) != canon(d):
            part.violation("msg-llsd-repeatable", "LLSDMessageSerializer.serialize:second-call", witness,
                           f"second serialize of the same Message differs: {_short(canon(d_again))} != {_short(canon(d))}")
    # ---- deserialize(dict): round trip, caller's dict untouched, repeatable on the same dict object, and the same dict can
    #      still be forwarded as XML afterwards (what http_event_manager does with an event it has just deserialized)
    d_before = canon(d)
    dict_ok = False
    try:
        m2 = ser.deserialize(d)
    except Exception as e:
        for site in _unpack_culprits(d, vtypes) or [f"dict:{name}:deserialize"]:
            part.violation("msg-llsd-roundtrip", site, witness, f"deserialize(dict) raised {type(e).__name__}: {e}")
    else:
        dict_ok = compare_msg(part, "msg-llsd-roundtrip", "dict", m2, case, exp_blocks, vtypes, witness)
    if canon(d) != d_before:
        part.violation("msg-llsd-input-intact", "LLSDMessageSerializer.deserialize:aliasing", witness,
                       f"deserialize(dict) rewrote the caller's LLSD dict: {_first_diff(d_before, canon(d))}")
    if dict_ok:
        try:
            m2b = ser.deserialize(d)
        except Exception as e:
            part.violation("msg-llsd-repeatable", "LLSDMessageSerializer.deserialize:second-call", witness,
                           f"second deserialize of the same dict raised {type(e).__name__}: {str(e)[:200]}")
        else:
            compare_msg(part, "msg-llsd-repeatable", "dict-2nd-call", m2b, case, exp_blocks, vtypes, witness)
        try:
            m2c = ser.deserialize(llsd.format_xml(d))
        except Exception as e:
            part.violation("msg-llsd-repeatable", "LLSDMessageSerializer.deserialize:then-format_xml", witness,
                           f"format_xml(event) -> deserialize after deserialize(event) raised {type(e).__name__}: {str(e)[:200]}")
        else:
            compare_msg(part, "msg-llsd-repeatable", "dict-then-xml", m2c, case, exp_blocks, vtypes, witness)
    # ---- XML route (only attributed separately when the dict route is clean: otherwise the same root cause)
    xml = None
    try:
        xml = ser.serialize(gen.lib_message(case))
        m3 = ser.deserialize(xml)
    except Exception as e:
        if dict_ok:
            part.violation("msg-xml-roundtrip", f"xml:{name}:{'deserialize' if xml is not None else 'serialize'}", witness,
                           f"raised {type(e).__name__}: {str(e)[:200]}")
    else:
        if dict_ok:
            compare_msg(part, "msg-xml-roundtrip", "xml", m3, case, exp_blocks, vtypes, witness)
        try:
            xml_again = ser.serialize(msg)  # the Message object that has already been serialized twice above
        except Exception as e:
            part.violation("msg-llsd-repeatable", "LLSDMessageSerializer.serialize:second-call", witness, f"XML serialize raised {e!r}")
        else:
            if xml_again != xml:
                part.violation("msg-llsd-repeatable", "LLSDMessageSerializer.serialize:second-call", witness,
                               "XML of an already-serialized Message differs from the XML of a fresh one")
    if msg_snapshot(msg) != msg_before:
        part.violation("msg-llsd-input-intact", "LLSDMessageSerializer.serialize:aliasing", witness,
                       f"serialize() changed the Message: {_first_diff(msg_before, msg_snapshot(msg))}")
    # ---- consumer
    _, _, region, transport = _eq_world()
    eqm = _fresh_eqm(region)
    del transport.packets[:]
    try:
        eqm.inject_message(gen.lib_message(case))
        events = eqm.take_injected_events()
    except Exception as e:
        part.violation("msg-eq-inject", "EventQueueManager.inject_message:raises", witness, f"raised {type(e).__name__}: {e}")
    else:
        d_ref = ser.serialize(gen.lib_message(case), as_dict=True)  # fresh output: nothing above may have aliased it
        if len(events) != 1:
            part.violation("msg-eq-inject", "EventQueueManager.inject_message:event-count", witness, f"{len(events)} events queued")
        elif canon(events[0]) != canon(d_ref) or events[0] != d_ref:
            part.violation("msg-eq-inject", "EventQueueManager.inject_message:event", witness,
                           f"event {_short(canon(events[0]))} != serializer output {_short(canon(d_ref))}")
        names = []
        for data, _addr in transport.packets:
            try:
                names.append(de_udp.deserialize(data).name)
            except Exception as e:  # pragma: no cover
                names.append(f"undecodable:{e!r}")
        if names != ["PlacesQuery"]:
            part.violation("msg-eq-inject", "EventQueueManager.inject_event:wakeup", witness, f"wake-up datagrams sent: {names}")
        part.count("eq_injections")
    part.outcome(("msg", len(xml) if xml is not None else -1, digest_canon(d)))
    part.mark_nontrivial(("msg", name, tuple((b, len(r)) for b, r in case["blocks"]), case.get("tag")))


def _fresh_eqm(region):
    """A new EventQueueManager (with its own long-lived LLSDMessageSerializer) on the worker's region: no history leaks
    from one case to the next."""
    from hippolyzer.lib.proxy.region import EventQueueManager
    eqm = EventQueueManager(region)
    region.eq_manager = eqm
    return eqm


# ---- serializer history -------------------------------------------------------------------------------------------------
HIST_OPS = ["serialize(small)", "deserialize(dict small)", "serialize(full)", "deserialize(dict full)", "deserialize(xml full)"]
EQ_OPS = ["inject(small)", "inject(full)"]


def history_pairs(gen: msggen.Gen, name: str):
    """(m_small, m_full) pairs of one template: m_full = row 1 with every block present; m_small = each trailing-block
    omission, Variable counts 0, and each single Variable block left out altogether (a Variable block may have no instances)."""
    tmpl = gen.templates[name]
    if len(tmpl.blocks) < 2 and not any(b.kind == "Variable" for b in tmpl.blocks):
        return
    full = {"name": name, **_HDR, "blocks": gen.blocks(tmpl, 1, {}), "tag": "full"}
    seen = set()
    smalls = []
    for nb in range(1, len(tmpl.blocks)):
        smalls.append({"name": name, **_HDR, "blocks": gen.blocks(tmpl, 0, {}, nblocks=nb), "tag": f"prefix{nb}"})
    vb = [b.name for b in tmpl.blocks if b.kind == "Variable"]
    if vb:
        smalls.append({"name": name, **_HDR, "blocks": gen.blocks(tmpl, 0, {b: 0 for b in vb}), "tag": "count0"})
        for b0 in vb:
            smalls.append({"name": name, **_HDR, "blocks": [(b, r) for b, r in gen.blocks(tmpl, 0, {}) if b != b0], "tag": f"without:{b0}"})
    for sm in smalls:
        key = repr(sm["blocks"])
        if key in seen or not sm["blocks"]:
            continue
        seen.add(key)
        yield sm, full


def _hist_inputs(gen, small, full):
    """Inputs of the operations, each produced by its own fresh serializer instance."""
    return {
        "small_dict": LLSDMessageSerializer().serialize(gen.lib_message(small), as_dict=True),
        "full_dict": LLSDMessageSerializer().serialize(gen.lib_message(full), as_dict=True),
        "full_xml": LLSDMessageSerializer().serialize(gen.lib_message(full)),
    }


def _hist_apply(ser, op: str, gen, small, full, inputs):
    """-> ("dict", canonical form) for serialize ops, ("msg", snapshot) for deserialize ops."""
    if op == "serialize(small)":
        return ("dict", canon(ser.serialize(gen.lib_message(small), as_dict=True)))
    if op == "serialize(full)":
        return ("dict", canon(ser.serialize(gen.lib_message(full), as_dict=True)))
    if op == "deserialize(dict small)":
        return ("msg", msg_snapshot(ser.deserialize(inputs["small_dict"])))
    if op == "deserialize(dict full)":
        return ("msg", msg_snapshot(ser.deserialize(inputs["full_dict"])))
    if op == "deserialize(xml full)":
        return ("msg", msg_snapshot(ser.deserialize(inputs["full_xml"])))
    raise ValueError(op)


def _hist_where(ref, got, vtypes) -> List[str]:
    """Name what differs between a fresh-instance result and the result on the instance with a history: MVT type of each
    differing variable, else the block."""
    out = set()
    if ref[0] == "dict":
        rb, gb = ref[1][1]["body"][1], got[1][1]["body"][1]  # ("map", {...})["body"] -> ("map", {block: ("array", [...])})
        for bname in rb:
            if bname not in gb or len(rb[bname][1]) != len(gb[bname][1]):
                out.add(f"block:{bname}")
                continue
            for r, g in zip(rb[bname][1], gb[bname][1]):
                for vn in r[1]:
                    if vn not in g[1] or r[1][vn] != g[1][vn]:
                        t = vtypes.get((bname, vn))
                        out.add(t.name if t is not None else f"block:{bname}")
        for bname in gb:
            if bname not in rb:
                out.add(f"block:{bname}")
    else:
        rb, gb = dict(ref[1]), dict(got[1])
        for bname in rb:
            if bname not in gb or len(rb[bname]) != len(gb[bname]):
                out.add(f"block:{bname}")
                continue
            for r, g in zip(rb[bname], gb[bname]):
                gd = {vn: (tn, rp) for vn, tn, rp in g}
                for vn, tn, rp in r:
                    if gd.get(vn) != (tn, rp):
                        t = vtypes.get((bname, vn))
                        out.add(t.name if t is not None else f"block:{bname}")
        for bname in gb:
            if bname not in rb:
                out.add(f"block:{bname}")
    return sorted(out) or ["?"]


def check_history_pair(part: Part, gen, small, full, op1: str, op2: str, vtypes, inputs=None, refs=None):
    name = full["name"]
    witness = {"family": "hist", "seed": gen.seed, "small": small, "full": full, "ops": [op1, op2]}
    part.count("evaluations")
    part.count("hist_evaluations")
    try:
        inputs = inputs or _hist_inputs(gen, small, full)
        if refs is None:
            refs = {}
        for op in (op1, op2):
            if op not in refs:
                refs[op] = _hist_apply(LLSDMessageSerializer(), op, gen, small, full, inputs)  # FRESH instance per operation
    except Exception:
        part.count("hist_skipped_fresh_instance_fails")  # a defect of the plain round trip: reported by family msg
        return
    ser = LLSDMessageSerializer()  # ONE long-lived instance for the two operations
    for i, op in enumerate((op1, op2)):
        try:
            got = _hist_apply(ser, op, gen, small, full, inputs)
        except Exception as e:
            part.violation("msg-llsd-history-independent", f"LLSDMessageSerializer:{op1}-then-{op2}:raises", witness,
                           f"{name} ({small['tag']}): operation {i + 1} raised {type(e).__name__}: {str(e)[:200]} on the used instance; a fresh one succeeds")
            break
        if got != refs[op]:
            for wh in _hist_where(refs[op], got, vtypes):
                part.violation("msg-llsd-history-independent", f"LLSDMessageSerializer:{op1}-then-{op2}:{wh}", witness,
                               f"{name} ({small['tag']}): result of operation {i + 1} ({op}) differs from a fresh serializer's: "
                               f"{_first_diff(refs[op][1], got[1])}")
    part.outcome(("hist", op1, op2, digest_canon_c(refs[op2])))
    part.mark_nontrivial(("hist", name, small["tag"], op1, op2))


def check_history_eq(part: Part, gen, small, full, op1: str, op2: str, vtypes):
    """The long-lived serializer inside EventQueueManager: two injections on one manager; every queued event equals what a
    fresh serializer writes for that message."""
    name = full["name"]
    witness = {"family": "hist", "seed": gen.seed, "small": small, "full": full, "ops": [op1, op2]}
    part.count("evaluations")
    part.count("hist_eq_evaluations")
    cases = {"inject(small)": small, "inject(full)": full}
    try:
        refs = [("dict", canon(LLSDMessageSerializer().serialize(gen.lib_message(cases[op]), as_dict=True))) for op in (op1, op2)]
    except Exception:
        part.count("hist_skipped_fresh_instance_fails")
        return
    _, _, region, transport = _eq_world()
    eqm = _fresh_eqm(region)
    del transport.packets[:]
    try:
        for op in (op1, op2):
            eqm.inject_message(gen.lib_message(cases[op]))
        events = eqm.take_injected_events()
    except Exception as e:
        part.violation("msg-llsd-history-independent", f"EventQueueManager.inject_message:{op1}-then-{op2}:raises", witness,
                       f"{name} ({small['tag']}): raised {type(e).__name__}: {str(e)[:200]}")
        return
    finally:
        del transport.packets[:]
    if len(events) != 2:
        part.violation("msg-llsd-history-independent", f"EventQueueManager.inject_message:{op1}-then-{op2}:event-count", witness, f"{len(events)} events")
        return
    for i, (ev, ref) in enumerate(zip(events, refs)):
        got = ("dict", canon(ev))
        if got != ref:
            for wh in _hist_where(ref, got, vtypes):
                part.violation("msg-llsd-history-independent", f"EventQueueManager.inject_message:{op1}-then-{op2}:{wh}", witness,
                               f"{name} ({small['tag']}): event {i + 1} differs from a fresh serializer's output: {_first_diff(ref[1], got[1])}")
    part.mark_nontrivial(("hist-eq", name, small["tag"], op1, op2))


# ---- event-queue snapshot: the queue must hold the message AS INJECTED ---------------------------------------------------
def eq_sequences(quick: bool) -> List[str]:
    """Every sequence over {I = inject_message(m), M = rewrite every variable of the SAME Message object m in place with the
    next value row} that starts with I, of length <= 3 (thorough: <= 4); a take_injected_events() closes each sequence."""
    out = []
    frontier = ["I"]
    for _ in range(3 if quick else 4):
        out += frontier
        frontier = [q + op for q in frontier for op in "IM"]
    return out


def _row_case(gen, name: str, k: int) -> dict:
    return {"name": name, **_HDR, "blocks": gen.blocks(gen.templates[name], k, {}), "tag": f"row{k}"}


def _mutate_in_place(gen, msg, case: dict):
    """Give every variable of every block of `msg` the value it has in `case` (same shape), through Block.__setitem__."""
    for bname, rows in gen.expected_values(case):
        for blk, row in zip(msg.blocks[bname], rows):
            for vn, val in row.items():
                blk[vn] = val


def check_eq_snapshot(part: Part, gen, name: str, k: int, seq: str, vtypes):
    witness = {"family": "eqsnap", "seed": gen.seed, "name": name, "row": k, "seq": seq}
    part.count("evaluations")
    part.count("eqsnap_evaluations")
    _, _, region, transport = _eq_world()
    eqm = _fresh_eqm(region)
    del transport.packets[:]
    cur = k
    msg = gen.lib_message(_row_case(gen, name, cur))
    injected: List[int] = []  # value row the message had at each injection
    try:
        for op in seq:
            if op == "I":
                eqm.inject_message(msg)
                injected.append(cur)
            else:
                cur += 1
                _mutate_in_place(gen, msg, _row_case(gen, name, cur))
        events = eqm.take_injected_events()
        n_wake = len(transport.packets)
    except Exception as e:
        part.violation("msg-eq-snapshot", f"EventQueueManager.inject_message:{seq}:raises", witness, f"{name}: raised {type(e).__name__}: {str(e)[:200]}")
        return
    finally:
        del transport.packets[:]
    if len(events) != len(injected) or n_wake != len(injected):
        part.violation("msg-eq-snapshot", f"EventQueueManager.inject_message:{seq}:event-count", witness,
                       f"{name}: {len(injected)} injections -> {len(events)} events, {n_wake} wake-up datagrams")
        return
    for i, (ev, row_k) in enumerate(zip(events, injected)):
        case_then = _row_case(gen, name, row_k)
        try:
            dec = LLSDMessageSerializer().deserialize(ev)
        except Exception as e:
            part.violation("msg-eq-snapshot", f"EventQueueManager.take_injected_events:{seq}:deserialize", witness,
                           f"{name}: event {i + 1} does not deserialize: {type(e).__name__}: {str(e)[:200]}")
            continue
        exp_blocks = gen.expected_values(case_then)
        if dec.name != name or list(dec.blocks.keys()) != [b for b, _ in exp_blocks]:
            part.violation("msg-eq-snapshot", f"EventQueueManager.inject_message:{seq}:blocks", witness,
                           f"{name}: event {i + 1}: {dec.name} {list(dec.blocks.keys())}")
            continue
        for bname, rows in exp_blocks:
            got = dec.blocks[bname]
            if len(got) != len(rows):
                part.violation("msg-eq-snapshot", f"EventQueueManager.inject_message:{seq}:block:{bname}", witness,
                               f"{name}: event {i + 1}: {len(got)} x {bname}, injected {len(rows)}")
                continue
            for j, (gb, row) in enumerate(zip(got, rows)):
                for vn, exp in row.items():
                    if vn not in gb.vars or not same_llsd_value(gb.vars[vn], exp):
                        t = vtypes[(bname, vn)]
                        part.violation("msg-eq-snapshot", f"EventQueueManager.inject_message:{seq}:{t.name}", witness,
                                       f"{name}.{bname}[{j}].{vn}: event {i + 1} of {len(events)} (injected with value row {row_k}, message "
                                       f"later rewritten up to row {cur}) carries {gb.vars.get(vn)!r}, the message held {exp!r} when injected")
    part.outcome(("eqsnap", seq, len(events), digest_canon_c(canon(events[-1]))))
    part.mark_nontrivial(("eqsnap", name, k, seq))


# ---- cold-process histories: the FIRST message of a type this process converts must not decide how later ones are converted ----
COLD_OP1 = ["serialize(small)", "deserialize(dict small)"]
COLD_OP2 = ["serialize(full)", "deserialize(xml full)", "deserialize(dict full)"]


def _in_cold_child(fn):
    """Runs fn() in a forked child of this worker and returns its (picklable) result or ("exc", text).  The caller guarantees that the
    forking process has never converted a message of the template concerned, so module- / class-level state about it is still cold."""
    import pickle
    r, w = os.pipe()
    pid = os.fork()
    if pid == 0:
        try:
            os.close(r)
            try:
                out = ("ok", fn())
            except Exception as e:  # reported by the parent
                out = ("exc", f"{type(e).__name__}: {str(e)[:200]}")
            with os.fdopen(w, "wb") as f:
                pickle.dump(out, f, protocol=4)
        finally:
            os._exit(0)
    os.close(w)
    with os.fdopen(r, "rb") as f:
        data = f.read()
    os.waitpid(pid, 0)
    if not data:
        return ("exc", "cold child died without a result")
    return pickle.loads(data)


def check_history_cold(part: Part, gen, name: str, vtypes, only=None):
    """Must run before anything else converts a message of template `name` in this process.  Child R (cold) converts only m_full;
    child S (cold) only produces m_small's dict form; child T(small, op1) (cold) applies op1 to m_small first and then every op2 to
    m_full.  T's op2 results must equal R's: what the first-seen message of a type looked like must not change later conversions."""
    pairs = list(history_pairs(gen, name))
    if not pairs:
        return
    full = pairs[0][1]

    def ref_child():
        inputs = {"full_dict": LLSDMessageSerializer().serialize(gen.lib_message(full), as_dict=True),
                  "full_xml": LLSDMessageSerializer().serialize(gen.lib_message(full))}
        res = {op: _hist_apply(LLSDMessageSerializer(), op, gen, None, full, inputs) for op in COLD_OP2}
        return inputs, res

    st, val = _in_cold_child(ref_child)
    if st != "ok":
        part.count("hist_skipped_fresh_instance_fails")
        return
    inputs, refs = val
    for small, _ in pairs:
        if only is not None and small["tag"] != only[0]:
            continue
        st, small_dict = _in_cold_child(lambda: LLSDMessageSerializer().serialize(gen.lib_message(small), as_dict=True))
        if st != "ok":
            part.count("hist_skipped_fresh_instance_fails")
            continue
        inp = dict(inputs, small_dict=small_dict)
        for op1 in COLD_OP1:
            if only is not None and op1 != only[1]:
                continue
            witness = {"family": "hist-cold", "seed": gen.seed, "small": small, "full": full, "ops": [op1]}
            part.count("evaluations")
            part.count("hist_cold_evaluations")

            def test_child():
                ser = LLSDMessageSerializer()
                _hist_apply(ser, op1, gen, small, full, inp)
                return {op: _hist_apply(LLSDMessageSerializer(), op, gen, small, full, inp) for op in COLD_OP2}

            st, got = _in_cold_child(test_child)
            if st != "ok":
                part.violation("msg-llsd-history-independent", f"LLSDMessageSerializer:cold:{op1}-first:raises", witness,
                               f"{name} ({small['tag']}): in a process whose first {name} conversion is {op1}, converting the full message raised {got}; "
                               f"a process that converts the full message first succeeds")
                continue
            for op2 in COLD_OP2:
                if got[op2] != refs[op2]:
                    for wh in _hist_where(refs[op2], got[op2], vtypes):
                        part.violation("msg-llsd-history-independent", f"LLSDMessageSerializer:cold:{op1}-first-then-{op2}:{wh}", witness,
                                       f"{name} ({small['tag']}): in a process whose first {name} conversion is {op1}, {op2} differs from a process "
                                       f"that converts the full message first: {_first_diff(refs[op2][1], got[op2][1])}")
            part.mark_nontrivial(("hist-cold", name, small["tag"], op1))


def check_history(part: Part, gen, name: str, vtypes):
    for small, full in history_pairs(gen, name):
        try:
            inputs = _hist_inputs(gen, small, full)
        except Exception:
            part.count("hist_skipped_fresh_instance_fails", len(HIST_OPS) ** 2 + len(EQ_OPS) ** 2)
            continue
        refs: Dict[str, Any] = {}
        for op1 in HIST_OPS:
            for op2 in HIST_OPS:
                check_history_pair(part, gen, small, full, op1, op2, vtypes, inputs, refs)
        for op1 in EQ_OPS:
            for op2 in EQ_OPS:
                check_history_eq(part, gen, small, full, op1, op2, vtypes)
        part.count("hist_pairs")


def digest_canon_c(c) -> str:
    import hashlib
    return hashlib.blake2b(repr(c).encode("utf8", "backslashreplace"), digest_size=8).hexdigest()


def digest_canon(d) -> str:
    import hashlib
    return hashlib.blake2b(repr(canon(d)).encode("utf8", "backslashreplace"), digest_size=8).hexdigest()


# =====================================================================================================================
# Workers
# =====================================================================================================================
_G: msggen.Gen = None
_TREES: List[Any] = []
_REALS: List[Tuple[int, str]] = []
_EQ_SEQS: List[str] = []


def _set_tz(tz: str):
    os.environ["TZ"] = tz
    time.tzset()
    # guard: the switch really took effect in this process
    off = {"UTC": 0, "America/Los_Angeles": -8 * 3600, "Europe/London": 0, "Australia/Lord_Howe": 11 * 3600}[tz]
    got = int(round((datetime.datetime(2020, 1, 2, 12).astimezone().utcoffset()).total_seconds()))
    if got != off:
        raise RuntimeError(f"time zone switch to {tz} did not take effect (offset {got})")


def _work(unit):
    kind = unit[0]
    part = Part()
    if kind == "msg":
        _set_tz("UTC")
        from hippolyzer.lib.base.message.udpdeserializer import UDPMessageDeserializer
        gen = _G
        de_udp = UDPMessageDeserializer()
        for name in unit[1]:
            vtypes = _var_types(name)
            check_history_cold(part, gen, name, vtypes)  # first: this process has not converted a message of this type yet
            n = 0
            for c in value_rows(gen, name):
                check_msg_case(part, gen, c, LLSDMessageSerializer(), vtypes, de_udp)
                if n == 1:
                    part.sample({"family": "msg", **msggen.case_summary(c)}, limit=1)
                n += 1
            for c in gen.count_variants(name):
                check_msg_case(part, gen, c, LLSDMessageSerializer(), vtypes, de_udp)
            check_history(part, gen, name, vtypes)
            if gen.templates[name].blocks:
                for k in range(gen.n_rows(gen.templates[name])):
                    for seq in _EQ_SEQS:
                        check_eq_snapshot(part, gen, name, k, seq, vtypes)
    elif kind == "tree":
        _, tz, lo, hi = unit
        _set_tz(tz)
        for spec in _TREES[lo:hi]:
            for codec in CODECS:
                check_tree(part, tz, codec, spec)
        if lo == 0:
            part.sample({"family": "tree", "tz": tz, "tree": _TREES[min(hi - 1, len(BASE_LEAVES) + 5)]}, limit=1)
    elif kind == "real":
        _set_tz("UTC")
        for width, hx in _REALS[unit[1]:unit[2]]:
            for codec in CODECS:
                check_real(part, codec, width, hx)
    elif kind == "us":
        _, lo, hi = unit
        _set_tz("UTC")
        for us in range(lo, hi):
            for codec in US_CODECS:
                check_us(part, codec, us)
    return part.dump()


def _forked_map(fn, items, jobs: int):
    """Like hmc.core.pmap but ALWAYS in forked children (the parent's time zone is never touched), ordered results."""
    items = list(items)
    ctx = mp.get_context("fork")
    with ctx.Pool(max(1, min(jobs, len(items)))) as pool:
        return pool.map(fn, items, 1)


def run(run: Run):
    global _G, _TREES, _REALS, _EQ_SEQS
    quick = run.tier == "quick"
    t0 = time.time()
    _G = make_gen(run.seed)
    names = list(_G.templates)
    if len(names) < 480:
        raise RuntimeError("reference template parse found too few templates")
    _TREES = enumerate_trees(quick)
    units: List[tuple] = []
    step = 8
    for i in range(0, len(names), step):
        units.append(("msg", names[i:i + step]))
    chunk = max(50, len(_TREES) // (max(run.jobs, 1) * 2))
    for tz in TZS:
        for lo in range(0, len(_TREES), chunk):
            units.append(("tree", tz, lo, min(lo + chunk, len(_TREES))))
    _REALS = real_sweep(quick)
    _EQ_SEQS = eq_sequences(quick)
    for lo in range(0, len(_REALS), 1500):
        units.append(("real", lo, min(lo + 1500, len(_REALS))))
    us_hi = 20_000 if quick else 1_000_000
    us_chunk = 5_000 if quick else 25_000
    for lo in range(0, us_hi, us_chunk):
        units.append(("us", lo, min(lo + us_chunk, us_hi)))
    # longest units first so the pool drains evenly; merge order stays deterministic (results are ordered by unit)
    for d in _forked_map(_work, units, run.jobs):
        run.merge(d)
    depth = 3 if quick else 4
    run.rule = (
        "msg: for each of the %d templates value rows 0..L-1 (every alphabet element of every variable occurs; finite floats, XML-legal "
        "text) + Variable-block counts {0,2,255}, mixed counts, every trailing-block omission, each through dict, XML and "
        "EventQueueManager.inject_message (fresh serializer / manager per case); hist: for every template with >= 2 blocks or a Variable "
        "block, every (m_small, m_full) pair (trailing-block omissions, counts 0, one Variable block left out) x all 25 ordered pairs of "
        "{serialize small/full, deserialize dict small/full, deserialize xml full} on one serializer instance vs a fresh instance per "
        "operation, + 4 ordered pairs of inject_message on one EventQueueManager; hist-cold: the same (m_small, m_full) pairs in forked children "
        "of a worker that has never converted the template: {serialize, deserialize dict} of m_small as the process's FIRST conversion of that type, then "
        "{serialize, deserialize xml, deserialize dict} of m_full, against a child that converts m_full first (module-/class-level per-template state); eqsnap: every template x every start row x every {inject, rewrite-in-place} sequence starting with "
        "inject of length <= %d on one EventQueueManager; tree: all %d LLSD trees (incl. the 2^7-1 presence/absence combinations of apostrophe, double quote, backslash, LF, CR, NUL, non-ASCII x 3 orders as string leaves, "
        "each alone and each-choice in arrays/maps) of depth <= %d over %d base leaves / containers {array,map} of size 0..2 "
        "(each-choice sibling pairs%s; %d map keys cycled) x %d codecs x %d process time zones; real: %d F32/F64 bit patterns (every exponent x mantissa "
        "patterns x signs) x 6 codecs; us: every microsecond value 0..%d of one "
        "date x {binary, notation, xml}. distinct_nontrivial = distinct (template, block counts, row tag) + distinct (tz, codec, tree "
        "shape, leaf-kind set)" % (len(names), 3 if quick else 4, len(_TREES), depth, len(BASE_LEAVES), "" if quick else ", full cross product at depth 2",
                                   len(KEYS), len(CODECS), len(TZS), len(_REALS), us_hi - 1))
    run.assumptions += [
        "message value domain = what LLSD/XML can carry: finite floats, str without code points forbidden by XML 1.0 (and without "
        "trailing NUL), bytes for binary fields, quaternions Quaternion(x,y,z) with derived W; the LLUDP header (flags, packet id, acks) "
        "is not part of the LLSD form and is not compared",
        "a naive datetime denotes UTC (the convention the XML/notation forms write with a 'Z' suffix); map key order is not significant",
        "sibling combinations are each-choice, not the full cross product (the codecs keep no state between siblings but the cursor); "
        "depth is bounded by %d and container size by 2" % depth,
        "time zones are switched per forked worker via TZ + time.tzset(); the system tz database is trusted",
    ]
    run.coverage_extra["templates"] = len(names)
    run.coverage_extra["trees"] = len(_TREES)
    run.coverage_extra["leaves"] = len(LEAVES)
    run.coverage_extra["time_zones"] = TZS
    run.coverage_extra["wall"] = round(time.time() - t0, 1)


# =====================================================================================================================
def _replay_child(w):
    part = Part()
    fam = w.get("family")
    if fam == "tree":
        _set_tz(w["tz"])
        check_tree(part, w["tz"], w["codec"], w["tree"])
    elif fam == "real":
        _set_tz("UTC")
        check_real(part, w["codec"], int(w["width"]), w["hex"])
    elif fam == "us":
        _set_tz("UTC")
        check_us(part, w["codec"], int(w["us"]))
    elif fam == "eqsnap":
        _set_tz("UTC")
        gen = make_gen(int(w.get("seed", 0)))
        check_eq_snapshot(part, gen, w["name"], int(w["row"]), w["seq"], _var_types(w["name"]))
    elif fam == "hist-cold":
        _set_tz("UTC")
        gen = make_gen(int(w.get("seed", 0)))
        for k in ("small", "full"):
            w[k]["acks"] = tuple(w[k]["acks"])
            w[k]["blocks"] = [(b, rows) for b, rows in w[k]["blocks"]]
        check_history_cold(part, gen, w["full"]["name"], _var_types(w["full"]["name"]), only=(w["small"]["tag"], w["ops"][0]))
    elif fam == "hist":
        _set_tz("UTC")
        gen = make_gen(int(w.get("seed", 0)))
        for k in ("small", "full"):
            w[k]["acks"] = tuple(w[k]["acks"])
            w[k]["blocks"] = [(b, rows) for b, rows in w[k]["blocks"]]
        op1, op2 = w["ops"]
        if op1 in EQ_OPS:
            check_history_eq(part, gen, w["small"], w["full"], op1, op2, _var_types(w["full"]["name"]))
        else:
            check_history_pair(part, gen, w["small"], w["full"], op1, op2, _var_types(w["full"]["name"]))
    else:
        _set_tz("UTC")
        from hippolyzer.lib.base.message.udpdeserializer import UDPMessageDeserializer
        gen = make_gen(int(w.get("seed", 0)))
        c = w["case"]
        c["acks"] = tuple(c["acks"])
        c["blocks"] = [(b, rows) for b, rows in c["blocks"]]
        check_msg_case(part, gen, c, LLSDMessageSerializer(), _var_types(c["name"]), UDPMessageDeserializer())
    return list(part.viol.values())


def replay(w):
    return _forked_map(_replay_child, [w], 1)[0]

"""C03 -- zero-coding is a lossless, bounded, canonical run-length code (bounded-exhaustive enumeration, DESIGN §4 C03).

Seam: ``UDPMessageSerializer.zero_code_compress`` / ``UDPMessageDeserializer.zero_code_expand`` called directly.
Oracle: ``hmc.refwire.zero_compress`` / ``zero_expand`` (plain-Python statement of the format: ``00 n`` = n zeros, every
extra ``00`` before the count adds 256, trailing ``00``s without a count = 1 + 256*(k-1) zeros), re-checked at start-up
against the six vectors of the format description.  CAP = 0x3000 is the decoder's documented size cap.

Families (every element of each is executed; nothing is sampled):
  A  every string s over {00,01,FF} with len(s) <= 12 (quick: 10): compress -> expand
  B  every zero-run length L in 0..1100 in every context left,right in {"",01,FF}: (i) compress -> expand of
     left+00*L+right, (ii) decoder on the single wrap-form token for L (``00``*(L//256+1) + L%256, L%256 != 0) in the
     same contexts; thorough adds two runs (a,b) over the boundary lengths separated by one literal
  C  every decoder input x over {00,01,02,FF} with len(x) <= 8 (quick: 7): expand(x) vs reference
  D  cap boundary: for every reference length in CAP-560 .. CAP+600 (step 1) reached by a literal body or a ``00 FF``
     body, followed by every tail token shape (nothing, literal, ``00 n``, wrap ``00 00 n``, lone trailing ``00``,
     ``00 00``): expand vs the cap rule; round trip of strings of length CAP-2..CAP
  E  adversarial expansion: k x ``00`` (pure continuations), (``00 FF``) x k, (``00 00 FF``) x k, k x ``00`` + FF, for
     k = 1 .. CAP/256+4 and k in {64,100,255,256,1000,4096,20000,65535}: must raise once the reference length exceeds
     CAP+512, and the peak memory allocated during the call (tracemalloc) must stay below 8*CAP

  F  held results: for every ordered pair (x, y) of strings over {00,01,FF} with len <= 4 (thorough 5) the *un-copied* result of
     compress(x) is held while compress(y) runs (likewise expand on their encodings, and compress fed its own held result):
     a result must keep its bytes after later calls and must not change its input

  G  the pair as wired into the codec: every value row of 14 basis templates (all 481 in the thorough tier), flagged zerocoded, through the real
     UDPMessageSerializer.serialize: the body on the wire must be canonical and must zero-decode (reference) to the plain body; the
     same for a message that was parsed from a zerocoded datagram carrying 1..5 bytes beyond the last template block (with zeros
     among them), body touched, then serialized again

Clauses:
  wired-roundtrip / wired-canonical   family G, sites UDPMessageSerializer.serialize[zerocoded body] / [...after parse with trailing bytes]
  result-stable a result returned by compress/expand still holds the same bytes after any later call; feeding a held result
                back in gives what a copy of it gives
  roundtrip     expand(compress(s)) == s for len(s) <= CAP   (site = the side the reference blames)
  canonical     no ``00`` in compress(s) is followed by ``00`` or is last (count in 1..255, no wrap form, no lone zero)
  length-bound  len(compress(s)) <= len(reference greedy encoding) (runs are split only when the count byte is full)
  decoder-ref   expand(x) == reference(x) whenever len(reference(x)) <= CAP (and it must not raise there)
  cap-refuse    len(reference(x)) > CAP: expand either raises or returns exactly reference(x) with at most CAP+512
                bytes; beyond CAP+512 it must raise
  cap-alloc     peak allocation during expand stays below 8*CAP on the adversarial family (refuses *instead of*
                allocating without bound)

Not enumerated here: the zero-coded header peek (covered through whole datagrams in C01/C02), random general strings
(the quantifier's sampled part is deliberately not built, DESIGN §7).
"""
from __future__ import annotations

import itertools
import struct
import re
import tracemalloc
from hippolyzer.lib.base.message.udpdeserializer import UDPMessageDeserializer
from hippolyzer.lib.base.message.udpserializer import UDPMessageSerializer

from hmc import msggen, refwire
from hmc.core import HarnessError, Part, Run, pmap

LEVEL = "exploration"
CAP = 0x3000
SLACK = 512
ALLOC_BOUND = 8 * CAP
S_COMP = "UDPMessageSerializer.zero_code_compress"
S_EXP = "UDPMessageDeserializer.zero_code_expand"

compress = UDPMessageSerializer.zero_code_compress
expand = UDPMessageDeserializer.zero_code_expand
ref_compress = refwire.zero_compress
ref_expand = refwire.zero_expand

ENC_ALPHA = (b"\x00", b"\x01", b"\xff")
DEC_ALPHA = (b"\x00", b"\x01", b"\x02", b"\xff")
CONTEXTS = (b"", b"\x01", b"\xff")
BOUNDARY_RUNS = (1, 2, 254, 255, 256, 257, 509, 510, 511, 512, 765, 766)


def _selfcheck_reference():
    vectors = [  # (encoded, decoded) from the format description / the viewer's behaviour
        (b"\x01\x00\x01\x01", b"\x01\x00\x01"),
        (b"\x01\x00\x00\x02\x01", b"\x01" + b"\x00" * 258 + b"\x01"),
        (b"\x01\x00\x00\x00\x02\x01", b"\x01" + b"\x00" * 514 + b"\x01"),
        (b"\x00", b"\x00"),
        (b"\x01\x00\xff\x00\x02\x01", b"\x01" + b"\x00" * 257 + b"\x01"),
        (b"\x00\x00", b"\x00" * 257),
    ]
    for enc, dec in vectors:
        if ref_expand(enc) != dec:
            raise HarnessError(f"reference zero_expand disagrees with the format description on {enc.hex()}")
    if ref_compress(b"\x01" + b"\x00" * 257 + b"\x01") != b"\x01\x00\xff\x00\x02\x01":
        raise HarnessError("reference zero_compress disagrees with the format description")


# ---- classification (sites / coverage keys) ---------------------------------------------------------------------
_RUNS = re.compile(rb"\x00+")
_TOKENS = re.compile(rb"(\x00+)([^\x00]?)", re.S)


def run_signature(s: bytes) -> tuple:
    """Lengths of the maximal zero runs + whether the string starts / ends inside a run."""
    return tuple(len(r) for r in _RUNS.findall(s)), s[:1] == b"\x00", s[-1:] == b"\x00"


def enc_site(s: bytes) -> str:
    longest = max(run_signature(s)[0], default=0)
    return f"{S_COMP}[{'run>=255' if longest >= 255 else 'run<255'}]"


def token_signature(x: bytes) -> tuple:
    """Decoder-input structure: for each zero token (number of 00 bytes, count byte or None when the input ends)."""
    return tuple((len(z), c[0] if c else None) for z, c in _TOKENS.findall(x))


def dec_site(x: bytes) -> str:
    sig = token_signature(x)
    wrap = any(k > 1 for k, _ in sig)
    trail = any(c is None for _, c in sig)
    kind = "+".join(t for t, on in (("wrap", wrap), ("trailing", trail)) if on) or "plain"
    return f"{S_EXP}[{kind}]"


def ref_len(x: bytes) -> int:
    """Length of the reference expansion without materialising it."""
    sig = token_signature(x)
    zeros = sum(256 * (k - 1) + (c if c is not None else 1) for k, c in sig)
    literals = len(x) - x.count(0) - sum(1 for _, c in sig if c is not None)
    return zeros + literals


# ---- clause evaluation ------------------------------------------------------------------------------------------
def check_encode(part: Part, s: bytes, family: str):
    """compress -> expand of one plaintext (len(s) <= CAP)."""
    part.count("evaluations")
    part.count(f"{family}_cases")
    w = {"kind": "encode", "data": s}
    try:
        c = bytes(compress(s))
    except Exception as e:
        part.violation("roundtrip", enc_site(s), w, f"zero_code_compress raised {e!r} on {len(s)} bytes")
        return
    # canonical form
    if b"\x00\x00" in c or c[-1:] == b"\x00":
        i = c.find(b"\x00\x00")
        part.violation("canonical", enc_site(s), w,
                       f"compress output {c[:24].hex()}.. has " + (f"00 followed by 00 at offset {i} (wrap form / zero count)" if i >= 0
                                                                  else "a trailing 00 without a count"))
    rc = ref_compress(s)
    if len(c) > len(rc):
        part.violation("length-bound", enc_site(s), w, f"compress output is {len(c)} bytes, greedy canonical encoding is {len(rc)}")
    try:
        e = bytes(expand(c))
    except Exception as ex:
        blame = enc_site(s) if ref_expand(c) != s else dec_site(c)
        part.violation("roundtrip", blame, w, f"zero_code_expand raised {ex!r} on compress output of a {len(s)}-byte string")
        return
    if e != s:
        blame = enc_site(s) if ref_expand(c) != s else dec_site(c)
        part.violation("roundtrip", blame, w, f"expand(compress(s)) != s: s={s[:20].hex()}.. ({len(s)} bytes) compressed={c[:20].hex()}.. "
                                              f"expanded={e[:20].hex()}.. ({len(e)} bytes)")
    part.outcome((len(s), len(c), c.count(0)))
    sig = run_signature(s)
    if any(r >= 2 for r in sig[0]):
        part.count("nontrivial_cases")
        part.mark_nontrivial(("enc", sig))


def check_decode(part: Part, x: bytes, family: str, alloc: bool = False):
    """expand of one (possibly non-canonical / adversarial) encoded string against the reference + cap rule."""
    part.count("evaluations")
    part.count(f"{family}_cases")
    w = {"kind": "decode", "data": x} if len(x) <= 4096 else {"kind": "decode", "rle": _rle(x)}
    # reference length without materialising huge outputs
    rlen = ref_len(x)
    site = dec_site(x)
    if alloc:
        tracemalloc.start()
        tracemalloc.reset_peak()
        base = tracemalloc.get_traced_memory()[0]
    try:
        got = expand(x)
        raised = None
    except Exception as e:  # noqa: the kind of refusal is not prescribed
        got, raised = None, e
    if alloc:
        peak = tracemalloc.get_traced_memory()[1] - base
        tracemalloc.stop()
        if peak > ALLOC_BOUND:
            part.violation("cap-alloc", site, w, f"peak allocation {peak} bytes during expand of {len(x)} input bytes "
                                                 f"(reference length {rlen}); bound {ALLOC_BOUND} = 8*CAP")
    if rlen <= CAP:
        ref = ref_expand(x)
        if raised is not None:
            part.violation("decoder-ref", site, w, f"expand raised {raised!r}; reference gives {len(ref)} bytes (<= cap)")
        elif bytes(got) != ref:
            part.violation("decoder-ref", site, w, f"input {x[:24].hex()}: expand gave {bytes(got)[:24].hex()}.. ({len(got)} bytes), "
                                                   f"reference {ref[:24].hex()}.. ({len(ref)} bytes)")
        part.outcome(("ok", len(x), rlen))
    else:
        if raised is None:
            if len(got) > CAP + SLACK:
                part.violation("cap-refuse", site, w, f"expand returned {len(got)} bytes (> cap {CAP} + {SLACK}) instead of refusing; "
                                                      f"reference length {rlen}")
            elif len(got) != rlen or bytes(got) != ref_expand(x):
                part.violation("cap-refuse", site, w, f"expand returned {len(got)} bytes that are not the reference expansion ({rlen} bytes)")
            part.outcome(("over-cap-returned", rlen - CAP))
        else:
            part.outcome(("refused", type(raised).__name__))
        part.count("over_cap_cases")
    sig = token_signature(x)
    if any(k > 1 or c is None for k, c in sig) or rlen > CAP:
        part.count("nontrivial_cases")
        part.mark_nontrivial(("dec", sig if len(sig) <= 8 else (len(sig), sig[:3], sig[-3:]), rlen > CAP))


def _safe_hex(fn, data: bytes) -> str:
    try:
        return bytes(fn(data)).hex()
    except Exception as e:  # samples are illustration only; failures are reported by the clauses
        return f"raised {e!r}"


def _outcome_text(x: bytes) -> str:
    try:
        return f"returned {len(expand(x))} bytes"
    except Exception as e:
        return f"raised {e!r}"


def _rle(x: bytes):
    out = []
    for b, g in itertools.groupby(x):
        out.append([b, sum(1 for _ in g)])
    return out


def _unrle(r) -> bytes:
    return b"".join(bytes([b]) * n for b, n in r)


# ---- work units -------------------------------------------------------------------------------------------------
def _unit_A(arg):
    prefix, max_len = arg
    part = Part()
    if prefix is None:  # all strings shorter than the prefix length
        for n in range(0, 4):
            for t in itertools.product(ENC_ALPHA, repeat=n):
                check_encode(part, b"".join(t), "A")
        return part.dump()
    for n in range(0, max_len - len(prefix) + 1):
        for t in itertools.product(ENC_ALPHA, repeat=n):
            check_encode(part, prefix + b"".join(t), "A")
    if prefix == b"\x00\x01\xff\x00":
        part.sample({"family": "A", "plain": (prefix + b"\x00\x00\x01").hex(), "compressed": _safe_hex(compress, prefix + b"\x00\x00\x01")}, limit=1)
    return part.dump()


def _unit_C(arg):
    prefix, max_len = arg
    part = Part()
    if prefix is None:
        for n in range(0, 3):
            for t in itertools.product(DEC_ALPHA, repeat=n):
                check_decode(part, b"".join(t), "C")
        return part.dump()
    for n in range(0, max_len - len(prefix) + 1):
        for t in itertools.product(DEC_ALPHA, repeat=n):
            check_decode(part, prefix + b"".join(t), "C")
    return part.dump()


def _unit_B(arg):
    lo, hi, thorough = arg
    part = Part()
    for L in range(lo, hi):
        for left in CONTEXTS:
            for right in CONTEXTS:
                check_encode(part, left + b"\x00" * L + right, "B")
                if L % 256:
                    tok = b"\x00" * (L // 256 + 1) + bytes([L % 256])
                    check_decode(part, left + tok + right, "B")
                    if not right:  # the same run as trailing continuation zeros (only 1 + 256*j is expressible)
                        if L % 256 == 1:
                            check_decode(part, left + b"\x00" * (L // 256 + 1), "B")
    if lo == 0:
        part.sample({"family": "B", "run": 256, "compressed": _safe_hex(compress, b"\x01" + b"\x00" * 256 + b"\xff")}, limit=1)
        if thorough:
            for a in BOUNDARY_RUNS:
                for b in BOUNDARY_RUNS:
                    for sep in (b"\x01", b"\xff"):
                        for left in CONTEXTS:
                            for right in CONTEXTS:
                                check_encode(part, left + b"\x00" * a + sep + b"\x00" * b + right, "B2")
    return part.dump()


TAILS = (b"", b"\x01", b"\x00", b"\x00\x01", b"\x00\x02", b"\x00\xff", b"\x00\x00", b"\x00\x00\x01", b"\x00\x00\xff", b"\x00\x00\x00",
         b"\x00\xff\x01", b"\x00\x00\xff\x01\x01", b"\x01\x00")


def _unit_D(arg):
    body_kind, lo, hi = arg
    part = Part()
    for target in range(lo, hi):  # reference length of the body
        if body_kind == "lit":
            body = b"\x01" * target
        else:  # run body: as many full 00 FF tokens as fit, rest literals
            k = target // 255
            body = b"\x00\xff" * k + b"\x02" * (target - 255 * k)
        for tail in TAILS:
            check_decode(part, body + tail, "D")
    return part.dump()


def _unit_D_roundtrip(_):
    part = Part()
    for n in (CAP - 2, CAP - 1, CAP):
        for s in (b"\x01" * n, b"\x00" * n, (b"\x00\x01" * n)[:n], (b"\x01\x00" * n)[:n], b"\xff" + b"\x00" * (n - 2) + b"\xff",
                  (b"\x00" * 255 + b"\x01") * (n // 256) + b"\x00" * (n % 256)):
            assert len(s) == n
            check_encode(part, s, "D")
    return part.dump()


def _held_pair(part: Part, x: bytes, y: bytes):
    part.count("evaluations")
    part.count("F_cases")
    w = {"kind": "held", "x": x, "y": y}
    ex_c = ref_compress(x)
    try:
        rx = compress(x)
        snap = bytes(rx)
        compress(y)
        if bytes(rx) != snap:
            part.violation("result-stable", S_COMP + "[held-result]", w, f"compress({x.hex()}) returned {snap.hex()}; after compress({y.hex()}) "
                                                                         f"the same object holds {bytes(rx).hex()}")
        again = bytes(compress(rx))
        if again != bytes(compress(snap)) or bytes(rx) != snap:
            part.violation("result-stable", S_COMP + "[result-as-input]", w, f"compress(compress({x.hex()})) on the held result gave {again.hex()}, "
                                                                             f"on a copy {bytes(compress(snap)).hex()}; held result now {bytes(rx).hex()}")
        dx = expand(ex_c)
        dsnap = bytes(dx)
        expand(ref_compress(y))
        if bytes(dx) != dsnap or dsnap != x:
            part.violation("result-stable", S_EXP + "[held-result]", w, f"expand of the encoding of {x.hex()} returned {dsnap.hex()}; after "
                                                                        f"expanding the encoding of {y.hex()} the same object holds {bytes(dx).hex()}")
    except Exception as e:
        part.violation("result-stable", S_COMP + "[held-result]", w, f"raised {e!r}")
    if x != y and x and y:
        part.mark_nontrivial(("held", x, y))


def _unit_F(arg):
    prefix, n = arg
    part = Part()
    strings = [b""] + [b"".join(t) for k in range(1, n + 1) for t in itertools.product(ENC_ALPHA, repeat=k)]
    xs = [x for x in strings if x[:1] == prefix] if prefix else [b""]
    for x in xs:
        for y in strings:
            _held_pair(part, x, y)
    return part.dump()


TRAILERS = (b"\x00", b"\x05\x00\x00\x00\x00", b"\x01\x00\x01", b"\x00\x00", b"\x07\x00", b"\x09")
_GEN = None


def _wire_body(data: bytes) -> bytes:
    flags, _pid, _off = struct.unpack(">BIB", data[:6])
    end = len(data)
    if flags & 0x10:
        end -= 1 + 4 * data[-1]
    return data[6:end]


def _check_wired(part: Part, wire: bytes, plain: bytes, site: str, w: dict):
    if b"\x00\x00" in wire or wire[-1:] == b"\x00":
        part.violation("wired-canonical", site, w, f"zero-coded body on the wire {wire[:24].hex()}.. has a zero without a count in 1..255")
    try:
        back = ref_expand(wire)
    except Exception as e:
        back = repr(e)
    if back != plain:
        part.violation("wired-roundtrip", site, w, f"the body on the wire does not zero-decode to the message body: {len(plain)} plain bytes, "
                                                   f"wire {wire[:20].hex()}.. decodes to {back[:20].hex() if isinstance(back, bytes) else back}..")


def _unit_G(name):
    global _GEN
    if _GEN is None:
        _GEN = msggen.Gen(0)
    gen = _GEN
    part = Part()
    ser = UDPMessageSerializer()
    de = UDPMessageDeserializer()
    tmpl = gen.templates[name]
    seen = set()
    for case in gen.value_rows(name):
        case = dict(case, flags=(case["flags"] | 0x80) & ~0x10, acks=(), extra=b"")
        ref = gen.ref_message(case)
        plain = refwire.encode_body(tmpl, ref["blocks"], b"")
        if len(plain) > CAP or plain in seen:
            continue
        seen.add(plain)
        part.count("evaluations")
        part.count("G_cases")
        w = {"kind": "wired", "name": name, "tag": case["tag"]}
        try:
            data = bytes(ser.serialize(gen.lib_message(case)))
        except Exception as e:
            part.violation("wired-roundtrip", "UDPMessageSerializer.serialize[zerocoded body]", w, f"serialize raised {e!r}")
            continue
        _check_wired(part, _wire_body(data), plain, "UDPMessageSerializer.serialize[zerocoded body]", w)
        if plain.count(0) and len(ref_compress(plain)) >= len(plain):
            part.mark_nontrivial(("wired-no-gain", name, case["tag"]))
        if len(seen) > 3:
            continue
        # the zero-coded header peek: extra header bytes (with isolated zeros, which GROW when coded) in front of a zerocoded body
        for extra in msggen.EXTRAS[1:4] + [b"\x00\x01" * 10, b"\x00" * 9 + b"\x05"]:
            part.count("evaluations")
            part.count("G_extra_cases")
            w3 = {"kind": "wired", "name": name, "tag": case["tag"], "extra": extra}
            site = "UDPMessageDeserializer._parse_message_header[zerocoded, extra bytes]"
            c3 = dict(case, extra=extra)
            try:
                d3 = bytes(ser.serialize(gen.lib_message(c3)))
                m3 = de.deserialize(d3)
                list(m3.blocks.items())
                if m3.name != name or bytes(m3.extra) != extra:
                    part.violation("wired-roundtrip", site, w3, f"decoded name {m3.name!r} extra {bytes(m3.extra).hex()} for {name} with extra {extra.hex()}")
            except Exception as e:
                part.violation("wired-roundtrip", site, w3, f"a datagram the serializer produced ({len(extra)} extra bytes {extra[:8].hex()}..) "
                                                            f"does not decode: {e!r}")
            part.mark_nontrivial(("wired-extra", name, extra))
        # parsed from the wire with bytes beyond the last block, touched, serialized again
        hdr = struct.pack(">BIB", case["flags"], case["packet_id"], 0)
        for t in TRAILERS:
            part.count("evaluations")
            part.count("G_trailing_cases")
            w2 = {"kind": "wired", "name": name, "tag": case["tag"], "trailing": t}
            site = "UDPMessageSerializer.serialize[zerocoded body after parse with trailing bytes]"
            try:
                m = de.deserialize(hdr + ref_compress(plain + t))
                list(m.blocks.items())
                out = bytes(ser.serialize(m))
            except Exception:
                part.count("G_trailing_rejected")     # a template that cannot be followed by extra bytes (greedy last block): not judged
                continue
            _check_wired(part, _wire_body(out), plain + t, site, w2)
            part.mark_nontrivial(("wired-trailing", name, t))
    return part.dump()


ADV_K = tuple(range(1, CAP // 256 + 5)) + (64, 100, 255, 256, 1000, 4096, 20000, 65535)


def _unit_E(k):
    part = Part()
    for fam, x in (("zeros", b"\x00" * k), ("00FF", b"\x00\xff" * k), ("0000FF", b"\x00\x00\xff" * k), ("zeros+FF", b"\x00" * k + b"\xff"),
                   ("lit+zeros", b"\x01" * 16 + b"\x00" * k), ("00FF+lone", b"\x00\xff" * k + b"\x00")):
        check_decode(part, x, "E", alloc=True)
    if k in (2, 49, 65535):
        x = b"\x00\x00\xff" * k
        part.sample({"family": "E", "input": f"(00 00 ff) x {k}", "reference_length": ref_len(x), "expand": _outcome_text(x)}, limit=1)
    return part.dump()


def run(run: Run):
    _selfcheck_reference()
    quick = run.tier == "quick"
    enc_len = 10 if quick else 12
    dec_len = 7 if quick else 8
    units = []
    units.append((_unit_A, (None, enc_len)))
    for t in itertools.product(ENC_ALPHA, repeat=4):
        units.append((_unit_A, (b"".join(t), enc_len)))
    units.append((_unit_C, (None, dec_len)))
    for t in itertools.product(DEC_ALPHA, repeat=3):
        units.append((_unit_C, (b"".join(t), dec_len)))
    for lo in range(0, 1101, 50):
        units.append((_unit_B, (lo, min(lo + 50, 1101), not quick)))
    for kind in ("lit", "run"):
        for lo in range(CAP - 560, CAP + 601, 40):
            units.append((_unit_D, (kind, lo, min(lo + 40, CAP + 601))))
    units.append((_unit_D_roundtrip, None))
    for k in ADV_K:
        units.append((_unit_E, k))
    for pre in (None,) + ENC_ALPHA:
        units.append((_unit_F, (pre, 4 if quick else 5)))
    for name in (msggen.HEADER_BASIS if quick else list(msggen.Gen(0).templates)):
        units.append((_unit_G, name))
    # biggest units first so the pool drains evenly
    for d in pmap(_call, units, run.jobs, chunksize=1):
        run.merge(d)
    run.rule = (f"A: all strings over {{00,01,FF}} up to length {enc_len} through compress->expand; B: every zero-run length 0..1100 x 9 "
                f"left/right contexts (encode + wrap-form decode); C: all decoder inputs over {{00,01,02,FF}} up to length {dec_len}; "
                f"D: every body reference length CAP-560..CAP+600 x 2 body kinds x {len(TAILS)} tail tokens; E: {len(ADV_K)} sizes x 6 adversarial "
                "shapes with allocation tracing; F: every ordered pair of strings over {00,01,FF} up to length 4 (thorough 5) with the first call's result held "
                "across the second; G: every value row of {'14 basis' if quick else 'all 481'} templates flagged zerocoded through the real serialize(), "
                f"plus {len(TRAILERS)} trailing-byte variants parsed and re-serialized. distinct_nontrivial = distinct zero-run signatures (run lengths + start/end flags) of "
                "plaintexts with a run >= 2, plus distinct zero-token signatures (continuations, count, trailing) of decoder inputs "
                "with a wrap / trailing token or a reference length over the cap")
    run.assumptions += [
        "reference semantics: 00 n = n zeros, each extra 00 before the count adds 256, trailing 00s without count = 1+256*(k-1) zeros "
        "(hmc.refwire, re-checked against six vectors of the format description at start-up)",
        f"round trip is demanded for plaintexts up to the decoder's cap ({CAP} bytes); between cap and cap+{SLACK} reference bytes the "
        "decoder may either refuse or return the exact expansion (the cap is checked per input byte), beyond that it must refuse",
        f"'without bound' is measured with tracemalloc: peak allocation during one expand call must stay below {ALLOC_BOUND} bytes",
        "the zero-coded header peek of _parse_message_header is exercised through whole datagrams in C01/C02, not here",
        "the quantifier's randomly sampled general strings are not built (exhaustive families only)",
    ]
    run.coverage_extra.update({"enc_len": enc_len, "dec_len": dec_len, "cap": CAP, "units": len(units)})


def _call(u):
    fn, arg = u
    return fn(arg)


def replay(w):
    part = Part()
    if w["kind"] == "wired":
        return list(_unit_G(w["name"])["violations"])
    if w["kind"] == "held":
        _held_pair(part, bytes(w["x"]), bytes(w["y"]))
        return list(part.viol.values())
    data = w["data"] if "data" in w else _unrle(w["rle"])
    if w["kind"] == "encode":
        check_encode(part, bytes(data), "replay")
    else:
        check_decode(part, bytes(data), "replay", alloc=True)
    return list(part.viol.values())

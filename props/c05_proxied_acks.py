"""C05 -- proxied circuit: acknowledgements stay truthful under injection, drops, resends.

DEEP SEAM (main search): a real ``ProxiedCircuit`` with a capturing transport, the real UDP deserializer on the
way in and the real serializer on the way out, under ``hmc.vloop`` (virtual asyncio loop + virtual clock).  For every
endpoint datagram the harness performs exactly the calls ``InterceptingLLUDPProxyProtocol.handle_proxied_packet``
performs on the circuit:  ``deserialize -> circuit.collect_acks(msg) -> circuit.drop_message(msg) | circuit.send(msg)``;
injections are ``circuit.send_reliable(synthetic)`` / ``circuit.send(synthetic)``; time passes only through Tick
events, which poll ``circuit.resend_unacked()`` every 0.1 virtual seconds exactly like ``attempt_resends``.

SHALLOW SEAM (conformance of the glue, smaller depth): the same events through
``InterceptingLLUDPProxyProtocol.datagram_received`` (SOCKS-framed from the viewer, raw from the simulator) with a real
SessionManager / Session / ProxiedRegion, an addon object that drops on request (two styles: it calls
``circuit.drop_message`` itself, or it ``take()``s the message and lets the proxy drop the queued original), injections
through ``region.circuit`` and the protocol's own ``attempt_resends`` task driven by the virtual loop.  The same model and
oracle run on it, and every step must hand the transport exactly the datagrams the deep seam produces for the same
history (clause seam-divergence).

Endpoints (viewer sends direction "O"=OUT, simulator sends direction "I"=IN) are plain-Python models that behave like
real LLUDP peers: each numbers its own packets 1,2,3..; it acknowledges only *reliable* packets it actually received
(wire IDs read off the captured datagrams addressed to it), a duplicate receipt (RESENT) is acknowledged again; it
retransmits only a reliable packet of its own for which it has not been shown an acknowledgement.  Endpoint datagrams
are produced by the independent reference encoder (``hmc.refwire``) and captured datagrams are decoded by a 20-line
decoder in this file, so the oracle never reads implementation state except the completion futures the public API
(``send_reliable``) hands out.

Alphabet (d in {"O","I"}; E = the endpoint that sends in direction d, P = its peer):
  ("snd", d, rel, sel, drop)  E sends its next packet, reliable iff rel, carrying appended acks chosen by ``sel`` from the
                              <=3 oldest not-yet-acked reliable wire IDs E has received:  "-" nothing pending,
                              "a" all of them in receipt order, "d" all in descending / "r" rotated numeric order
                              (where that differs from the receipt order) [dev], "o" only the oldest / "w" only the newest of the window (when >=2
                              pending; "w" = the older ones were lost or are acked late) [dev], "n" none although some
                              are pending [dev]; drop=1: the proxy (an addon) drops it [dev] (sel in -,a,o,n)
  ("pack", d, sel)            E sends a standalone PacketAck for "a"ll / "o"ldest-only [dev] / ne"w"est-only [dev]
  ("packmix", d, split)       E sends ONE PacketAck that uses both ack forms: every way to spread its <=3 pending receipts
                              over the Packets blocks (b), the appended acks (p) or both (x), neither part empty
                              [dev, weight 2]
  ("rtx", d, drop)            E retransmits its oldest own unacked reliable packet: same ID, RESENT flag [dev]
  ("inj", d, rel)             the proxy injects a packet travelling in direction d (reliable iff rel)
  ("T", k)                    virtual time passes: "past" = one resend interval + one poll (0.1 s), "short" = one interval
                              - one poll [dev], "exhaust" = (budget+1) x "past" in one go [dev] (deep seam: polled only
                              one poll before / at / after each instant the model expects something due, and at the
                              end); enabled once any reliable packet has passed through the circuit
  ("take", d, 1, sel, hold)   E sends its next reliable packet (acks "a"ll/"-"), an addon take()s it: the proxy drops and
                              acks the original exactly as for `message.queued`, the COPY (packet_id None, synthetic
                              False) is sent through the circuit inside the hook (hold=0) or kept (hold=1, one per
                              direction) [dev, weight 2].  From then on the copy is an injected packet in the model.
                              hold=2 / 3: the addon first finalizes the original itself -- circuit.drop_message(msg) /
                              circuit.send(msg) (forwarded as usual) -- and only then take()s it and sends the copy
                              (original always carries acks); the copy must not show any ack again
  ("sendheld", d)             the addon sends the copy it kept
  ("rtxd", d, sel)            the proxy's ack for a reliable packet it dropped got lost: E retransmits its latest dropped
                              packet (same ID, RESENT) with FRESH appended acks (all pending / none) and the proxy drops
                              it again [dev]
  ("cancel",)                 an addon cancels the future send_reliable returned for the oldest still pending injected
                              packet (asyncio.wait_for timeout) [dev, once per history]; afterwards nothing is demanded
                              of that packet's completion or retransmission, every other clause keeps holding and no
                              exception may escape collect_acks / resend_unacked / the attempt_resends task
  ("ping", d, which)          E sends StartPingCheck (unreliable, forwarded) with OldestUnacked = its oldest unacked
                              reliable id ("u") or the id its next packet will carry ("n") [dev, weight 2]; the
                              rewritten value is not judged, the event is there for its effect on translation state

Oracle (one clause per sentence of the property; every clause is evaluated on the decoded datagrams the transport was
handed during the step, never on implementation state):
  ack-not-own-id / ack-without-cause    every ack shown to an endpoint (appended or PacketAck block) is an ID it sent and
                                        stands for an ack its peer put on the wire in this step, or for the proxy dropping
                                        that reliable packet in this step
  ack-not-delivered / ack-delivered-twice   every ack carried by a forwarded packet, or piggy-backed on a dropped one,
                                        is shown to its addressee exactly once (as the addressee's own ID)
  ack-to-sender-missing                 a dropped reliable packet is acknowledged to its sender
  injected-ack-reached-endpoint / all-injected-packetack-forwarded   acks of injected packets never reach an endpoint; a
                                        PacketAck consisting only of such acks is not forwarded at all
  resend-missing / resend-early / resend-after-completion / resend-beyond-budget / resend-flags / resend-id-changed
                                        an injected reliable packet is retransmitted (same wire ID, RELIABLE|RESENT) once
                                        per elapsed interval: never while less than an interval has passed since its last
                                        transmission, at the latest one poll after the interval has elapsed (either side
                                        of the boundary is accepted), never after it was acked or its budget was spent
  completion-not-at-ack / completion-not-at-exhaustion / completion-premature / completion-wrong-outcome
                                        the future returned by send_reliable resolves exactly when the receiving endpoint's
                                        ack enters the proxy, fails with TimeoutError exactly at exhaustion, is pending
                                        otherwise
  plus model-guard clauses (forwarded-packet-missing, dropped-packet-forwarded, unexpected-datagram,
  reliable-wire-id-reused, retransmission-wire-id-changed, injection-output, exception): things that would make the
  ack bookkeeping itself meaningless.

Not judged: the wire ID of the *unreliable* PacketAck that drop_message emits for piggy-backed acks (it reuses the
dropped packet's untranslated ID, which after an earlier injection in that direction equals a wire ID already used;
LLUDP receivers de-duplicate only reliable packets, so the acks still arrive -- the statement is not violated).

Retry budget: N = default of ``ReliableResendInfo.tries_left`` (read, not hard-coded); interval = ``circuit.resend_every``.
Reading of "budget" (the repo's own test_reliable_resend_cadence and the field name fix it): N transmissions in total --
the original plus N-1 retransmissions, one per elapsed interval; when the N-th interval elapses unacknowledged the
future fails and nothing is sent.

State identity: canon() = both InjectionTrackers' fields, unacked_reliable (key, tries_left, age, flags, future done) in
dict order, and the model (per endpoint: next id, its unacked reliable packets, pending receipts, wire->origin map of
reliable receipts; per injection: direction, wire id, state, age, intervals used).  An endpoint's record of packets that
are no longer outstanding is left out: it only selects between the clause names ack-not-own-id / ack-without-cause.
Successor states are produced by World.__deepcopy__, a field-by-field clone of the live circuit (futures re-created in
the same state on the one virtual loop of the process); explore.bfs re-derives every 53rd state by full replay from the
empty history and compares canon(), which is the standing check that the clone is faithful.

Deviations from DESIGN: (1) the rewritten StartPingCheck.OldestUnacked value is not part of the property statement and is
not judged; (2) dropping a standalone PacketAck is not in the alphabet (the statement only speaks about acks *piggy-backed* on
a dropped packet); (3) the shallow seam is explored to depth 3 (quick) / 4 (thorough); (4) Tick("exhaust") was
added so that the retry budget can be spent inside the depth bound; (5) retransmitted endpoint packets carry no acks;
(6) instead of one (depth, deviation) pair the search is a staircase of pairs (see SEARCHES): the alphabet has ~11
default and ~28 deviation events per state, depth 7 with 3 deviations is ~10^9 transitions.
"""
from __future__ import annotations

import asyncio
import copy
import dataclasses
import os
import socket
import struct
from collections import deque
from collections import Counter
from typing import Any, Dict, List, Optional, Tuple

import hippolyzer.lib.base.message.circuit as circuit_mod
from hippolyzer.lib.base.message.circuit import ReliableResendInfo
from hippolyzer.lib.base.message.message import Block, Message
from hippolyzer.lib.base.message.udpdeserializer import UDPMessageDeserializer
from hippolyzer.lib.base.network.transport import Direction
from hippolyzer.lib.base.settings import Settings
from hippolyzer.lib.proxy.circuit import ProxiedCircuit

from hmc import explore, refwire, statehash, vloop
from hmc.core import Run

LEVEL = "model_checking"

NEAR = ("127.0.0.1", 1111)   # viewer
FAR = ("10.0.0.9", 13000)    # simulator
F_ACK, F_RESENT, F_REL, F_ZERO = 0x10, 0x20, 0x40, 0x80
DATA_MSG = "TeleportStart"   # single U32 (Info.TeleportFlags) used as origin tag
DIRS = ("O", "I")
OTHER = {"O": "I", "I": "O"}
LIBDIR = {"O": Direction.OUT, "I": Direction.IN}
ORIGIN = {"O": 1, "I": 2}    # tag high half: 1 = viewer packet, 2 = sim packet, 3/4 = proxy injection toward O/I
INJ_ORIGIN = {"O": 3, "I": 4}
WINDOW = 3                   # an endpoint chooses acks among its <=3 oldest pending receipts
TAKE_MODES = ("now", "hold", "afterdrop", "aftersend")

_T = refwire.templates()
_NUM_DATA = _T[DATA_MSG].num_bytes
_NUM_ACK = _T["PacketAck"].num_bytes
_NUM_PING = _T["StartPingCheck"].num_bytes


def _budget() -> int:
    for f in dataclasses.fields(ReliableResendInfo):
        if f.name == "tries_left":
            return int(f.default)
    raise RuntimeError("ReliableResendInfo.tries_left not found")


# ---------------------------------------------------------------------------------------------------------------
# wire helpers (independent of the library codec)

def enc_data(pid: int, flags: int, tag: int, acks) -> bytes:
    if acks:
        flags |= F_ACK
    return refwire.encode({"name": DATA_MSG, "flags": flags, "packet_id": pid, "acks": list(acks),
                           "blocks": [("Info", [{"TeleportFlags": tag}])]})


def enc_packetack(pid: int, ids, appended=()) -> bytes:
    return refwire.encode({"name": "PacketAck", "flags": F_ACK if appended else 0, "packet_id": pid, "acks": list(appended),
                           "blocks": [("Packets", [{"ID": i} for i in ids])]})


def enc_ping(pid: int, ping_id: int, oldest_unacked: int) -> bytes:
    return refwire.encode({"name": "StartPingCheck", "flags": 0, "packet_id": pid, "acks": [],
                           "blocks": [("PingID", [{"PingID": ping_id & 0xFF, "OldestUnacked": oldest_unacked}])]})


class Dg:
    """One decoded datagram handed to the transport."""
    __slots__ = ("d", "wire", "flags", "acks", "kind", "tag", "ids", "addr_ok")

    def sig(self):
        return (self.d, self.wire, self.flags, tuple(self.acks), self.kind, self.tag, tuple(self.ids))

    def shown(self) -> List[int]:
        return list(self.acks) + list(self.ids)


def decode(direction: Direction, dst, data: bytes) -> Dg:
    g = Dg()
    g.d = "O" if direction == Direction.OUT else "I"
    g.addr_ok = (dst == (FAR if g.d == "O" else NEAR))
    g.wire, g.flags, g.acks, g.kind, g.tag, g.ids = -1, 0, [], "?", None, []
    try:
        _decode_into(g, data)
    except (IndexError, struct.error):
        g.kind = "?"
    return g


def _decode_into(g: Dg, data: bytes):
    g.flags, g.wire, off = struct.unpack(">BIB", data[:6])
    body = data[6 + off:]
    g.acks = []
    if g.flags & F_ACK:
        n = body[-1]
        raw = body[len(body) - 1 - 4 * n:-1]
        g.acks = [struct.unpack(">I", raw[i:i + 4])[0] for i in range(0, 4 * n, 4)]
        body = body[:len(body) - 1 - 4 * n]
    if g.flags & F_ZERO:
        body = refwire.zero_expand(body)
    g.kind, g.tag, g.ids = "?", None, []
    if body.startswith(_NUM_ACK):
        g.kind = "ack"
        rest = body[len(_NUM_ACK):]
        n = rest[0]
        g.ids = [struct.unpack("<I", rest[1 + 4 * i:5 + 4 * i])[0] for i in range(n)]
    elif body.startswith(_NUM_DATA):
        g.kind = "data"
        g.tag = struct.unpack("<I", body[len(_NUM_DATA):len(_NUM_DATA) + 4])[0]
    elif body.startswith(_NUM_PING) and len(body) == len(_NUM_PING) + 5:
        g.kind = "ping"          # tag = the (rewritten) OldestUnacked: recorded in the outcome signature, never judged
        g.tag = struct.unpack("<I", body[len(_NUM_PING) + 1:len(_NUM_PING) + 5])[0]


class CapTransport:
    def __init__(self):
        self.out: List[Tuple[Direction, Any, bytes]] = []

    def send_packet(self, packet):
        self.out.append((packet.direction, packet.dst_addr, bytes(packet.data)))

    def close(self):
        pass


class VL(vloop.VLoop):
    def set_time(self, t: float):
        self._vtime = t

    def drop_everything(self):
        """Forget every callback and timer (used between shallow-seam worlds, after their tasks were cancelled)."""
        for h in list(self._scheduled):
            h.cancel()
        self._scheduled.clear()
        self._ready.clear()
        self.exceptions.clear()


# ---------------------------------------------------------------------------------------------------------------
# reference model

class Endpoint:
    def __init__(self):
        self.next_id = 1
        self.sent: Dict[int, List[Any]] = {}   # own id -> [reliable, fate "fwd"|"drop"|"supp", wire id or None]
        self.own_unacked: List[int] = []       # own reliable ids it has not been shown an ack for (send order)
        self.dropped: List[int] = []           # own reliable ids the proxy dropped (and acked to it)
        self.pending: List[int] = []           # wire ids of reliable packets received and not yet acked (receipt order)
        self.rmap: Dict[int, Tuple] = {}       # wire id of a reliable packet received -> ("P", peer id) | ("J", dir, wire)

    def receive_reliable(self, wire: int):
        if wire not in self.pending:
            self.pending.append(wire)

    def clone(self) -> "Endpoint":
        n = Endpoint()
        n.next_id = self.next_id
        n.sent = {k: list(v) for k, v in self.sent.items()}
        n.own_unacked = list(self.own_unacked)
        n.dropped = list(self.dropped)
        n.pending = list(self.pending)
        n.rmap = dict(self.rmap)
        return n

    def canon(self):
        return (self.next_id, tuple(self.dropped[-1:]), tuple((k, tuple(self.sent[k])) for k in self.own_unacked),
                tuple(self.pending), tuple(sorted(self.rmap.items())))


class Inj:
    __slots__ = ("d", "wire", "rel", "tag", "state", "last", "elapsed", "future", "api")

    def canon(self, now):
        live = self.state == "pending"
        return (self.d, self.wire, self.rel, self.tag, self.state, (now - self.last) if live else -1, self.elapsed if live else -1)


_LOOP: Optional[VL] = None
_LOOP_PID = -1
_DESER = None


def _process_loop() -> VL:
    """One virtual loop per process, shared by every world (worlds own their time: each step sets the clock first).
    A world never schedules callbacks or timers on it (deep seam: futures without waiters), so sharing is safe."""
    global _LOOP, _LOOP_PID, _DESER
    if _LOOP is None or _LOOP_PID != os.getpid():
        _LOOP = VL()
        vloop.install(_LOOP, clock_modules=[circuit_mod])
        _LOOP_PID = os.getpid()
        _DESER = UDPMessageDeserializer(settings=Settings())   # strong ref: Message.deserializer is a weakref
    return _LOOP


_ATOMS = (int, float, str, bytes, bool, type(None), tuple, Direction)


def _clone_value(v, memo):
    """Copy one attribute value.  Every copy made here is entered in the deepcopy memo shared by the whole world clone, so
    an object reachable under two names (a deque exposed both directly and through a helper object, say) is ONE object in
    the clone as well."""
    if isinstance(v, _ATOMS) or callable(v):
        return v
    y = memo.get(id(v))
    if y is not None:
        return y
    if isinstance(v, deque) and all(isinstance(x, _ATOMS) for x in v):
        y = deque(v, v.maxlen)
        memo[id(v)] = y
        return y
    return copy.deepcopy(v, memo)


def _clone_future(f: asyncio.Future, futs: Dict[int, asyncio.Future]) -> asyncio.Future:
    n = futs.get(id(f))
    if n is None:
        n = _LOOP.create_future()
        if f.cancelled():
            n.cancel()
        elif f.done():
            if f.exception() is not None:
                n.set_exception(f.exception())
                n.exception()
            else:
                n.set_result(f.result())
        futs[id(f)] = n
    return n


def _clone_plain(obj, memo):
    y = memo.get(id(obj))
    if y is not None:
        return y
    n = object.__new__(type(obj))
    memo[id(obj)] = n
    n.__dict__.update({k: _clone_value(v, memo) for k, v in obj.__dict__.items()})
    return n


def _clone_circuit(c: ProxiedCircuit, tr, futs, memo) -> ProxiedCircuit:
    """Field-by-field copy of the live circuit (generic over its attributes; futures re-created in the same state,
    stored messages shallow-copied).  Validated continuously: bfs re-derives a fraction of the states by full replay and
    compares canon()."""
    n = object.__new__(type(c))
    for k, v in c.__dict__.items():
        if k == "transport":
            n.transport = tr
        elif k == "serializer":
            n.serializer = v                       # stateless
        elif k == "unacked_reliable":
            d = {}
            for key, info in v.items():
                i2 = object.__new__(type(info))
                for fk, fv in info.__dict__.items():
                    if isinstance(fv, asyncio.Future):
                        fv = _clone_future(fv, futs)
                    elif isinstance(fv, Message):
                        fv = copy.copy(fv)
                    else:
                        fv = _clone_value(fv, memo)
                    i2.__dict__[fk] = fv
                d[key] = i2
            n.unacked_reliable = d
        elif k in ("in_injections", "out_injections"):
            setattr(n, k, _clone_plain(v, memo))
        else:
            setattr(n, k, _clone_value(v, memo))
    return n


class World:
    seam = "deep"
    twin = None

    def __init__(self):
        self.loop = _process_loop()
        self.loop.set_time(0.0)
        self.tr = CapTransport()
        self.circuit = ProxiedCircuit(NEAR, FAR, self.tr)
        self.deser = _DESER
        self._init_model()

    def _init_model(self):
        self.interval = int(round(self.circuit.resend_every * 10))  # in polls of 0.1 s
        self.budget = _budget()
        self.now = 0                                                # virtual time in 0.1 s units
        self.ep = {"O": Endpoint(), "I": Endpoint()}                # keyed by the direction the endpoint SENDS in
        self.inj: Dict[Tuple[str, int], Inj] = {}                   # (direction, wire id) -> Inj, creation order
        self.inj_by_tag: Dict[int, Inj] = {}
        self.ninj = {"O": 0, "I": 0}
        self.any_reliable = False                                   # some reliable packet passed through the circuit
        self.held: Dict[str, List[Tuple[int, bool, int, Any]]] = {"O": [], "I": []}  # take()n copies not yet re-sent
        self.cancel_used = False                                    # the one future cancellation of a history happened
        self.violations: List[Dict[str, Any]] = []
        self.last_out: Tuple = ()
        self.flags: Tuple = ()
        self.dead = False

    def __deepcopy__(self, memo):
        n = object.__new__(World)
        futs: Dict[int, asyncio.Future] = {}
        n.loop, n.deser, n.interval, n.budget, n.now = self.loop, self.deser, self.interval, self.budget, self.now
        n.tr = CapTransport()
        n.circuit = _clone_circuit(self.circuit, n.tr, futs, memo)
        n.ep = {d: e.clone() for d, e in self.ep.items()}
        n.inj, n.inj_by_tag = {}, {}
        for key, i in self.inj.items():
            j = Inj()
            j.d, j.wire, j.rel, j.tag, j.state, j.last, j.elapsed = i.d, i.wire, i.rel, i.tag, i.state, i.last, i.elapsed
            j.api = i.api
            j.future = _clone_future(i.future, futs) if i.future is not None else None
            n.inj[key] = j
            n.inj_by_tag[j.tag] = j
        n.ninj = dict(self.ninj)
        n.any_reliable = self.any_reliable
        n.held = {d: [(a, b, c, copy.deepcopy(m)) for (a, b, c, m) in v] for d, v in self.held.items()}
        n.cancel_used = self.cancel_used
        n.violations, n.last_out, n.flags, n.dead = [], self.last_out, self.flags, self.dead
        return n

    def bad(self, clause, site, detail):
        self.violations.append({"clause": clause, "site": site, "detail": detail})

    def take(self) -> List[Dg]:
        raw, self.tr.out = self.tr.out, []
        out = [decode(*r) for r in raw]
        for g in out:
            if not g.addr_ok:
                self.bad("unexpected-datagram", "Circuit.send_datagram", f"direction {g.d} datagram addressed to the wrong host")
            if g.kind == "?":
                self.bad("unexpected-datagram", "Circuit.send_datagram", f"undecodable datagram {g.sig()}")
        return out


SOCKS_TO_FAR = struct.pack("!HBB", 0, 0, 1) + socket.inet_aton(FAR[0]) + struct.pack("!H", FAR[1])
_LIVE_PROTOCOLS: List[Any] = []


class ShallowWorld(World):
    """The same circuit reached through the proxy's own glue: InterceptingLLUDPProxyProtocol.datagram_received with a real
    SessionManager/Session/ProxiedRegion, an addon object that drops on request, and the protocol's own attempt_resends
    task running on the virtual loop.  ``twin`` is a deep-seam world fed the same events for comparison."""
    seam = "shallow"

    def __init__(self, drop_style: str):
        from hippolyzer.lib.base.datatypes import UUID
        from hippolyzer.lib.proxy.addon_utils import BaseAddon
        from hippolyzer.lib.proxy.addons import AddonManager
        from hippolyzer.lib.proxy.lludp_proxy import InterceptingLLUDPProxyProtocol
        from hippolyzer.lib.proxy.sessions import SessionManager
        from hippolyzer.lib.proxy.settings import ProxySettings

        self.loop = _process_loop()
        for proto in _LIVE_PROTOCOLS:               # retire the previous world's resend task
            proto.resend_task.cancel()
        del _LIVE_PROTOCOLS[:]
        self.loop.run_ready()
        self.loop.drop_everything()
        self.loop.set_time(0.0)

        world = self

        class DropAddon(BaseAddon):
            def handle_lludp_message(self, session, region, message):
                world.hook_calls += 1
                if world.armed in ("take-afterdrop", "take-aftersend"):
                    mode, world.armed = world.armed, False
                    if mode == "take-afterdrop":
                        region.circuit.drop_message(message)
                    else:
                        region.circuit.send(message)
                    region.circuit.send(message.take())
                    return True
                if world.armed in ("take-now", "take-hold"):
                    mode, world.armed = world.armed, False
                    taken = message.take()          # proxy sees message.queued and drops + acks the original
                    if mode == "take-now":
                        region.circuit.send(taken)
                    else:
                        world.taken = taken
                    return True
                if world.armed:
                    world.armed = False
                    if drop_style == "take":
                        message.take()              # proxy sees message.queued and calls drop_message itself
                    else:
                        region.circuit.drop_message(message)
                    return True

        self.hook_calls = 0
        self.armed = False
        self.taken = None
        self.addon = DropAddon()
        self.session_manager = SessionManager(ProxySettings())
        self.session = self.session_manager.create_session({
            "session_id": UUID(int=1), "secure_session_id": UUID(int=2), "agent_id": UUID(int=3), "circuit_code": 1234,
            "sim_ip": FAR[0], "sim_port": FAR[1], "region_x": 0, "region_y": 123,
            "seed_capability": "https://test.localhost:4/foo",
        })
        AddonManager.init([], self.session_manager, [self.addon])
        self.tr = CapTransport()
        self.protocol = InterceptingLLUDPProxyProtocol(NEAR, self.session_manager)
        self.protocol.transport = self.tr
        _LIVE_PROTOCOLS.append(self.protocol)
        region = self.session.regions[-1]
        self.protocol.session = self.session
        self.protocol.far_to_near_map[region.circuit_addr] = NEAR
        self.session_manager.claim_session(self.session.id)
        self.session.open_circuit(NEAR, region.circuit_addr, self.tr)
        self.session.main_region = region
        self.region = region
        self.circuit = region.circuit
        self.deser = _DESER
        self.loop.run_ready()                        # lets attempt_resends reach its first sleep
        self._init_model()
        self.twin = World()

    def __deepcopy__(self, memo):
        raise TypeError("shallow-seam worlds are rebuilt by replay")


def _orders(window: List[int]) -> List[str]:
    """Extra orders in which ALL of the window can be acked: "d" numerically descending, "r" rotated (middle, largest,
    smallest; 3 receipts only) -- offered only where they differ from the receipt order "a" uses."""
    out = []
    if len(window) >= 2:
        asc = sorted(window)
        if asc[::-1] != window:
            out.append("d")
        if len(window) == 3 and asc[1:] + asc[:1] != window:
            out.append("r")
    return out


def _splits(k: int) -> List[str]:
    """Every way to spread k pending receipts over a PacketAck's body ("b"), its appended acks ("p") or both ("x"),
    with neither part empty."""
    out = [""]
    for _ in range(k):
        out = [o + c for o in out for c in "bpx"]
    return [o for o in out if set(o) & set("bx") and set(o) & set("px")]


def _select(window: List[int], sel: str) -> List[int]:
    if sel == "a":
        return list(window)
    if sel == "o":
        return window[:1]
    if sel == "w":
        return window[-1:]
    if sel == "d":
        return sorted(window, reverse=True)
    if sel == "r":
        asc = sorted(window)
        return asc[1:] + asc[:1]
    return []


class Harness:
    def __init__(self, seam: str = "deep", drop_style: str = "drop"):
        self.seam, self.drop_style = seam, drop_style
        # deep: World.__deepcopy__ is a hand-written clone of the live circuit (see _clone_circuit)
        self.copyable = seam == "deep"

    # --- construction --------------------------------------------------------------------------------------------
    def fresh(self) -> World:
        return World() if self.seam == "deep" else ShallowWorld(self.drop_style)

    # --- menu ----------------------------------------------------------------------------------------------------
    def enabled(self, w: World):
        if w.dead:
            return []
        evs = []
        for d in DIRS:
            e = w.ep[d]
            npend = min(len(e.pending), WINDOW)
            orders = _orders(e.pending[:WINDOW])
            sels = ["-"] if npend == 0 else (["a", "n"] if npend == 1 else ["a", "o", "w", "n"] + orders)
            for rel in (1, 0):
                for sel in sels:
                    evs.append(("snd", d, rel, sel, 0))
            if npend:
                evs.append(("pack", d, "a"))
            for rel in (1, 0):
                evs.append(("inj", d, rel))
            if w.held[d]:
                evs.append(("sendheld", d))
        # time only matters once some reliable packet has passed through the circuit (before that every Tick is a no-op)
        if w.any_reliable:
            evs.append(("T", "past"))
        for d in DIRS:
            e = w.ep[d]
            npend = min(len(e.pending), WINDOW)
            orders = _orders(e.pending[:WINDOW])
            sels = ["-"] if npend == 0 else (["a", "n"] if npend == 1 else ["a", "o", "n"])
            for rel in (1, 0):
                for sel in sels:
                    evs.append(("snd", d, rel, sel, 1))
            for sel in orders:
                evs.append(("snd", d, 1, sel, 1))      # dropped packet whose piggy-backed acks are not ascending
            for split in _splits(npend):
                evs.append(("packmix", d, split))
            if npend >= 2:
                evs.append(("pack", d, "o"))
                evs.append(("pack", d, "w"))
                for sel in orders:
                    evs.append(("pack", d, sel))
            if e.own_unacked:
                evs.append(("rtx", d, 0))
                evs.append(("rtx", d, 1))
                evs.append(("ping", d, "u"))
            if e.dropped:
                evs.append(("rtxd", d, "a" if npend else "-"))
            evs.append(("ping", d, "n"))
            # only reliable packets are taken: an unreliable copy is an unreliable injection after an unreliable drop
            evs.append(("take", d, 1, "a" if npend else "-", 0))
            if not w.held[d]:
                evs.append(("take", d, 1, "a" if npend else "-", 1))
            if npend:
                # take() of an ALREADY finalized packet (explicitly dropped / already forwarded), copy re-sent at once;
                # only interesting when the original carries acks
                evs.append(("take", d, 1, "a", 2))
                evs.append(("take", d, 1, "a", 3))
        if w.any_reliable:
            evs.append(("T", "short"))
            evs.append(("T", "exhaust"))
        if not w.cancel_used and any(i.state == "pending" and i.api for i in w.inj.values()):
            evs.append(("cancel",))
        return evs

    def deviation(self, ev) -> int:
        k = ev[0]
        if k == "snd":
            return 1 if (ev[4] or ev[3] in ("o", "w", "n", "d", "r")) else 0
        if k == "pack":
            return 1 if ev[2] in ("o", "w", "d", "r") else 0
        if k in ("rtx", "rtxd", "cancel"):
            return 1
        if k in ("take", "ping", "packmix"):
            return 2      # rare events weigh double: a history holds at most one of them plus one ordinary deviation
        if k == "T":
            return 0 if ev[1] == "past" else 1
        return 0

    # --- canonical state -----------------------------------------------------------------------------------------
    def canon(self, w: World):
        c = w.circuit
        w.loop.set_time(w.now / 10.0)
        # whole tracker state via vars(): no private field is named, so internal renames / container swaps do not matter
        trackers = tuple(statehash.obj_state(t) for t in (c.out_injections, c.in_injections))
        unacked = []
        for (d, pid), info in c.unacked_reliable.items():
            age = info.last_resent - circuit_mod.dt.datetime.now()
            unacked.append((d.name, pid, info.tries_left, round(age.total_seconds() * 10), int(info.message.send_flags),
                            info.completed.done()))
        return (trackers, tuple(unacked), bool(c.is_alive), w.ep["O"].canon(), w.ep["I"].canon(),
                tuple(i.canon(w.now) for i in w.inj.values()), tuple(sorted(w.ninj.items())), w.dead,
                tuple((d, tuple((a, b) for (a, b, _c, _m) in w.held[d])) for d in DIRS), w.cancel_used)

    def observe(self, w: World):
        return w.last_out

    def nontrivial(self, w: World, hist):
        return (w.flags, w.last_out) if w.flags else None

    # --- transitions ---------------------------------------------------------------------------------------------
    def step(self, w: World, ev):
        # a twin that has died (its own seam saw a violation, reported by the deep search) is no longer a valid reference: its endpoint
        # model may be out of step with the events the shallow world still enables
        if w.twin is not None and not w.twin.dead:
            w.twin.violations = []
            self._step_one(w.twin, ev)
            self._step_one(w, ev)
            if w.last_out != w.twin.last_out and not w.twin.violations:
                w.bad("seam-divergence", "InterceptingLLUDPProxyProtocol.attempt_resends" if ev[0] == "T"
                      else "InterceptingLLUDPProxyProtocol.handle_proxied_packet",
                      f"event {ev}: through datagram_received the transport saw {w.last_out}, "
                      f"calling the circuit directly {w.twin.last_out}")
                w.dead = True
        else:
            self._step_one(w, ev)

    def _step_one(self, w: World, ev):
        if w.dead:
            return
        w.flags = ()
        w.last_out = ()
        w.loop.set_time(w.now / 10.0)      # the process-wide virtual clock shows this world's time
        kind = ev[0]
        try:
            if kind == "snd":
                self._endpoint_packet(w, ev[1], "data", bool(ev[2]), ev[3], bool(ev[4]), rtx=False)
            elif kind == "pack":
                self._endpoint_packet(w, ev[1], "ack", False, ev[2], False, rtx=False)
            elif kind == "packmix":
                self._endpoint_packet(w, ev[1], "ack", False, "a", False, rtx=False, mix=ev[2])
            elif kind == "rtx":
                self._endpoint_packet(w, ev[1], "data", True, "-", bool(ev[2]), rtx=True)
            elif kind == "rtxd":
                self._endpoint_packet(w, ev[1], "data", True, ev[2], True, rtx="dropped")
            elif kind == "cancel":
                self._cancel(w)
            elif kind == "take":
                mode = TAKE_MODES[ev[4]]
                self._endpoint_packet(w, ev[1], "data", bool(ev[2]), ev[3], mode != "aftersend", rtx=False, take=mode)
            elif kind == "sendheld":
                self._send_held(w, ev[1])
            elif kind == "ping":
                self._endpoint_packet(w, ev[1], "ping", False, ev[2], False, rtx=False)
            elif kind == "inj":
                self._inject(w, ev[1], bool(ev[2]))
            elif kind == "T":
                self._tick(w, ev[1])
            else:
                raise ValueError(f"unknown event {ev!r}")
        except _Abort:
            w.dead = True
        self._check_futures(w)
        if w.violations:
            w.dead = True

    def _call(self, w: World, site: str, fn, *args):
        try:
            return fn(*args)
        except Exception as e:  # noqa: any exception escaping the circuit is a finding of its own
            w.bad("exception", site, f"{type(e).__name__}: {e}")
            raise _Abort()

    def _deliver(self, w: World, d: str, data: bytes, drop: bool, take: Optional[str] = None):
        """Returns the take()n copy when take == "hold"."""
        if w.seam == "deep":
            # exactly what handle_proxied_packet does with the circuit
            msg = self._call(w, "UDPMessageDeserializer.deserialize", w.deser.deserialize, data)
            msg.direction = LIBDIR[d]
            msg.sender = NEAR if d == "O" else FAR
            self._call(w, "Circuit.collect_acks", w.circuit.collect_acks, msg)
            if take in ("afterdrop", "aftersend"):
                # addon hook: circuit.drop_message(message) | circuit.send(message); circuit.send(message.take()); return True
                if take == "afterdrop":
                    self._call(w, "ProxiedCircuit.drop_message", w.circuit.drop_message, msg)
                else:
                    self._call(w, "ProxiedCircuit.send", w.circuit.send, msg)
                taken = self._call(w, "Message.take", msg.take)
                self._call(w, "ProxiedCircuit.send:taken-copy", w.circuit.send, taken)
                return None
            if take:
                # addon hook: copy = message.take() [and circuit.send(copy) right away]; return True
                # proxy afterwards: `if message.queued: region.circuit.drop_message(message)`
                taken = self._call(w, "Message.take", msg.take)
                if take == "now":
                    self._call(w, "ProxiedCircuit.send:taken-copy", w.circuit.send, taken)
                if msg.queued:
                    self._call(w, "ProxiedCircuit.drop_message", w.circuit.drop_message, msg)
                return taken if take == "hold" else None
            if drop:
                self._call(w, "ProxiedCircuit.drop_message", w.circuit.drop_message, msg)
            else:
                self._call(w, "ProxiedCircuit.send", w.circuit.send, msg)
            return
        site = "InterceptingLLUDPProxyProtocol.datagram_received"
        w.armed = ("take-" + take) if take else drop
        w.taken = None
        calls = w.hook_calls
        if d == "O":
            self._call(w, site, w.protocol.datagram_received, SOCKS_TO_FAR + data, NEAR)
        else:
            self._call(w, site, w.protocol.datagram_received, data, FAR)
        w.loop.run_ready()
        self._loop_exceptions(w, site)
        if w.hook_calls != calls + 1 or w.armed:
            w.bad("seam-divergence", "InterceptingLLUDPProxyProtocol.handle_proxied_packet",
                  f"datagram from {d} reached the addon hook {w.hook_calls - calls} times (drop consumed: {not w.armed})")
        return w.taken

    def _poll(self, w: World, k: int = 1):
        """k x 0.1 s of virtual time pass (w.now already counts them) and the resend poll runs (deep seam: once, at the
        end of the k polls -- only used with k > 1 where the model says nothing can be due in between; shallow seam:
        attempt_resends wakes up every 0.1 s regardless)."""
        if w.seam == "deep":
            w.loop.set_time(w.now / 10.0)
            self._call(w, "Circuit.resend_unacked", w.circuit.resend_unacked)
        else:
            for i in range(k - 1, -1, -1):
                w.loop.advance(0.1)                      # fires attempt_resends' sleep
                w.loop.set_time((w.now - i) / 10.0)      # stay on the 0.1 s grid (no float drift)
            self._loop_exceptions(w, "InterceptingLLUDPProxyProtocol.attempt_resends")
            task = w.protocol.resend_task
            if task.done():
                w.bad("exception", "InterceptingLLUDPProxyProtocol.attempt_resends",
                      f"the resend task died: {task.exception()!r}" if not task.cancelled() else "the resend task was cancelled")
                raise _Abort()

    def _loop_exceptions(self, w: World, site: str):
        if w.loop.exceptions:
            for e in w.loop.collect_exceptions():
                w.bad("exception", site, f"{e}")
            raise _Abort()

    # endpoint E (sending in direction d) puts one datagram on the wire; the proxy forwards or drops it
    def _endpoint_packet(self, w: World, d: str, what: str, rel: bool, sel: str, drop: bool, rtx: bool,
                         take: Optional[str] = None, mix: Optional[str] = None):
        E, P = w.ep[d], w.ep[OTHER[d]]
        window = E.pending[:WINDOW] if what != "ping" else []
        acks = _select(window, sel)
        body, appendix = acks, []
        if mix:
            # one PacketAck datagram using both ack forms: ids marked b/x go into the Packets blocks, p/x are appended
            body = [a for a, c in zip(window, mix) if c in "bx"]
            appendix = [a for a, c in zip(window, mix) if c in "px"]
            acks = body + appendix          # every instance is an acknowledgement E puts on the wire
        if what == "ack" and not acks:
            raise ValueError("PacketAck event without pending acks")
        for a in set(acks):
            E.pending.remove(a)
        peer_acks, inj_acks = [], []
        for a in acks:
            r = E.rmap[a]
            if r[0] == "P":
                peer_acks.append(r[1])
            else:
                inj_acks.append((r[1], r[2]))
        if rtx == "dropped":
            # the proxy's ack for this dropped packet got lost: E sends it again (same id, RESENT, fresh acks)
            n = E.dropped[-1]
            first_wire = None
        elif rtx:
            n = E.own_unacked[0]
            first_wire = E.sent[n][2]
        else:
            n = E.next_id
            E.next_id += 1
            first_wire = None
        tag = (ORIGIN[d] << 16) | n
        if rel:
            w.any_reliable = True
        if what == "data":
            flags = (F_REL if rel else 0) | (F_RESENT if rtx else 0)
            data = enc_data(n, flags, tag, acks)
        elif what == "ping":
            # OldestUnacked: its oldest unacked reliable packet ("u") or, idle, the id its NEXT packet will carry ("n")
            data = enc_ping(n, n, E.own_unacked[0] if sel == "u" else E.next_id)
        else:
            data = enc_packetack(n, body, appendix)

        for key in inj_acks:                       # the receiving endpoint's ack is about to enter the proxy
            inj = w.inj[key]
            if inj.state == "pending":
                inj.state = "acked"
        taken = self._deliver(w, d, data, drop, take)
        out = w.take()
        w.last_out = tuple(g.sig() for g in out)

        # --- what became of the packet itself --------------------------------------------------------------------
        if not rtx:
            E.sent[n] = [rel, ("take" if take else "drop") if drop else "fwd", None]
            if rel:
                E.own_unacked.append(n)
                if drop and not take and what == "data":
                    E.dropped.append(n)
        to_P = [g for g in out if g.d == d]
        to_E = [g for g in out if g.d != d]
        copy_dg: Optional[Dg] = None
        site_fwd = "ProxiedCircuit.prepare_message"
        carriers = [g for g in to_P if g.kind == "data" and g.tag == tag]
        for g in out:
            if g.kind == "data" and not (g.d == d and g.tag == tag):
                w.bad("unexpected-datagram", "ProxiedCircuit.drop_message" if drop else site_fwd,
                      f"data packet tag {g.tag:#x} emitted toward {g.d} while handling {what} {n} from {d}")
        if what == "ping":
            pings = [g for g in out if g.kind == "ping"]
            if len(pings) != 1 or pings[0].d != d or len(out) != 1:
                w.bad("forwarded-packet-missing", site_fwd, f"StartPingCheck {n} from {d}: transport saw {[g.sig() for g in out]}")
        elif take in ("now", "afterdrop"):
            # the addon re-sent the copy inside its hook: from here on it is a packet the proxy injected
            if len(carriers) != 1:
                w.bad("injection-output", "Circuit.send:taken-copy", f"taken packet {n} from {d}: {len(carriers)} copies sent on")
            else:
                copy_dg = carriers[0]
                self._register_injection(w, d, copy_dg, rel, tag, None, "Circuit.send:taken-copy")
        elif take == "aftersend":
            # the original went on as usual, then a copy of it was injected
            if len(carriers) != 2:
                w.bad("injection-output", "Circuit.send:taken-copy", f"forwarded-then-taken packet {n} from {d}: {len(carriers)} datagrams carry it")
            else:
                g, copy_dg = carriers
                if bool(g.flags & F_REL) != rel or (g.flags & F_RESENT):
                    w.bad("unexpected-datagram", site_fwd, f"packet {n} flags changed to {g.flags:#x}")
                E.sent[n][2] = g.wire
                if rel and g.wire in P.rmap:
                    w.bad("reliable-wire-id-reused", site_fwd,
                          f"wire id {g.wire} toward {d} already stands for {P.rmap[g.wire]}, now also for packet {n}")
                if rel:
                    P.rmap.setdefault(g.wire, ("P", n))
                    P.receive_reliable(g.wire)
                self._register_injection(w, d, copy_dg, rel, tag, None, "Circuit.send:taken-copy")
        elif take == "hold":
            if carriers:
                w.bad("dropped-packet-forwarded", "ProxiedCircuit.drop_message", f"taken packet {n} still went out: {carriers[0].sig()}")
            if taken is None:
                w.bad("seam-divergence", "InterceptingLLUDPProxyProtocol.handle_proxied_packet", "addon never saw the packet it was to take")
                raise _Abort()
            w.held[d].append((n, rel, tag, taken))
        elif what == "data":
            if drop:
                if carriers:
                    w.bad("dropped-packet-forwarded", "ProxiedCircuit.drop_message", f"dropped packet {n} still went out: {carriers[0].sig()}")
            elif len(carriers) != 1:
                w.bad("forwarded-packet-missing", site_fwd, f"packet {n} from {d}: {len(carriers)} copies forwarded")
            else:
                g = carriers[0]
                if bool(g.flags & F_REL) != rel or bool(g.flags & F_RESENT) != rtx:
                    w.bad("unexpected-datagram", site_fwd, f"packet {n} flags changed to {g.flags:#x}")
                if rtx:
                    if first_wire is not None and g.wire != first_wire:
                        w.bad("retransmission-wire-id-changed", "InjectionTracker.get_effective_id",
                              f"packet {n} first went out as wire {first_wire}, its retransmission as {g.wire}")
                else:
                    E.sent[n][2] = g.wire
                    if rel and g.wire in P.rmap:
                        w.bad("reliable-wire-id-reused", site_fwd,
                              f"wire id {g.wire} toward {d} already stands for {P.rmap[g.wire]}, now also for packet {n}")
                if rel:
                    P.rmap.setdefault(g.wire, ("P", n))
                    P.receive_reliable(g.wire)
        else:
            if not peer_acks:
                E.sent[n][1] = "supp"
                if to_P:
                    w.bad("all-injected-packetack-forwarded", "ProxiedCircuit._rewrite_packet_ack",
                          f"PacketAck {n} from {d} only acks injected {acks} but {[g.sig() for g in to_P]} was sent on")

        # --- acks shown to either endpoint in this step ----------------------------------------------------------
        if drop:
            site_P, site_E = "ProxiedCircuit.drop_message:piggybacked-acks", "ProxiedCircuit.drop_message:ack-to-sender"
        elif what == "ack":
            site_P = site_E = "ProxiedCircuit._rewrite_packet_ack"
        else:
            site_P = site_E = "ProxiedCircuit.prepare_message:appended-acks"
        exp_E = [n] if (drop and rel) else []
        if copy_dg is not None:
            to_P = [g for g in to_P if g is not copy_dg]
            self._judge_copy_acks(w, P, OTHER[d], copy_dg, peer_acks, f"copy of packet {n} from {d} (original acks={acks})")
        self._check_shown(w, P, OTHER[d], to_P, peer_acks, bool(inj_acks), site_P,
                          f"{what} {n} from {d} acks={acks} (peer ids {peer_acks}, injected {inj_acks}) drop={drop}")
        self._check_shown(w, E, d, to_E, exp_E, False, site_E, f"{what} {n} from {d} reliable={rel} drop={drop}",
                          missing_clause="ack-to-sender-missing")
        fl = []
        if any(p != a for p, a in zip(peer_acks, [a for a in acks if E.rmap[a][0] == "P"])):
            fl.append("translated-ack")
        if inj_acks:
            fl.append("injected-ack")
        if drop and acks:
            fl.append("drop-with-acks")
        if drop and rel:
            fl.append("drop-reliable")
        if rtx:
            fl.append("endpoint-rtx-of-dropped" if rtx == "dropped" else "endpoint-rtx")
        if take:
            fl.append("take-" + take)
        if what == "ping":
            fl.append("ping-" + sel)
        if mix:
            fl.append("packetack-both-forms")
        w.flags = tuple(fl)

    def _judge_copy_acks(self, w: World, X: Endpoint, xdir: str, g: Dg, delivered: List[int], ctx: str):
        """A re-sent copy of a taken packet must not carry acknowledgements: whatever the original carried has been
        (or will be) delivered by the original's own forward / drop."""
        site = "Message.take:re-sent-copy"
        for x in g.shown():
            if x in delivered:
                w.bad("ack-delivered-twice", site, f"{ctx}: ack {x} shown to endpoint sending {xdir} again on the copy")
            elif x not in X.sent:
                w.bad("ack-not-own-id", site, f"{ctx}: copy shows ack {x} to endpoint sending {xdir}, which only sent {sorted(X.sent)}")
            else:
                w.bad("ack-without-cause", site, f"{ctx}: copy shows ack {x} nobody gave in this step")

    # an addon gives up waiting on an injected reliable packet: what `await asyncio.wait_for(fut, t)` does on timeout
    def _cancel(self, w: World):
        inj = next(i for i in w.inj.values() if i.state == "pending" and i.api)
        inj.future.cancel()
        if w.seam != "deep":
            w.loop.run_ready()
            self._loop_exceptions(w, "asyncio.Future.cancel")
        # from here on nothing is demanded of THIS packet's completion or retransmission; everything else keeps holding
        inj.state = "cancelled"
        w.cancel_used = True
        w.flags = ("cancel-future",)

    # the addon sends a copy it took earlier: an injection from the circuit's point of view
    def _send_held(self, w: World, d: str):
        n, rel, tag, taken = w.held[d].pop(0)
        site = "Circuit.send:taken-copy"
        self._call(w, site, w.circuit.send, taken)
        out = w.take()
        w.last_out = tuple(g.sig() for g in out)
        if len(out) != 1 or out[0].kind != "data" or out[0].tag != tag or out[0].d != d:
            w.bad("injection-output", site, f"re-sending taken packet {n} toward {d} produced {[g.sig() for g in out]}")
            raise _Abort()
        self._judge_copy_acks(w, w.ep[OTHER[d]], OTHER[d], out[0], [], f"kept copy of packet {n} from {d}")
        self._register_injection(w, d, out[0], rel, tag, None, site)
        w.flags = ("send-held",)

    def _register_injection(self, w: World, d: str, g: Dg, rel: bool, tag: int, fut, site: str):
        """g = the datagram in which an injected packet first went out."""
        R = w.ep[OTHER[d]]          # receiver (it sends in the other direction)
        if g.shown() and site != "Circuit.send:taken-copy":   # (a copy's acks are judged by _judge_copy_acks)
            w.bad("ack-without-cause", site, f"injected packet carries acks {g.shown()}")
        if bool(g.flags & F_REL) != rel or (g.flags & F_RESENT):
            w.bad("injection-output", site, f"injected packet flags {g.flags:#x}, reliable wanted={rel}")
        if rel and ((d, g.wire) in w.inj or g.wire in R.rmap):
            w.bad("reliable-wire-id-reused", "InjectionTracker.gen_injectable_id", f"injected wire id {g.wire} toward {d} already in use")
        if rel:
            w.any_reliable = True
            api = fut is not None           # the caller holds the future (send_reliable), so an addon can cancel it
            if fut is None:
                # plain send() hands out no future: read it where the anchors say it lives (absent = not tracked)
                info = w.circuit.unacked_reliable.get((LIBDIR[d], g.wire))
                fut = getattr(info, "completed", None)
            inj = Inj()
            inj.api = api
            inj.d, inj.wire, inj.rel, inj.tag, inj.state, inj.last, inj.elapsed, inj.future = d, g.wire, rel, tag, "pending", w.now, 0, fut
            w.inj[(d, g.wire)] = inj
            w.inj_by_tag[tag] = inj
            R.rmap.setdefault(g.wire, ("J", d, g.wire))
            R.receive_reliable(g.wire)

    def _check_shown(self, w: World, X: Endpoint, xdir: str, dgs: List[Dg], expected: List[int], had_inj: bool, site: str,
                     ctx: str, missing_clause: str = "ack-not-delivered"):
        """X = endpoint that RECEIVES the datagrams dgs (it sends in direction xdir)."""
        shown = Counter()
        for g in dgs:
            shown.update(g.shown())
        exp = Counter(expected)
        for x in sorted(set(shown) | set(exp)):
            s, e = shown[x], exp[x]
            if s < e:
                w.bad(missing_clause if s == 0 else "ack-not-delivered", site,
                      f"{ctx}: endpoint sending {xdir} should be shown ack {x} x{e}, saw x{s}; shown={dict(shown)}")
            elif s > e:
                if e > 0:
                    w.bad("ack-delivered-twice", site, f"{ctx}: ack {x} shown x{s}, expected x{e}")
                elif had_inj and not exp:
                    w.bad("injected-ack-reached-endpoint", site, f"{ctx}: ack {x} shown although only injected packets were acked")
                elif x not in X.sent:
                    w.bad("ack-not-own-id", site, f"{ctx}: endpoint sending {xdir} shown ack {x}, it only sent {sorted(X.sent)}; expected {dict(exp)}")
                else:
                    w.bad("ack-without-cause", site, f"{ctx}: endpoint sending {xdir} shown ack {x} nobody gave; expected {dict(exp)}")
        for x in shown:
            if x in X.own_unacked:
                X.own_unacked.remove(x)

    # the proxy injects a packet travelling in direction d
    def _inject(self, w: World, d: str, rel: bool):
        w.ninj[d] += 1
        tag = (INJ_ORIGIN[d] << 16) | w.ninj[d]
        msg = Message(DATA_MSG, Block("Info", TeleportFlags=tag), direction=LIBDIR[d])
        fut = None
        if rel:
            fut = self._call(w, "Circuit.send_reliable", w.circuit.send_reliable, msg)
        else:
            self._call(w, "ProxiedCircuit.send", w.circuit.send, msg)
        out = w.take()
        w.last_out = tuple(g.sig() for g in out)
        site = "Circuit.send:injected"
        if len(out) != 1 or out[0].kind != "data" or out[0].tag != tag or out[0].d != d:
            w.bad("injection-output", site, f"injection toward {d} produced {[g.sig() for g in out]}")
            raise _Abort()
        self._register_injection(w, d, out[0], rel, tag, fut, site)
        w.flags = ("inject-reliable",) if rel and (w.ep["O"].sent or w.ep["I"].sent) else ()

    # virtual time passes; resend_unacked is polled every 0.1 s like attempt_resends does
    def _tick(self, w: World, kind: str):
        """Poll granularity slack: with e = time since the last transmission, a retransmission is forbidden while
        e < interval, permitted at the poll where e == interval and required at the next one (the statement fixes the
        cadence, not which side of the boundary the comparison falls on).  Same for giving up."""
        polls = {"past": w.interval + 1, "short": w.interval - 1, "exhaust": (w.budget + 1) * (w.interval + 1)}[kind]
        site = "Circuit.resend_unacked"
        all_out = []
        fl = set()
        tr = w.tr
        live = [i for i in w.inj.values() if i.state == "pending"]
        # a cancelled send is not judged, but as long as the circuit keeps resending it the long tick must keep polling at
        # its cadence too (otherwise the moment its budget runs out would be skipped)
        watched = [i for i in w.inj.values() if i.state == "cancelled"]
        remaining = polls
        while remaining > 0:
            k = 1
            if kind == "exhaust":
                # the long tick polls densely only around the instants at which the model says something becomes due
                # (one poll before, at, after); whatever the circuit sends in a skipped stretch is early by construction.
                # Dense polling everywhere is what Tick short / past do.
                due = [i.last for i in live] + [i.last for i in watched]
                k = remaining if not due else max(1, min(remaining, min(due) + w.interval - 1 - w.now))
            w.now += k
            remaining -= k
            self._poll(w, k)
            if not tr.out and not live:
                watched = [i for i in watched if w.now - i.last <= w.interval + 1]
                continue
            got: Dict[Tuple[str, int], int] = {}
            if tr.out:
                out = w.take()
                all_out.extend(out)
                for g in out:
                    inj = w.inj_by_tag.get(g.tag) if g.kind == "data" else None
                    if inj is None or g.d != inj.d:
                        w.bad("unexpected-datagram", site, f"t={w.now / 10}s: {g.sig()} emitted by the resend poll")
                        continue
                    key = (inj.d, inj.wire)
                    if g.shown():
                        w.bad("ack-without-cause", site, f"retransmission of {key} carries acks {g.shown()}")
                    if g.wire != inj.wire:
                        w.bad("resend-id-changed", site, f"injected {key} retransmitted with wire id {g.wire}")
                    if (g.flags & (F_REL | F_RESENT)) != (F_REL | F_RESENT):
                        w.bad("resend-flags", site, f"retransmission of {key} has flags {g.flags:#x}, wants RELIABLE|RESENT")
                    got[key] = got.get(key, 0) + 1
                    if inj.state == "cancelled":
                        w.ep[OTHER[inj.d]].receive_reliable(inj.wire)      # unspecified whether it is still resent
                        inj.last = w.now
                    elif inj.state != "pending":
                        w.bad("resend-after-completion", site, f"t={w.now / 10}s: injected {key} retransmitted although it is {inj.state}")
                    else:
                        w.ep[OTHER[inj.d]].receive_reliable(inj.wire)
            still = []
            for inj in live:
                key = (inj.d, inj.wire)
                e = w.now - inj.last
                n = got.get(key, 0)
                fdone = inj.future.done() if inj.future is not None else None
                if e < w.interval:
                    if n:
                        w.bad("resend-early", site, f"t={w.now / 10}s: injected {key} retransmitted {e / 10}s after its last transmission (interval {w.interval / 10}s)")
                    if fdone:
                        w.bad("completion-premature", site, f"t={w.now / 10}s: injected {key}: future done {e / 10}s into interval #{inj.elapsed + 1}")
                    still.append(inj)
                elif inj.elapsed + 1 >= w.budget:
                    # this interval's expiry spends the budget: give up, transmit nothing
                    if n:
                        w.bad("resend-beyond-budget", site, f"t={w.now / 10}s: injected {key} transmitted again after {w.budget} transmissions")
                    if e == w.interval and not fdone:
                        still.append(inj)
                        continue
                    if fdone is False:
                        w.bad("completion-not-at-exhaustion", site, f"t={w.now / 10}s: injected {key}: interval #{w.budget} elapsed unacknowledged, future still pending")
                    inj.state, inj.last, inj.elapsed = "failed", w.now, inj.elapsed + 1
                    fl.add("exhausted")
                else:
                    if fdone:
                        w.bad("completion-premature", site, f"t={w.now / 10}s: injected {key}: future done after {inj.elapsed + 1} of {w.budget} intervals")
                    if n == 0:
                        if e > w.interval:
                            w.bad("resend-missing", site, f"t={w.now / 10}s: injected {key} due for retransmission #{inj.elapsed + 1} since {(e - w.interval) / 10}s, nothing sent")
                            inj.last = w.now
                    else:
                        if n > 1:
                            w.bad("resend-early", site, f"t={w.now / 10}s: injected {key} retransmitted {n} times in one poll")
                        inj.last, inj.elapsed = w.now, inj.elapsed + 1
                        fl.add("resend")
                    still.append(inj)
            live = still
            watched = [i for i in watched if w.now - i.last <= w.interval + 1]     # gone quiet: stop following it
            if w.violations:
                break
        w.last_out = tuple(g.sig() for g in all_out)
        w.flags = tuple(sorted(fl))

    def _check_futures(self, w: World):
        for key, inj in w.inj.items():
            f = inj.future
            if f is None:
                continue
            done = f.done()
            if inj.state == "pending":
                if done:
                    w.bad("completion-premature", "Circuit.collect_acks" if f.exception() is None else "Circuit.resend_unacked",
                          f"injected {key}: future done although neither acked nor exhausted ({inj.elapsed} intervals elapsed)")
            elif inj.state == "acked":
                if not done:
                    w.bad("completion-not-at-ack", "Circuit.collect_acks", f"injected {key} was acked by its receiver, future still pending")
                elif f.cancelled() or f.exception() is not None:
                    w.bad("completion-wrong-outcome", "Circuit.collect_acks", f"injected {key} acked, future = {f!r}")
            elif inj.state == "failed":
                if not done:
                    w.bad("completion-not-at-exhaustion", "Circuit.resend_unacked",
                          f"injected {key}: budget of {w.budget} spent, future still pending")
                elif f.cancelled() or not isinstance(f.exception(), TimeoutError):
                    w.bad("completion-wrong-outcome", "Circuit.resend_unacked", f"injected {key} exhausted, future = {f!r}")


class _Abort(Exception):
    pass


# ---------------------------------------------------------------------------------------------------------------

SEARCHES = {
    # deep seam: (depth, deviation bound) pairs; quick is a strict subset of thorough
    "quick": [(5, 2), (4, 3)],
    "thorough": [(5, 3), (6, 2), (7, 0)],
}
SHALLOW = {
    # shallow seam (datagram_received + Session + addon + attempt_resends task): (drop style, depth, deviation bound).
    # drop style: the addon calls circuit.drop_message itself / it take()s the message, discards the copy, returns True
    "quick": [("drop", 3, 3), ("take", 3, 1)],
    "thorough": [("drop", 3, 3), ("take", 3, 3), ("drop", 4, 3), ("take", 4, 1)],
}


def run(run: Run):
    h = Harness()
    run.rule = ("explicit-state BFS over {endpoint send rel|unrel x appended acks (none/oldest/newest/all of <=3 pending) x forwarded|dropped, "
                "addon take() + re-send of the copy (now | later), StartPingCheck with OldestUnacked sent|unsent, "
                "standalone PacketAck, endpoint retransmission, proxy injection rel|unrel, Tick short/past/exhaust} per direction on a real "
                "ProxiedCircuit (real deserializer in, real serializer out, virtual clock); non-trivial = steps in which an ack was "
                "translated across an injection, an injected packet was acked, a packet carrying acks / a reliable packet was "
                "dropped, an endpoint retransmitted, or the resend timer fired / ran out")
    run.assumptions += [
        "endpoints are well-behaved LLUDP peers: own packet ids 1,2,3.., ack only reliable packets they received, retransmit only own unacked reliable packets",
        "packet-id wrap-around and injection-window eviction (10 000) are out of reach of the depth bound",
        "retry budget N = ReliableResendInfo.tries_left default = total transmissions (original + N-1 resends); failure when the N-th interval elapses",
        "the resend poll runs every 0.1 virtual seconds (as attempt_resends does); a retransmission is accepted at the poll where exactly one "
        "interval has elapsed or at the next one; datagrams reach endpoints instantly and losslessly",
        "dropping a standalone PacketAck is not exercised; the rewritten StartPingCheck.OldestUnacked value is not judged",
        "addon take() + re-send of the copy and StartPingCheck weigh 2 in the deviation bound; only reliable packets are taken",
        "Tick(exhaust) in the deep seam polls only one poll before/at/after each instant the model expects something due",
        "Tick events are enabled only after some reliable packet has passed through the circuit",
    ]
    for depth, devb in SEARCHES[run.tier]:
        explore.bfs(run, h, depth=depth, dev_bound=devb, label=f"deep depth={depth} dev<={devb} ", recheck_every=53)
    for style, depth, devb in SHALLOW[run.tier]:
        explore.bfs(run, Harness("shallow", style), depth=depth, dev_bound=devb,
                    label=f"shallow({style}) depth={depth} dev<={devb} ", recheck_every=29)
    run.coverage_extra["searches_plan"] = {"deep": SEARCHES[run.tier], "shallow": SHALLOW[run.tier]}
    run.coverage_extra["retry_budget_read"] = _budget()
    for v in run.violations:
        hist = v["witness"]["history"]
        seam = _seam_of(v)
        try:
            hh = Harness(*seam)
            small = explore._minimise_tuples(hh, hist, v["clause"], v["site"])
            v["witness"] = {"seam": list(seam), "history": [list(e) for e in small]}
        except Exception as e:  # best effort
            run.notes.append(f"minimise failed: {e!r}")
            v["witness"] = {"seam": list(seam), "history": hist}


def _seam_of(v) -> Tuple[str, str]:
    """Which harness reproduces this violation: the deep one if it fails there, else the first shallow style that does."""
    hist = v["witness"]["history"]
    for seam in (("deep", "drop"), ("shallow", "drop"), ("shallow", "take")):
        try:
            got = explore.replay_history(Harness(*seam), hist)
        except Exception:
            continue
        if any(g["clause"] == v["clause"] and g["site"] == v["site"] for g in got):
            return seam
    return ("deep", "drop")


def replay(witness):
    seam = witness.get("seam") or ["deep", "drop"]
    return explore.replay_history(Harness(*seam), witness["history"])

"""C08 -- serialization combinators: read(write(v)) == v, exact framing, composable (DESIGN 4 C08, hmc/specgen.py).

Enumerated: every spec tree of hmc.specgen.enumerate_specs(depth) (quick: depth <= 1 plus the unary wrappers over the basis-built
depth-1 trees ("1.5"), thorough: depth <= 2, both plus the depth-3 interaction families) x every value of the tree's derived domain (<= 24, see specgen) x endianness {<,>} x
{non-pod, pod} x trailing bytes {none, 00, FF 01} (only "none" for values whose encoding must end the byte window);
plus, for every value containing an order-insensitive mapping (Template / FlagSwitch / BitField dicts, Dataclass and
BitfieldDataclass pod dicts), its key-order variants (specgen.order_variants: all permutations of a root mapping with <= 3
keys, reversed otherwise, and the twin with every nested mapping reversed) x {<,>} x {non-pod, pod}: same bytes, same
read-back.  DictAdapter / MultiDictAdapter / Collection order is part of the value and is never permuted.

Clauses (site = root combinator of the *smallest* failing closed subtree + labels of its direct children):
  write-raises      writing an in-domain value raised
  ref-bytes         the bytes written differ from the independent reference encoding built alongside the domain
  read-raises       reading back what was written (plus trailing bytes) raised (lazy proxies are forced)
  roundtrip         read(write(v)) != v under mode-normalised equality (specgen.norm: floats by bits, typed enums/coords,
                    list == tuple, proxies forced); the pod value is written and read back in pod mode, the rich one in non-pod
  framing           reader position after the read != number of bytes written, or the trailing bytes are not left unread
  calc-size-raises  spec.calc_size() raised (site '<Class>.calc_size')
  calc-size-wrong   calc_size() returned n but some encoding does not have length n
  probe-accepted    an out-of-domain probe (length max+1, wrong fixed length/count, integer out of range; bitfield member
                    too large / negative / -- for shift=False layouts -- with bits below its own offset or straddling its
                    mask) was written instead of raising (site '<site>:<probe>')
  probe-partial-write  the probe raised, but only after bytes had already been written to the (fresh) writer

Deviation from DESIGN: a reference encoder (ref-bytes) was added so that symmetric mistakes (both directions using the
wrong byte order / wrong prefix width) are visible; "window-consuming" is decided per value (Val.eof), not only per tree,
because e.g. TypedBytesTerminated(empty_is_none) writes nothing for None and is then only readable at the window end.
"""
from __future__ import annotations

from typing import Any, Dict, List, Optional

import hippolyzer.lib.base.serialization as se

from hmc import specgen as sg
from hmc.core import Part, Run, jsonable, pmap

LEVEL = "exploration"
TRAILERS = (b"", b"\x00", b"\xff\x01")
MODES = (False, True)

_TREES: List[tuple] = []
_FAILS: Dict[Any, List[dict]] = {}


def _cls_name(spec) -> str:
    return spec.__name__ if isinstance(spec, type) else type(spec).__name__


def _short(x, n=160) -> str:
    s = repr(x)
    return s if len(s) <= n else s[:n] + "..."


def _kind(desc) -> str:
    lab = sg.label(desc)
    return lab if desc[0] in ("coll", "bytesterm", "cstr", "typedterm", "typedgreedy") else lab.split("(")[0]


def eval_tree(desc, part: Optional[Part] = None) -> List[dict]:
    """All violations of one tree (first witness per (clause, site)); counts into ``part`` when given."""
    desc = sg.T(desc)
    vals = sg.domain(desc)
    out: Dict[tuple, dict] = {}
    if not vals:
        if part:
            part.count("ill_typed_trees_dropped")
        return []
    tsite = sg.site(desc)

    def bad(clause, site, detail, **w):
        if (clause, site) not in out:
            out[(clause, site)] = {"clause": clause, "site": site, "detail": f"{sg.describe(desc)}: {detail}",
                                   "witness": {"spec": jsonable(desc), **{k: jsonable(v) for k, v in w.items()}}}

    spec = sg.build(desc)
    # quantised-float leaves: -0.0 and +0.0 are the same value (the property demands an *equal* value); all else bit-exact
    znorm = (lambda x: sg.norm(x + 0.0 if isinstance(x, float) and x == 0.0 else x)) if desc[0] == "qfloat" else sg.norm
    size = None
    try:
        size = spec.calc_size()
    except Exception as e:
        bad("calc-size-raises", f"{_cls_name(spec)}.calc_size", f"calc_size() raised {e!r}")
    if size is not None and not isinstance(size, int):
        bad("calc-size-wrong", f"{_cls_name(spec)}.calc_size", f"calc_size() returned {size!r}")
        size = None
    n_eval = n_alt = 0
    for vi, val in enumerate(vals):
        trailers = TRAILERS[:1] if val.eof else TRAILERS
        for ei, endian in enumerate(sg.ENDIANS):
            for pod in MODES:
                v = val.pod if pod else val.rich
                ctxw = dict(value=_short(v), value_index=vi, endian=endian, pod=pod)
                w = se.BufferWriter(endian)
                try:
                    w.write(spec, v)
                except Exception as e:
                    n_eval += 1
                    bad("write-raises", tsite, f"write({_short(v)}) endian={endian} pod={pod} raised {e!r}", **ctxw)
                    continue
                data = w.copy_buffer()
                if data != val.enc[ei] and not (val.alt and any(data == a[ei] for a in val.alt)):
                    bad("ref-bytes", tsite, f"write({_short(v)}) endian={endian} pod={pod} gave {data[:48].hex()} (len {len(data)}), "
                                           f"reference encoding {val.enc[ei][:48].hex()} (len {len(val.enc[ei])})", **ctxw)
                if size is not None and len(data) != size:
                    bad("calc-size-wrong", f"{_cls_name(spec)}.calc_size", f"calc_size()={size} but write({_short(v)}) is {len(data)} bytes", **ctxw)
                want = znorm(v)
                for tr in trailers:
                    n_eval += 1
                    r = se.BufferReader(endian, data + tr, pod=pod)
                    try:
                        got = r.read(spec)
                        gn = znorm(got)
                    except Exception as e:
                        bad("read-raises", tsite, f"read(write({_short(v)})+{tr.hex() or 'nothing'}) endian={endian} pod={pod} raised {e!r}",
                            trailing=tr, **ctxw)
                        continue
                    if gn != want:
                        bad("roundtrip", tsite, f"endian={endian} pod={pod} trailing={tr.hex() or '-'}: wrote {_short(v)} ({data[:32].hex()}), "
                                                f"read back {_short(got)}", trailing=tr, **ctxw)
                    if r.tell() != len(data) or len(r) != len(tr):
                        bad("framing", tsite, f"endian={endian} pod={pod}: wrote {len(data)} bytes for {_short(v)} + {len(tr)} trailing, reader stopped "
                                              f"at {r.tell()} with {len(r)} unread", trailing=tr, **ctxw)
                if part is not None:
                    part.outcome((sg.label(desc), len(data), data[:8], pod))
        # the same value with the keys of order-insensitive mappings inserted in another order (dict equality ignores
        # insertion order, so these are the same domain value): identical bytes, identical read-back
        for ai, (arich, apod) in enumerate(sg.order_variants(desc, val)):
            n_alt += 1
            for ei, endian in enumerate(sg.ENDIANS):
                for pod in MODES:
                    n_eval += 1
                    v, canon = (apod, val.pod) if pod else (arich, val.rich)
                    ctxw = dict(value=_short(v), value_index=vi, key_order_variant=ai, endian=endian, pod=pod)
                    w = se.BufferWriter(endian)
                    try:
                        w.write(spec, v)
                    except Exception as e:
                        bad("write-raises", tsite, f"[keys re-ordered] write({_short(v)}) endian={endian} pod={pod} raised {e!r}", **ctxw)
                        continue
                    data = w.copy_buffer()
                    if data != val.enc[ei]:
                        bad("ref-bytes", tsite, f"[keys re-ordered] write({_short(v)}) endian={endian} pod={pod} gave {data[:48].hex()} (len {len(data)}); "
                                               f"the same mapping in spec order encodes to {val.enc[ei][:48].hex()} (len {len(val.enc[ei])})", **ctxw)
                    r = se.BufferReader(endian, data, pod=pod)
                    try:
                        got = r.read(spec)
                        gn = sg.norm(got)
                    except Exception as e:
                        bad("read-raises", tsite, f"[keys re-ordered] read(write({_short(v)})) endian={endian} pod={pod} raised {e!r}", **ctxw)
                        continue
                    if gn != sg.norm(canon):
                        bad("roundtrip", tsite, f"[keys re-ordered] endian={endian} pod={pod}: wrote {_short(v)} ({data[:32].hex()}), read back {_short(got)}", **ctxw)
                    if r.tell() != len(data):
                        bad("framing", tsite, f"[keys re-ordered] endian={endian} pod={pod}: wrote {len(data)} bytes for {_short(v)}, reader stopped at {r.tell()}", **ctxw)
    for pr in sg.probes(desc):
        for endian in sg.ENDIANS:
            n_eval += 1
            w = se.BufferWriter(endian)
            try:
                w.write(spec, pr.value)
            except Exception as e:
                if len(w.buffer):
                    bad("probe-partial-write", f"{tsite}:{pr.why}", f"out-of-domain value {_short(pr.value, 80)} ({pr.why}) raised {e!r} only after "
                                                                    f"{len(w.buffer)} bytes {bytes(w.buffer[:16]).hex()} had been written", probe=pr.why, endian=endian)
                continue
            bad("probe-accepted", f"{tsite}:{pr.why}", f"out-of-domain value {_short(pr.value, 80)} ({pr.why}) was written as "
                                                       f"{len(w.buffer)} bytes {bytes(w.buffer[:16]).hex()}.. instead of raising",
                probe=pr.why, endian=endian)
    if part is not None:
        part.count("evaluations", n_eval)
        part.count("trees")
        part.count("values", len(vals))
        part.count("key_order_variants", n_alt)
        part.count("trees_" + sg.classify(desc).replace("-", "_"))
        if len(desc) > 1 and sg._children(desc):
            part.mark_nontrivial(sg.describe(desc))
        # where do window-consuming (rest-of-window) values occur?  root of the byte window / position under each parent
        n_eof = sum(1 for v in vals if v.eof)
        if n_eof:
            part.count("wcpos:%s at the end of the buffer (root)" % _kind(desc))
            part.count("window_consuming_values", n_eof)
        kids = sg._children(desc)
        for i, (ch, _) in enumerate(kids):
            if sg._closed(ch) and any(v.eof for v in sg._dom(ch, [])):
                part.count("wcpos:%s inside %s (%s)" % (_kind(ch), _kind(desc), "only child" if len(kids) == 1 else
                                                        ("last member" if i == len(kids) - 1 else "non-last member, rest encodes to nothing")))
    return list(out.values())


def _fails(desc) -> List[dict]:
    if desc not in _FAILS:
        _FAILS[desc] = eval_tree(desc)
    return _FAILS[desc]


def minimise(desc, viols: List[dict]) -> List[dict]:
    """Blame the smallest closed subtree that fails the same clause -- failing that, any clause -- on its own (its site and
    witness replace the parent's)."""
    if not viols:
        return viols
    subs = sorted(set(sg.subtrees(desc)), key=lambda d: (len(sg.describe(d)), repr(d)))
    out = []
    for v in viols:
        repl = None
        for s in subs:
            hit = [x for x in _fails(s) if x["clause"] == v["clause"]]
            if hit:
                repl = hit[0]
                break
        if repl is None:  # no subtree fails the same clause: a subtree that is broken in another way still takes the blame
            for s in subs:   # (e.g. a leaf writing the wrong byte makes a terminated wrapper mis-frame)
                if _fails(s):
                    repl = _fails(s)[0]
                    break
        out.append(repl or v)
    return out


def _work(bounds):
    lo, hi = bounds
    part = Part()
    for desc in _TREES[lo:hi]:
        viols = eval_tree(desc, part)
        _FAILS[desc] = viols
        for v in minimise(desc, viols):
            part.violation(v["clause"], v["site"], v["witness"], v["detail"])
        if viols:
            part.count("trees_with_violation")
    part.count("domain_decode_rejects", sg.STATS["decode_rejects"])
    return part.dump()


def run(run: Run):
    global _TREES
    depth = 1.5 if run.tier == "quick" else 2
    _TREES = sg.enumerate_specs(depth)
    step = 24
    units = [(i, min(i + step, len(_TREES))) for i in range(0, len(_TREES), step)]
    for d in pmap(_work, units, run.jobs, chunksize=1):
        run.merge(d)
    for i in (5, 700, len(_TREES) - 3):
        d = _TREES[min(i, len(_TREES) - 1)]
        vals = sg.domain(d)
        if vals:
            run.sample({"spec": sg.describe(d), "class": sg.classify(d), "values": len(vals),
                        "example": {"rich": repr(vals[-1].rich)[:120], "pod": repr(vals[-1].pod)[:120], "le": vals[-1].enc[0][:32], "be": vals[-1].enc[1][:32]}})
    run.rule = (f"every spec tree of specgen.enumerate_specs(depth={depth}) ({len(sg.LEAVES)} leaves; depth 1 = 13-18 unary wrappers x every leaf + 9-10 "
                f"n-ary forms x {len(sg.BASIS)}^2 basis pairs; depth 2 = the same wrappers over every basis-built depth-1 tree + 5 n-ary forms pairing it "
                f"with {len(sg.BASIS2)} leaves in both orders; + {len(sg.families())} depth-3 family trees) x derived domain (<= {sg.CAP} values, every member "
                "value kept by a covering selection) x {<,>} x {non-pod, pod} x trailing {none, 00, FF01} (none only for window-consuming values); "
                "+ key-order variants of every order-insensitive mapping value (all permutations of a root mapping with <= 3 keys, nested mappings reversed). "
                "distinct_nontrivial = distinct composite trees (>= 1 combinator above a leaf) with a non-empty domain")
    run.assumptions += [
        "domain per specgen docstring: window-consuming members only in tail position (or followed by empty encodings), greedy-collection / "
        "IfPresent / empty_is_none payloads have non-empty encodings, no terminator inside terminated values, no trailing NUL in Str/StrFixed, "
        "unique keys for DictAdapter, members only for strict IntEnum / StringEnumAdapter, NaN-free wire-exact floats, unit-ball quaternions",
        "lazy typed bytes only around context-closed children (documented: no context is passed to the deferred parse)",
        "32/64-bit primitives and value cross products are covered by boundary alphabets and covering rows, not full products; "
        "NumPyArray/QuantizedNumPyArray/BinaryLLSD/ForwardSerializable and FHReader are not in the grammar",
        "QuantizedFloat / FixedPoint saturate out-of-range floats by design (C10); they are not probed as range violations",
        "adapter domains are derived through the adapter's own decode (wire-first); the reference bytes are those of the first wire value "
        "decoding to each distinct value",
    ]
    import time
    run.coverage_extra["wall"] = round(time.time() - run.t0, 1)
    run.notes += [
        "observation (outside C08's statement, C10 territory): QuantizedFloat with an *inferred* zero median on a range whose midpoint is within one "
        "step of 0 but not 0 (e.g. QuantizedFloat(U16|S16, -1.000030518509476, 1.0) without an explicit zero_median): the signed-zero trick does not "
        "give the raw code back (0x7fff -> -0.0 -> 0x8000 -> +0.0); values stay equal (-0.0 == +0.0), so the check accepts either centre code for such "
        "a zero and compares quantised-float leaf values with -0.0 == +0.0; no shipped instance has this parameterisation (TE_S16_COORD passes False)",
        "observation: the pinned QuantizedFloat constructor ignores an explicit zero_median=True (only None triggers the inference; the spec then "
        "behaves like zero_median=False); self-consistent, hence not a round-trip violation -- that option value is derived wire-first",
    ]
    run.coverage_extra["depth"] = depth
    run.coverage_extra["trees_enumerated"] = len(_TREES)
    wc = {k[6:]: v for k, v in run.counters.items() if k.startswith("wcpos:")}
    for k in list(run.counters):
        if k.startswith("wcpos:"):
            del run.counters[k]
    run.coverage_extra["window_consuming_positions"] = dict(sorted(wc.items()))  # trees per (rest-of-window spec, where it sits)
    run.coverage_extra["constructor_options_covered"] = sg.option_coverage(_TREES)
    run.coverage_extra["constructor_options_not_varied"] = [
        "dataclass_field(default/default_factory/init/repr/hash/compare) and bitfield_field(default...) -- no effect on the wire",
        "IntEnum/IntFlag/StringEnumAdapter enum_cls, Dataclass data_cls, ExprAdapter functions: one fixture each (E8/E2/F8/SEnum, generated DC, x*2+1 | identity)",
        "Str/StrFixed have no encoding option (UTF-8 is hard-coded); TypedBytesFixed(empty_is_none=True) is ill-typed unless length 0",
        "BytesTerminated/CStr(write_terminator=False, eof_terminates=False) cannot be read back on its own (ill-typed)",
        "NumPyArray / QuantizedNumPyArray / BinaryLLSD / FHReader are not in the grammar; BufferWriter/Reader endianness in {'<','>'}",
    ]


def replay(w):
    return eval_tree(sg.T(w["spec"]))

"""C04 -- packet-ID translation around injected packets (explicit-state search on the real InjectionTracker).

Alphabet (one direction of one circuit):
  ("S",)      endpoint sends its next unseen ID (highest sent + 1)
  ("G", k)    endpoint skips ahead by k in {1,2} (hole in the sequence; the holes may arrive later)   [deviation]
  ("O", n)    endpoint sends an older / out-of-order ID n <= highest sent (re-send or late hole)       [deviation]
  ("I",)      proxy injects a packet (gen_injectable_id)
Every endpoint send does what ProxiedCircuit.prepare_message does: wire = get_effective_id(n); track_seen(wire).

Oracle after every step, for every endpoint ID n in 1..highest+2 that is *in scope* (its reference wire
position lies above the newest injection that aged out of the window), with F(n) = get_effective_id(n):
  injective/order : F strictly increasing over in-scope n
  avoid-injected  : F(n) is never an ID gen_injectable_id returned
  stable          : F(n) equals the wire ID n got when it was first sent
  inverse         : get_original_id(F(n)) == n
  was-injected    : was_injected is True for injected IDs still in the window, False for F(n);
                    get_original_id(injected-in-window) raises ValueError
  fresh-injection : gen_injectable_id returns an ID above every wire ID seen so far

CIRCUIT SEAM (second search, same laws observed on the wire): a real ProxiedCircuit with a capturing transport; the
endpoint's packets go through circuit.send()/drop_message() exactly as the proxy does it, injections are synthetic
circuit.send()s, and the laws are evaluated on the packet IDs of the captured datagrams (each datagram carries a tag
naming the endpoint ID / injection it came from).  Extra events there: first sight of an ID already flagged RESENT,
the proxy dropping an endpoint packet ("D"), an addon take()ing it and re-injecting the copy ("T"), dropping an
out-of-order ID ("DO").  This reaches the cooperation between the tracker and prepare_message/drop_message (what is
tracked as seen, what is recorded as dropped vs injected), which the tracker-only search cannot see.
"""
from __future__ import annotations

import copy
import itertools
from typing import Any, Dict, List

import struct

from hippolyzer.lib.base.message.message import Block, Message
from hippolyzer.lib.base.message.msgtypes import PacketFlags
from hippolyzer.lib.base.network.transport import Direction
from hippolyzer.lib.proxy.circuit import InjectionTracker, ProxiedCircuit

from hmc import explore
from hmc.core import Run

LEVEL = "model_checking"


def _freeze(v):
    if isinstance(v, dict):
        return tuple(sorted((repr(k), _freeze(x)) for k, x in v.items()))
    if isinstance(v, (list, tuple)) or type(v).__name__ in ("deque",):
        return (getattr(v, "maxlen", None),) + tuple(_freeze(x) for x in v)    # the bound is part of the state identity
    if isinstance(v, (set, frozenset)):
        return tuple(sorted(repr(x) for x in v))
    if isinstance(v, (int, float, str, bytes, bool, type(None))):
        return v
    return repr(v)


def _tstate(t):
    """Whole state of a tracker object, without naming its (private) fields: robust against internal renames."""
    return tuple(sorted((k, _freeze(v)) for k, v in vars(t).items()))


class World:
    def __init__(self, maxlen: int):
        self.t = InjectionTracker(0, maxlen=maxlen)
        self.maxlen = maxlen
        self.sent: Dict[int, int] = {}      # endpoint id -> wire id at first translation
        self.injected: List[int] = []       # all-time injected wire ids, in order
        self.max_sent = 0
        self.max_wire = 0
        self.violations: List[Dict[str, Any]] = []


class Harness:
    copyable = True

    def __init__(self, maxlen: int):
        self.maxlen = maxlen

    def fresh(self) -> World:
        return World(self.maxlen)

    def enabled(self, w: World):
        evs = [("S",), ("I",), ("G", 1), ("G", 2)]
        evs += [("O", n) for n in range(1, w.max_sent + 1)]
        return evs

    def deviation(self, ev) -> int:
        return 1 if ev[0] in ("G", "O") else 0

    def canon(self, w: World):
        return (_tstate(w.t), tuple(sorted(w.sent.items())), tuple(w.injected), w.max_sent)

    def nontrivial(self, w: World, hist):
        # a lookup of an ID that has an injection *behind* it (later injection exists above its wire id)
        if w.injected and any(wire < w.injected[-1] for wire in w.sent.values()) and len(w.injected) >= 1:
            return self.canon(w)
        return None

    def observe(self, w: World):
        return (tuple(w.injected), tuple(sorted(w.sent.values())))

    # --- transitions -----------------------------------------------------------------------------
    def step(self, w: World, ev):
        kind = ev[0]
        if kind == "I":
            wire = w.t.gen_injectable_id()
            if wire <= w.max_wire or wire in w.sent.values() or wire in w.injected:
                w.violations.append({"clause": "fresh-injection", "site": "InjectionTracker.gen_injectable_id",
                                     "detail": f"injected id {wire} not above highest wire id seen {w.max_wire}"})
            w.injected.append(wire)
            w.max_wire = max(w.max_wire, wire)
        else:
            if kind == "S":
                n = w.max_sent + 1
            elif kind == "G":
                n = w.max_sent + 1 + ev[1]
            else:
                n = ev[1]
            wire = w.t.get_effective_id(n)
            w.t.track_seen(wire)
            w.sent.setdefault(n, wire)
            w.max_sent = max(w.max_sent, n)
            w.max_wire = max(w.max_wire, wire)
        self.oracle(w)

    # --- oracle ----------------------------------------------------------------------------------
    def oracle(self, w: World):
        t = w.t
        inj_all = set(w.injected)
        evicted = w.injected[:-self.maxlen] if len(w.injected) > self.maxlen else []
        newest_evicted = evicted[-1] if evicted else 0
        window = w.injected[len(evicted):]

        def ref_wire(n: int) -> int:
            # n-th positive integer that was never injected
            k, x = 0, 0
            while k < n:
                x += 1
                if x not in inj_all:
                    k += 1
            return x

        def bad(clause, site, detail):
            w.violations.append({"clause": clause, "site": site, "detail": detail})

        prev = None
        for n in range(1, w.max_sent + 3):
            pos = w.sent.get(n)
            if pos is None:
                pos = ref_wire(n)
            if pos <= newest_evicted:
                prev = None
                continue
            f = t.get_effective_id(n)
            if prev is not None and not (prev[1] < f):
                bad("order", "InjectionTracker.get_effective_id", f"F({prev[0]})={prev[1]} but F({n})={f}")
            prev = (n, f)
            if f in inj_all:
                bad("avoid-injected", "InjectionTracker.get_effective_id", f"F({n})={f} is an injected id {sorted(inj_all)}")
            if n in w.sent and w.sent[n] != f:
                bad("stable", "InjectionTracker.get_effective_id", f"id {n} first went out as {w.sent[n]}, now translates to {f}")
            if f in inj_all:
                continue
            try:
                back = t.get_original_id(f)
            except Exception as e:
                back = repr(e)
            if back != n:
                bad("inverse", "InjectionTracker.get_original_id",
                    f"injected so far {w.injected}: wire {f} belongs to id {n}, got {back}")
            if t.was_injected(f):
                bad("was-injected", "InjectionTracker.was_injected", f"wire {f} (endpoint id {n}) reported as injected")
        for x in window:
            if not t.was_injected(x):
                bad("was-injected", "InjectionTracker.was_injected", f"injected id {x} in window not reported")
            try:
                r = t.get_original_id(x)
                bad("was-injected", "InjectionTracker.get_original_id", f"injected id {x} translated back to {r} instead of raising")
            except ValueError:
                pass



class _Transport:
    def __init__(self):
        self.sent = []

    def send_packet(self, packet):
        self.sent.append((bytes(packet.data), packet.direction))


INJ_TAG = 0x80000000


class CWorld:
    def __init__(self, maxlen: int, base: int = 1):
        self.base = base                    # the endpoint's first packet id (LL endpoints start at 1, hippolyzer's own client at 0)
        self.tp = _Transport()
        self.c = ProxiedCircuit(("127.0.0.1", 1), ("127.0.0.1", 2), self.tp)
        self.c.out_injections = InjectionTracker(0, maxlen=maxlen)
        self.maxlen = maxlen
        self.sent: Dict[int, int] = {}      # endpoint id -> wire id at first forward
        self.injected: List[int] = []       # wire ids of proxy-made OUT packets, in order
        self.dropped: List[int] = []        # endpoint ids dropped (never forwarded at that time)
        self.max_sent = base - 1
        self.max_wire = -1
        self.n_inj = 0
        self.n_failed = 0                   # injections whose serialization failed: an id was drawn but never reached the wire
        self.oos: set = set()               # endpoint ids that were out of scope when first forwarded (never asserted)
        self.violations: List[Dict[str, Any]] = []
        # prime the inbound side with packet id 1: every later carrier of the ack observation reuses that id, so the observation
        # (memoised or not) leaves the circuit exactly as it found it
        self.c.send(Message("TeleportStart", Block("Info", TeleportFlags=0), packet_id=1, flags=0, direction=Direction.IN))
        self.c.drop_message(Message("TeleportStart", Block("Info", TeleportFlags=0), packet_id=1, flags=0, direction=Direction.IN))
        del self.tp.sent[:]


class CircuitHarness:
    """Same laws, observed on captured datagrams of a real ProxiedCircuit (direction OUT = viewer -> simulator)."""
    copyable = False

    def __init__(self, maxlen: int, ack_width: int = 3, base: int = 1):
        self.base = base
        self.maxlen = maxlen
        self.ack_width = ack_width      # how many of the newest wire ids the back-translation observation permutes
        self._ack_memo: set = set()

    def fresh(self) -> CWorld:
        return CWorld(self.maxlen, self.base)

    def _evicted(self, w: CWorld, injected=None) -> list:
        """Injections that may have aged out of the tracker's window. An injection whose serialization failed may or may not keep
        its window slot (unspecified), so each one is counted as occupying a slot: conservative, only shrinks the asserted scope."""
        inj = w.injected if injected is None else injected
        k = len(inj) + w.n_failed - self.maxlen
        return inj[:min(len(inj), k)] if k > 0 else []

    @staticmethod
    def _wire_acks(data: bytes):
        """(appended acks, PacketAck body ids) of one captured datagram, decoded by hand."""
        flags, _pid, off = struct.unpack(">BIB", data[:6])
        appended: List[int] = []
        end = len(data)
        if flags & int(PacketFlags.ACK):
            cnt = data[-1]
            end = len(data) - 1 - 4 * cnt
            appended = [struct.unpack(">I", data[end + 4 * i:end + 4 * i + 4])[0] for i in range(cnt)][::-1]   # last ack first on the wire
        body = data[6 + off:end]
        ids: List[int] = []
        if body[:4] == b"\xff\xff\xff\xfb":
            ids = [struct.unpack("<I", body[5 + 4 * i:9 + 4 * i])[0] for i in range(body[4])]
        return appended, ids

    def ping_oracle(self, w: CWorld, bad):
        """Forward translation through its other entry point: a forwarded StartPingCheck carries OldestUnacked = an id the endpoint
        sent earlier; on the wire it must read the wire id that packet went out as (stable, never an injected id). The carrier
        re-uses the endpoint's newest packet id, so the observation leaves the trackers as they are."""
        if w.max_sent < w.base or w.max_sent not in w.sent:
            return
        evicted = self._evicted(w)
        newest_evicted = evicted[-1] if evicted else -1
        inj_all = set(w.injected)
        todo = [(n, wire) for n, wire in sorted(w.sent.items()) if wire > newest_evicted and n not in w.oos and wire not in inj_all]
        key = ("ping", _tstate(w.c.out_injections), tuple(todo), w.max_sent)
        if key in self._ack_memo:
            return
        n_bad = len(w.violations)
        for n, wire in todo:
            before = len(w.tp.sent)
            try:
                m = Message("StartPingCheck", Block("PingID", PingID=7, OldestUnacked=n), packet_id=w.max_sent, flags=0, direction=Direction.OUT)
                w.c.send(m)
            except Exception as e:
                bad("exception", "ProxiedCircuit:StartPingCheck", f"OldestUnacked={n}: {type(e).__name__}: {e}")
                continue
            got = None
            for data, direction in w.tp.sent[before:]:
                if direction == Direction.OUT:
                    _f, _pid, off = struct.unpack(">BIB", data[:6])
                    body = data[6 + off:]
                    if body[:1] == b"\x01" and len(body) >= 6:
                        got = struct.unpack("<I", body[2:6])[0]
            del w.tp.sent[before:]
            # documented: the proxy substitutes its own oldest unacknowledged reliable packet when that is older
            own = [a for (d, a) in getattr(w.c, "unacked_reliable", {}).keys() if d == Direction.OUT]
            if got != min([wire] + own):
                what = "stable" if got not in inj_all else "avoid-injected"
                bad(what, "ProxiedCircuit._rewrite_start_ping_check",
                    f"injected so far {w.injected}, forwarded {sorted(w.sent.items())}: StartPingCheck.OldestUnacked={n} went out as {got}, "
                    f"packet {n} itself went out as {wire}")
        if len(w.violations) == n_bad:
            self._ack_memo.add(key)

    def ack_oracle(self, w: CWorld, bad):
        """Back-translation as the endpoint sees it: for every ordered list of up to 3 of the newest in-scope wire ids, an
        inbound packet acknowledging them (appended to a forwarded packet, in a PacketAck body, appended to a dropped packet)
        must reach the viewer acknowledging exactly the original ids of the non-injected ones (as a multiset; order is not stated). The carrier
        packets all carry inbound packet id 1, so the observation leaves the circuit's state as the first of them left it."""
        evicted = self._evicted(w)
        newest_evicted = evicted[-1] if evicted else -1
        inj_all = set(w.injected)
        expect: Dict[int, Any] = {}
        for n, wire in w.sent.items():
            if wire > newest_evicted and n not in w.oos and wire not in inj_all:
                expect[wire] = n
        for x in w.injected[len(evicted):]:
            if x not in w.sent.values():
                expect[x] = None
        cand = sorted(expect)[-self.ack_width:]
        # the observation is a function of the two trackers' state and the expectation map: one evaluation per distinct key and worker
        key = (_tstate(w.c.out_injections), _tstate(w.c.in_injections), tuple((x, expect[x]) for x in cand))
        if key in self._ack_memo:
            return
        n_bad = len(w.violations)
        self._ack_done = key
        for k in range(1, min(3, len(cand)) + 1):
            for lst in itertools.permutations(cand, k):
                want = [expect[x] for x in lst if expect[x] is not None]
                for carrier in ("appended", "body", "dropped"):
                    before = len(w.tp.sent)
                    try:
                        if carrier == "body":
                            m = Message("PacketAck", *[Block("Packets", ID=x) for x in lst], packet_id=1, flags=0, direction=Direction.IN)
                            w.c.send(m)
                        else:
                            m = Message("TeleportStart", Block("Info", TeleportFlags=0), packet_id=1, flags=0, direction=Direction.IN)
                            m.acks = tuple(lst)
                            m.send_flags |= PacketFlags.ACK
                            if carrier == "appended":
                                w.c.send(m)
                            else:
                                w.c.drop_message(m)
                    except Exception as e:
                        bad("exception", f"ProxiedCircuit:acks:{carrier}", f"acks {list(lst)}: {type(e).__name__}: {e}")
                        continue
                    got: List[int] = []
                    for data, direction in w.tp.sent[before:]:
                        if direction != Direction.IN:
                            continue
                        a, b = self._wire_acks(data)
                        got += a + b
                    del w.tp.sent[before:]
                    if sorted(got) != sorted(want):      # which ids are acknowledged, not in which order
                        bad("inverse", f"ProxiedCircuit:acks:{carrier}",
                            f"injected so far {w.injected}, forwarded {sorted(w.sent.items())}: inbound acks {list(lst)} "
                            f"reached the viewer as {got}, expected {want}")
        if len(w.violations) == n_bad:
            self._ack_memo.add(key)

    def enabled(self, w: CWorld):
        evs = [("S", 0), ("S", 1), ("I",), ("G", 1), ("D", 0), ("D", 1), ("T", 1)]
        if w.n_failed == 0:
            evs.append(("IF",))     # an injected message that cannot be serialized (a variable left unset): at most once per history
        for n in range(w.base, w.max_sent + 1):
            evs.append(("O", n, 0))
            if n not in w.sent:
                evs.append(("O", n, 1))     # late first sight of a hole, flagged RESENT
                evs.append(("DO", n))
        return evs

    def deviation(self, ev) -> int:
        return 0 if ev in (("S", 0), ("I",)) else 1

    def canon(self, w: CWorld):
        return (_tstate(w.c.out_injections), _tstate(w.c.in_injections),
                tuple(sorted(w.sent.items())), tuple(w.injected), tuple(w.dropped), w.max_sent, tuple(sorted(w.oos)), w.n_failed)

    def nontrivial(self, w: CWorld, hist):
        if w.injected and w.dropped:
            return self.canon(w)
        return None

    def observe(self, w: CWorld):
        return (tuple(sorted(w.sent.values())), tuple(w.injected), tuple(w.dropped))

    @staticmethod
    def _msg(tag: int, packet_id, flags: int) -> Message:
        return Message("TeleportStart", Block("Info", TeleportFlags=tag), packet_id=packet_id, flags=flags, direction=Direction.OUT)

    @staticmethod
    def _decode(data: bytes):
        flags, pid, off = struct.unpack(">BIB", data[:6])
        body = data[6 + off:]
        if body[:4] == b"\xff\xff\xff\xfb":
            return ("ack", pid, None)
        tag = struct.unpack("<I", body[4:8])[0]
        return ("data", pid, tag)

    def step(self, w: CWorld, ev):
        kind = ev[0]
        before = len(w.tp.sent)

        def bad(clause, site, detail):
            w.violations.append({"clause": clause, "site": site, "detail": detail})

        try:
            if kind == "IF":
                w.n_failed += 1
                try:
                    w.c.send(Message("TeleportStart", Block("Info"), packet_id=None, flags=0, direction=Direction.OUT))
                except Exception:
                    pass        # the refusal itself is expected; what matters is every translation afterwards
            elif kind == "I":
                w.n_inj += 1
                w.c.send(self._msg(INJ_TAG | w.n_inj, None, 0))
            else:
                if kind in ("S", "D", "T"):
                    n = w.max_sent + 1
                elif kind == "G":
                    n = w.max_sent + 1 + ev[1]
                else:
                    n = ev[1]
                flags = 0
                if kind in ("S", "O") and ev[-1] == 1:
                    flags |= int(PacketFlags.RESENT) | int(PacketFlags.RELIABLE)
                if kind in ("D", "T") and ev[1] == 1:
                    flags |= int(PacketFlags.RELIABLE)
                msg = self._msg(n, n, flags)
                w.max_sent = max(w.max_sent, n)
                if kind in ("D", "DO"):
                    w.c.drop_message(msg)
                    w.dropped.append(n)
                elif kind == "T":
                    copy_ = msg.take()
                    w.c.drop_message(msg)
                    w.dropped.append(n)
                    w.n_inj += 1
                    copy_["Info"]["TeleportFlags"] = INJ_TAG | w.n_inj
                    w.c.send(copy_)
                else:
                    w.c.send(msg)
        except Exception as e:
            bad("exception", f"ProxiedCircuit:{kind}", f"{type(e).__name__}: {e}")
            return
        # scope (as in the tracker search): laws are asserted for endpoint IDs whose wire position lies above the newest
        # injection that has aged out of the tracker's window at the time of the step
        pre_inj = list(w.injected)
        ev_list = self._evicted(w, pre_inj)
        newest_evicted = ev_list[-1] if ev_list else -1

        def ref_wire(n: int) -> int:
            k, x, inj = 0, w.base - 1, set(pre_inj)
            while k < n - w.base + 1:
                x += 1
                if x not in inj:
                    k += 1
            return x

        for data, direction in w.tp.sent[before:]:
            if direction != Direction.OUT:
                continue
            what, wire, tag = self._decode(data)
            if what != "data":
                continue
            if tag & INJ_TAG:
                if wire <= w.max_wire or wire in w.sent.values() or wire in w.injected:
                    bad("fresh-injection", "ProxiedCircuit.send:injected",
                        f"injected packet went out as wire id {wire}, not above every wire id used so far (max {w.max_wire}, "
                        f"forwarded {sorted(w.sent.values())}, injected {w.injected})")
                w.injected.append(wire)
            else:
                n = tag
                if (w.sent[n] if n in w.sent else ref_wire(n)) <= newest_evicted:
                    w.sent.setdefault(n, wire)      # out of scope: older than an evicted injection (bounded memory)
                    w.oos.add(n)
                    w.max_wire = max(w.max_wire, wire)
                    continue
                if n in w.sent and w.sent[n] != wire:
                    bad("stable", "ProxiedCircuit.send:forwarded", f"endpoint id {n} first went out as {w.sent[n]}, now as {wire}")
                if n not in w.sent:
                    for m, wm in w.sent.items():
                        if wm == wire:
                            bad("injective", "ProxiedCircuit.send:forwarded", f"endpoint ids {m} and {n} both went out as wire id {wire}")
                    if wire in w.injected:
                        bad("avoid-injected", "ProxiedCircuit.send:forwarded", f"endpoint id {n} went out as wire id {wire}, used for an injected packet")
                    w.sent[n] = wire
            w.max_wire = max(w.max_wire, wire)
        self.oracle(w, bad)
        if not w.violations:
            self.ack_oracle(w, bad)
        if not w.violations:
            self.ping_oracle(w, bad)

    def oracle(self, w: CWorld, bad):
        t = w.c.out_injections
        evicted = self._evicted(w)
        newest_evicted = evicted[-1] if evicted else -1
        window = w.injected[len(evicted):]
        inj_all = set(w.injected)
        prev = None
        for n in sorted(w.sent):
            wire = w.sent[n]
            if wire <= newest_evicted or n in w.oos:
                prev = None
                continue
            if prev is not None and not prev[1] < wire:
                bad("order", "ProxiedCircuit.send:forwarded", f"id {prev[0]} -> wire {prev[1]} but id {n} -> wire {wire}")
            prev = (n, wire)
            if wire in inj_all:
                continue
            try:
                back = t.get_original_id(wire)
            except Exception as e:
                back = repr(e)
            if back != n:
                bad("inverse", "InjectionTracker.get_original_id", f"wire {wire} carried endpoint id {n}, translated back to {back}")
            if t.was_injected(wire):
                bad("was-injected", "InjectionTracker.was_injected", f"wire {wire} (endpoint id {n}) reported as injected")
        for x in window:
            if x in w.sent.values():
                continue
            if not t.was_injected(x):
                bad("was-injected", "InjectionTracker.was_injected", f"injected wire id {x} (in window) not reported as injected")


def run(run: Run):
    depth = 8 if run.tier == "quick" else 10
    devb = 3 if run.tier == "quick" else 4
    run.rule = ("[+ closed-form schedules of W+70 rounds of send/inject with resends and gaps on windows W in LONG_WINDOWS (65..257, thorough to 2049), same oracle] "
                "explicit-state BFS over {S, G(1|2), O(n), I} on the real InjectionTracker with window maxlen in {1,2,3}, plus a second "
                "search over {S, S-first-sight-RESENT, G, O(n), O(n)-RESENT, I, I-that-fails-to-serialize, D(rop), T(ake+reinject), DO(n)} on a real ProxiedCircuit "
                "(tracker window 2 and 10000 with the endpoint numbering from 1, window 2 numbering from 0) observing packet ids on the captured datagrams and, in every state, the acks that reach the viewer for "
                "every ordered list of up to 3 of the newest 3 (thorough: 4) wire ids acknowledged by an inbound packet (appended / PacketAck body / "
                "appended to a dropped packet), and the OldestUnacked a forwarded StartPingCheck carries for every in-scope id sent so far; "
                "states deduplicated on (injections, bases, first-translation map, all-time injections); non-trivial = "
                "distinct states in which some sent ID has a later injection above it (lookups below the newest injection)")
    run.assumptions += ["packet-id wrap-around excluded (documented unsupported)",
                        "clauses evaluated only for IDs above the newest injection evicted from the window"]
    last = None
    for maxlen in (1, 2, 3):
        h = Harness(maxlen)
        explore.bfs(run, h, depth=depth, dev_bound=devb, label=f"maxlen={maxlen} ")
        last = h
    for v in run.violations:  # attach the window size to every witness, then shrink
        pass
    cdepth = 6 if run.tier == "quick" else 7
    cdev = 3 if run.tier == "quick" else 4
    for maxlen, base in ((2, 1), (10000, 1), (2, 0)):
        explore.bfs(run, CircuitHarness(maxlen, ack_width=3 if run.tier == "quick" else 4, base=base), depth=cdepth, dev_bound=cdev,
                    label=f"circuit maxlen={maxlen} first-id={base} ")
    run.coverage_extra["depth"] = depth
    run.coverage_extra["deviation_bound"] = devb
    run.coverage_extra["circuit_depth"] = cdepth
    run.coverage_extra["circuit_deviation_bound"] = cdev
    # minimise witnesses (needs the right window size: recover it by trying each)
    for v in run.violations:
        hist = v["witness"]["history"]
        seam = "circuit" if v["site"].startswith("ProxiedCircuit") or any(len(e) and e[0] in ("D", "T", "DO") or (e[0] in ("S", "O") and len(e) > (1 if e[0] == "S" else 2)) for e in hist) else "tracker"
        cands = ([("circuit", CircuitHarness(m, base=b), m, b) for m, b in ((2, 1), (10000, 1), (2, 0))] if seam == "circuit"
                 else [("tracker", Harness(m), m, 1) for m in (1, 2, 3)])
        for kind, h, maxlen, base in cands:
            try:
                got = explore.replay_history(h, hist)
            except Exception:
                continue
            if any(g["clause"] == v["clause"] for g in got):
                small = explore._minimise_tuples(h, hist, v["clause"], v["site"])
                v["witness"] = {"seam": kind, "maxlen": maxlen, "base": base, "history": [list(e) for e in small]}
                break
    from hmc.core import pmap
    for d in pmap(_long_worker, list(LONG_WINDOWS[run.tier]), run.jobs):
        run.merge(d)
    run.coverage_extra["long_windows"] = list(LONG_WINDOWS[run.tier])


# ---- large windows: closed-form schedules that fill a window of W injections and run past its eviction point ----------------
LONG_WINDOWS = {"quick": (65, 100, 129, 257), "thorough": (65, 100, 129, 257, 513, 1025, 2049)}


def long_schedule(W: int) -> List[Tuple[tuple, bool]]:
    """[(event, evaluate the oracle after it)]: W + 70 rounds of [S, I], every 8th round also a resend O(n) of a recent and of an old id and
    a gap G(1).  The oracle runs on every 16th round while the window fills and after every event from round W - 4 on (eviction starts at
    round W + 1)."""
    out: List[Tuple[tuple, bool]] = []
    sent = 0
    for r in range(1, W + 71):
        dense = r >= W - 4 or r % 16 == 0
        out.append((("S",), False))
        sent += 1
        out.append((("I",), dense))
        if r % 8 == 0:
            out.append((("O", max(1, sent - 2)), False))
            out.append((("O", max(1, sent // 2)), False))
            out.append((("G", 1), dense))
            sent += 2
    return out


def long_case(W: int) -> List[Dict[str, Any]]:
    h = Harness(W)
    w = h.fresh()
    real_oracle = h.oracle
    flag = {"on": False}
    h.oracle = lambda ww: real_oracle(ww) if flag["on"] else None
    hist = []
    for ev, check in long_schedule(W):
        flag["on"] = check
        hist.append(ev)
        h.step(w, ev)
        if w.violations:
            break
    seen, out = set(), []
    for v in w.violations:
        if (v["clause"], v["site"]) not in seen:
            seen.add((v["clause"], v["site"]))
            out.append(dict(v, site=v["site"] + f":window={W}", steps=len(hist)))
    return out


def _long_worker(W: int):
    from hmc.core import Part
    import logging
    logging.disable(logging.WARNING)   # the tracker warns about every resend of an id below the window
    part = Part()
    part.count("evaluations")
    part.count("long_window_schedules")
    for v in long_case(W):
        part.violation(v["clause"], v["site"], {"seam": "long", "maxlen": W, "steps": v["steps"]}, v["detail"])
    part.mark_nontrivial(("long-window", W))
    part.outcome(("long-window", W))
    return part.dump()


def replay(witness):
    if witness.get("seam") == "long":
        return long_case(int(witness["maxlen"]))
    if witness.get("seam") == "circuit":
        return explore.replay_history(CircuitHarness(int(witness.get("maxlen", 2)), base=int(witness.get("base", 1))), witness["history"])
    h = Harness(int(witness.get("maxlen", 3)))
    return explore.replay_history(h, witness["history"])

"""C04 -- packet-ID translation around injected packets (explicit-state search on the real InjectionTracker).

Alphabet (one direction of one circuit):
  ("S",)      endpoint sends its next unseen ID (highest sent + 1)
  ("G", k)    endpoint skips ahead by k in {1,2} (hole in the sequence; the holes may arrive later)   [deviation]
  ("O", n)    endpoint sends an older / out-of-order ID n <= highest sent (re-send or late hole)       [deviation]
  ("I",)      proxy injects a packet (gen_injectable_id)
Every endpoint send does what ProxiedCircuit.prepare_message does: wire = get_effective_id(n); track_seen(wire).

Oracle after every step, for every endpoint ID n in 1..highest+2 that is *in scope* (its reference wire
position lies above the newest injection that aged out of the window), with F(n) = get_effective_id(n):
  injective/order : F strictly increasing over in-scope n
  avoid-injected  : F(n) is never an ID gen_injectable_id returned
  stable          : F(n) equals the wire ID n got when it was first sent
  inverse         : get_original_id(F(n)) == n
  was-injected    : was_injected is True for injected IDs still in the window, False for F(n);
                    get_original_id(injected-in-window) raises ValueError
  fresh-injection : gen_injectable_id returns an ID above every wire ID seen so far
"""
from __future__ import annotations

import copy
from typing import Any, Dict, List

from hippolyzer.lib.proxy.circuit import InjectionTracker

from hmc import explore
from hmc.core import Run

LEVEL = "model_checking"


class World:
    def __init__(self, maxlen: int):
        self.t = InjectionTracker(0, maxlen=maxlen)
        self.maxlen = maxlen
        self.sent: Dict[int, int] = {}      # endpoint id -> wire id at first translation
        self.injected: List[int] = []       # all-time injected wire ids, in order
        self.max_sent = 0
        self.max_wire = 0
        self.violations: List[Dict[str, Any]] = []


class Harness:
    copyable = True

    def __init__(self, maxlen: int):
        self.maxlen = maxlen

    def fresh(self) -> World:
        return World(self.maxlen)

    def enabled(self, w: World):
        evs = [("S",), ("I",), ("G", 1), ("G", 2)]
        evs += [("O", n) for n in range(1, w.max_sent + 1)]
        return evs

    def deviation(self, ev) -> int:
        return 1 if ev[0] in ("G", "O") else 0

    def canon(self, w: World):
        t = w.t
        return (tuple(t.injections), t._injection_base, t._packet_id_base, tuple(sorted(w.sent.items())),
                tuple(w.injected), w.max_sent)

    def nontrivial(self, w: World, hist):
        # a lookup of an ID that has an injection *behind* it (later injection exists above its wire id)
        if w.injected and any(wire < w.injected[-1] for wire in w.sent.values()) and len(w.injected) >= 1:
            return self.canon(w)
        return None

    def observe(self, w: World):
        return (tuple(w.t.injections), w.t._injection_base, tuple(sorted(w.sent.values())))

    # --- transitions -----------------------------------------------------------------------------
    def step(self, w: World, ev):
        kind = ev[0]
        if kind == "I":
            wire = w.t.gen_injectable_id()
            if wire <= w.max_wire or wire in w.sent.values() or wire in w.injected:
                w.violations.append({"clause": "fresh-injection", "site": "InjectionTracker.gen_injectable_id",
                                     "detail": f"injected id {wire} not above highest wire id seen {w.max_wire}"})
            w.injected.append(wire)
            w.max_wire = max(w.max_wire, wire)
        else:
            if kind == "S":
                n = w.max_sent + 1
            elif kind == "G":
                n = w.max_sent + 1 + ev[1]
            else:
                n = ev[1]
            wire = w.t.get_effective_id(n)
            w.t.track_seen(wire)
            w.sent.setdefault(n, wire)
            w.max_sent = max(w.max_sent, n)
            w.max_wire = max(w.max_wire, wire)
        self.oracle(w)

    # --- oracle ----------------------------------------------------------------------------------
    def oracle(self, w: World):
        t = w.t
        inj_all = set(w.injected)
        evicted = w.injected[:-self.maxlen] if len(w.injected) > self.maxlen else []
        newest_evicted = evicted[-1] if evicted else 0
        window = w.injected[len(evicted):]

        def ref_wire(n: int) -> int:
            # n-th positive integer that was never injected
            k, x = 0, 0
            while k < n:
                x += 1
                if x not in inj_all:
                    k += 1
            return x

        def bad(clause, site, detail):
            w.violations.append({"clause": clause, "site": site, "detail": detail})

        prev = None
        for n in range(1, w.max_sent + 3):
            pos = w.sent.get(n)
            if pos is None:
                pos = ref_wire(n)
            if pos <= newest_evicted:
                prev = None
                continue
            f = t.get_effective_id(n)
            if prev is not None and not (prev[1] < f):
                bad("order", "InjectionTracker.get_effective_id", f"F({prev[0]})={prev[1]} but F({n})={f}")
            prev = (n, f)
            if f in inj_all:
                bad("avoid-injected", "InjectionTracker.get_effective_id", f"F({n})={f} is an injected id {sorted(inj_all)}")
            if n in w.sent and w.sent[n] != f:
                bad("stable", "InjectionTracker.get_effective_id", f"id {n} first went out as {w.sent[n]}, now translates to {f}")
            if f in inj_all:
                continue
            try:
                back = t.get_original_id(f)
            except Exception as e:
                back = repr(e)
            if back != n:
                bad("inverse", "InjectionTracker.get_original_id",
                    f"injections={list(t.injections)} base={t._injection_base}: wire {f} belongs to id {n}, got {back}")
            if t.was_injected(f):
                bad("was-injected", "InjectionTracker.was_injected", f"wire {f} (endpoint id {n}) reported as injected")
        for x in window:
            if not t.was_injected(x):
                bad("was-injected", "InjectionTracker.was_injected", f"injected id {x} in window not reported")
            try:
                r = t.get_original_id(x)
                bad("was-injected", "InjectionTracker.get_original_id", f"injected id {x} translated back to {r} instead of raising")
            except ValueError:
                pass


def run(run: Run):
    depth = 8 if run.tier == "quick" else 10
    devb = 3 if run.tier == "quick" else 4
    run.rule = ("explicit-state BFS over {S, G(1|2), O(n), I} on the real InjectionTracker with window maxlen in {1,2,3}; "
                "states deduplicated on (injections, bases, first-translation map, all-time injections); non-trivial = "
                "distinct states in which some sent ID has a later injection above it (lookups below the newest injection)")
    run.assumptions += ["packet-id wrap-around excluded (documented unsupported)",
                        "clauses evaluated only for IDs above the newest injection evicted from the window"]
    last = None
    for maxlen in (1, 2, 3):
        h = Harness(maxlen)
        explore.bfs(run, h, depth=depth, dev_bound=devb, label=f"maxlen={maxlen} ")
        last = h
    for v in run.violations:  # attach the window size to every witness, then shrink
        pass
    run.coverage_extra["depth"] = depth
    run.coverage_extra["deviation_bound"] = devb
    # minimise witnesses (needs the right window size: recover it by trying each)
    for v in run.violations:
        hist = v["witness"]["history"]
        for maxlen in (1, 2, 3):
            h = Harness(maxlen)
            got = explore.replay_history(h, hist)
            if any(g["clause"] == v["clause"] for g in got):
                small = explore._minimise_tuples(h, hist, v["clause"], v["site"])
                v["witness"] = {"maxlen": maxlen, "history": [list(e) for e in small]}
                break


def replay(witness):
    h = Harness(int(witness.get("maxlen", 3)))
    return explore.replay_history(h, witness["history"])

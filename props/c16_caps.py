"""C16 -- capability URLs are attributed to the right cap, region and session.

Explicit-state BFS (hmc.explore.bfs) over the *real* SessionManager / Session / ProxiedRegion / MITMProxyEventManager
in a universe of 2 sessions x 2 regions (region index i = 2*session + region, i.e. resolution order), plus an
exhaustive enumeration of (viewer cap list x simulator grant) for the Seed rewriting clauses.

Universe
  cap names      Seed, EventQueueGet, GetMesh2 (asset cap), Foo; temporaries are called FooUploader; proxy-only caps are
                 called ProxyFoo / ProxyBar
  URL pool       A=https://sim/cap/a, A1=https://sim/cap/a1, AS=https://sim/cap/a/ (slash-terminated, OpenSim style),
                 AX=https://sim/cap/a/x  (A is a textual prefix of all others, AS of AX; A+"/x" == AX); every region has its
                 own Seed URL (https://sim/cap/seed-<s><r>); region r of BOTH sessions has the same circuit address (two
                 agents in one simulator), so anything keyed on the simulator instead of the agent collides
Alphabet (event tuples; `reg` = region index 0..3)
  ("grant", reg, ((name,url),...))        region.update_caps({...})  -- 1 or 2 entries (re-grant with new / same URL, same
                                          URL under two names, asset + normal on prefix-related URLs)
  ("reseed", reg)                         session.register_region(same circuit, new seed URL) -> Seed re-granted (once)
  ("temp", reg, url)                      region.register_cap("FooUploader", url, CapType.TEMPORARY)
  ("wrap", reg)                           region.register_wrapper_cap("GetMesh2")        (enabled once GetMesh2 is granted)
  ("proxy", reg, name)                    region.register_proxy_cap(name)                 (any number of times)
  ("lookup", api, url)                    a *consuming* lookup: only for (api, url) whose scope contains a live temporary
                                          that the URL extends; api in mgr | s0 | s1 | r0..r3
  ("seedreq", reg, gen, (names...))       viewer's Seed request flow through MITMProxyEventManager (one outstanding)
  ("seedresp", ((name,url),...))          simulator's 200 answer to the outstanding Seed request
After *every* step the oracle sweeps (these are observations, not events, because they must not change anything):
  every known request URL (pool, seeds, every granted/returned URL, one never-granted URL; each bare and with "/x")
  through SessionManager.resolve_cap, both Session.resolve_cap, all four region.resolve_cap, whenever the scope holds no
  live temporary extended by that URL (otherwise only region.resolve_cap(url, consume=False), which must not consume);
  and lookup by name (region.caps[name], region.cap_urls[name]) for every region x name.
Reference model: per region the ordered list of (name, type, url) grants minus consumed temporaries (plain lists).
Oracle clauses (one per sentence of the statement / DESIGN §C16)
  url-unresolved / url-name / url-type / url-region / url-session   exactly one grant is extended -> that grant's name,
        type, region, session (for plain asset caps region/session may be None: documented "only through a wrapper")
  url-one-of-candidates     several grants extended (same URL twice, prefix-related, several regions) -> any one of them
  url-unrelated-attributed  extends no live grant -> unattributed;  temporary-resolves-once when it extends a consumed temp
  consume-false-consumes / lookup-mutates-state     observations must not change the caps
  name-most-recent          lookup by name == most recent live grant of that name in that region
  proxy-cap-same-url / proxy-cap-second-entry       second register_proxy_cap returns the first URL, adds no entry
  wrapper-resolves-to-region                       a wrapper URL (+suffix) resolves to WRAPPER type, that region and session
  seed-request-attribution / seed-request-strips-proxy-only / seed-request-keeps-viewer-list
  seed-response-preserves-grant / seed-response-wraps-asset / seed-response-adds-proxy-cap / seed-response-wellformed
Domain restrictions (run.assumptions): the simulator only grants names that were in the upstream request, and never a
name the proxy registered as temporary / wrapper / proxy-only (the statement does not say who wins such a collision);
Seed URLs are unique per region; granted URLs start with "http"; a live temporary URL is not registered a second time
in the same region (after consuming one of two identical grants "most recent" is undefined).

Deviation from DESIGN §C16, and why: with 4 regions the full alphabet has ~80 events per state, which makes depth 4
unaffordable at ~1 ms per replayed transition.  The space is therefore covered by three searches with stated alphabets:
"first" (full alphabet on region 0, nothing elsewhere), "last" (full alphabet on region 3, i.e. behind every other
region in resolution order) and "cross" (a lite alphabet -- 3 colliding grants, one temporary, one proxy cap, one seed
flow -- on all four regions).  Lookups are oracle sweeps after every step rather than events (except consuming ones), so
they cost no depth.  The Seed clauses are additionally enumerated exhaustively over viewer lists x grants (DESIGN's
fallback), through the same real event manager.  Two scenario families (see _family_cases) enumerate the cross-session
wrapper collisions and the one-shot / trailing-slash cases exhaustively instead of reaching them by deeper BFS; a third
family (_repeated_cases) grants ONE name up to 8 times per kind (BFS depth cannot hold 5+ grants of one name plus lookups);
a fifth (_shared_asset_cases) sends Seed responses in which several wrappable asset caps share one upstream URL (new clause
wrapper-resolves-to-own-cap: the URL presented for cap X must resolve to <X>ProxyWrapper);
a fourth (_upload_cases) registers one-shots the way production does: event ("upload", reg, name, uploader_url) pushes a
request and a {"uploader": url} response for an UPLOAD_CREATING_CAPS name through the real event manager.
Additional clauses: wrapper-url-unique (one wrapper URL handed out for two regions), lookup-raises / call-raises (an
exception escaping the code under test).
"""
from __future__ import annotations

import itertools
from typing import Any, Dict, List, Optional, Tuple

from hippolyzer.lib.proxy.caps import CapType

from hmc import explore
from hmc.capsharness import N_REGIONS, Universe, caps_snapshot, seed_url
from hmc.core import HarnessError, Part, Run, digest, jsonable, pmap

LEVEL = "model_checking"

A, A1, AS, AX = "https://sim/cap/a", "https://sim/cap/a1", "https://sim/cap/a/", "https://sim/cap/a/x"
POOL = (A, A1, AS, AX)
NEVER = "https://sim/cap/zz"
SUFFIXES = ("", "/x")
EQG, GM2, FOO, SEED = "EventQueueGet", "GetMesh2", "Foo", "Seed"
TEMP_NAME = "FooUploader"
PROXY_NAMES = ("ProxyFoo", "ProxyBar")
WRAPPED = GM2
WRAPPER_NAME = GM2 + "ProxyWrapper"      # documented in register_wrapper_cap and relied on by the event manager
ALL_NAMES = (SEED, EQG, GM2, FOO, TEMP_NAME, WRAPPER_NAME) + PROXY_NAMES
WRAPPABLE = {"GetMesh2", "GetMesh", "GetTexture", "ViewerAsset"}
N_REG = 4
APIS = ("mgr", "s0", "s1", "r0", "r1", "r2", "r3")


def is_asset(name: str) -> bool:
    return name.startswith(("GetMesh", "GetTexture", "ViewerAsset"))


def scope_of(api: str) -> Tuple[int, ...]:
    if api == "mgr":
        return (0, 1, 2, 3)
    if api[0] == "s":
        s = int(api[1])
        return (2 * s, 2 * s + 1)
    return (int(api[1]),)


# ---- alphabets ------------------------------------------------------------------------------------------------------
def alphabets(tier: str):
    """Stated alphabets. quick's menus are subsets of thorough's (same universe, same events, fewer parameters)."""
    quick = tier == "quick"
    full_grants = [
        ((EQG, A),), ((EQG, A1),), ((EQG, AS),), ((GM2, A),), ((GM2, AS),), ((FOO, A),),
        ((EQG, A), (FOO, A)),            # same URL under two names in one grant
        ((GM2, A1), (EQG, AX)),          # asset + normal, both extending A
    ]
    full_temps = [A, AS]
    full_resp = [((EQG, A),), ((GM2, AS),), ((EQG, A1), (GM2, A)), ((FOO, AX),)]
    if not quick:
        full_temps += [A1]
        full_resp += [(), ((GM2, A),)]
    full_lists = ((EQG, GM2), (EQG, GM2, "ProxyFoo"), ("ProxyBar", FOO, "ProxyFoo"))
    profiles = {
        "full": dict(grants=tuple(full_grants), temps=tuple(full_temps), proxies=PROXY_NAMES, lists=full_lists, reseed=True, wrap=True),
        "lite": dict(grants=(((EQG, A),), ((GM2, A),), ((FOO, A1),)), temps=(AS,), proxies=PROXY_NAMES[:1],
                     lists=((EQG, GM2, "ProxyFoo"),), reseed=False, wrap=False),
    }
    searches = {
        "first": dict(profiles={0: "full"}, resp=tuple(full_resp)),
        "last": dict(profiles={3: "full"}, resp=tuple(full_resp)),
        "cross": dict(profiles={0: "lite", 1: "lite", 2: "lite", 3: "lite"}, resp=(((EQG, A),), ((GM2, A1),))),
    }
    return profiles, searches


RAISED = "!raised"


class World:
    def __init__(self):
        self.u = Universe()
        # reference model: per region the ordered list of live grants [name, type, url]; oldest first
        self.grants: List[List[Tuple[str, str, str]]] = [[(SEED, "NORMAL", seed_url(i // 2, i % 2))] for i in range(N_REG)]
        self.consumed: List[List[Tuple[str, str, str]]] = [[] for _ in range(N_REG)]
        self.seed_gen = [0] * N_REG
        self.pending: Optional[Dict[str, Any]] = None      # outstanding Seed request
        self.violations: List[Dict[str, Any]] = []
        self.last_out: Any = None                          # output of the last event (for the outcome signature)
        self.obs: Any = None                               # signature of the last sweep
        self.marks: set = set()                            # non-trivial features exercised by this history


def _bad(w: World, clause: str, site: str, detail: str):
    w.violations.append({"clause": clause, "site": site, "detail": detail})


class Harness:
    copyable = False

    def __init__(self, search: str = "first", memo: bool = True, tier: str = "thorough"):
        self.search = search
        self.profiles, searches = alphabets(tier)
        self.cfg = searches[search]
        self.memo: Optional[Dict[bytes, Any]] = {} if memo else None

    # ---- construction ---------------------------------------------------------------------------------------
    def fresh(self) -> World:
        return World()

    # ---- model helpers --------------------------------------------------------------------------------------
    @staticmethod
    def candidates(w: World, url: str, scope) -> List[Tuple[int, Tuple[str, str, str]]]:
        return [(i, g) for i in scope for g in w.grants[i] if url.startswith(g[2])]

    @staticmethod
    def latest(w: World, reg: int, name: str) -> Optional[Tuple[str, str, str]]:
        for g in reversed(w.grants[reg]):
            if g[0] == name:
                return g
        return None

    @staticmethod
    def proxy_only_names(w: World, reg: int) -> List[str]:
        return sorted({g[0] for g in w.grants[reg] if g[1] == "PROXY_ONLY"})

    def request_urls(self, w: World) -> List[str]:
        base = list(POOL) + [NEVER]
        for i in range(N_REG):
            for g in w.grants[i] + w.consumed[i]:
                if g[2] not in base:
                    base.append(g[2])
        out = []
        for b in base:
            for s in SUFFIXES:
                if b + s not in out:
                    out.append(b + s)
        return out

    # ---- alphabet ------------------------------------------------------------------------------------------
    def enabled(self, w: World):
        evs: List[tuple] = []
        for reg in sorted(self.cfg["profiles"]):
            p = self.profiles[self.cfg["profiles"][reg]]
            for g in p["grants"]:
                evs.append(("grant", reg, g))
            if p["reseed"] and w.seed_gen[reg] == 0:
                evs.append(("reseed", reg))
            for t in p["temps"]:
                if (TEMP_NAME, "TEMPORARY", t) not in w.grants[reg]:   # a live one-shot URL is not handed out again
                    evs.append(("temp", reg, t))
            if p["wrap"] and self.latest(w, reg, WRAPPED) is not None:
                evs.append(("wrap", reg))
            for n in p["proxies"]:
                evs.append(("proxy", reg, n))
            if w.pending is None:
                for gen in range(w.seed_gen[reg] + 1):
                    for names in p["lists"]:
                        evs.append(("seedreq", reg, gen, names))
        if w.pending is not None:
            up = w.pending["expected_upstream"]
            for resp in self.cfg["resp"]:
                if all(n in up for n, _ in resp):
                    evs.append(("seedresp", resp))
        # consuming lookups: the temporary's own URL, bare and extended, through every API whose scope holds it
        seen = set()
        for reg in range(N_REG):
            for g in w.grants[reg]:
                if g[1] != "TEMPORARY":
                    continue
                for suffix in SUFFIXES:
                    for api in ("mgr", f"s{reg // 2}", f"r{reg}"):
                        ev = ("lookup", api, g[2] + suffix)
                        if ev not in seen:
                            seen.add(ev)
                            evs.append(ev)
        return evs

    def deviation(self, ev) -> int:
        return 0

    # ---- canon ---------------------------------------------------------------------------------------------
    def canon(self, w: World):
        u = w.u
        pend = None
        if w.pending is not None:
            p = w.pending
            pend = (p["reg"], p["url"], tuple(p["viewer"]), tuple(p["expected_upstream"]), tuple(p["needed_impl"]))
        return (tuple(caps_snapshot(r) for r in u.regions),
                tuple(tuple(g) for g in w.grants), tuple(tuple(c) for c in w.consumed),
                tuple(w.seed_gen), u.uuid_counter, pend, bool(getattr(u.em, "_asset_server_proxied", False)))

    def nontrivial(self, w: World, hist):
        feats = set(w.marks)
        for reg in range(N_REG):
            names = [g[0] for g in w.grants[reg]]
            if len(names) != len(set(names)):
                feats.add("regrant")
        if any(len(self.candidates(w, url, (0, 1, 2, 3))) > 1 for url in self.request_urls(w)):
            feats.add("ambiguous-url")
        return (tuple(sorted(feats)), self.canon(w)[1]) if feats else None

    def observe(self, w: World):
        return (w.obs, jsonable(w.last_out))

    # ---- normalisation of API results -----------------------------------------------------------------------
    def call(self, w: World, api: str, url: str, consume: Optional[bool] = None):
        """-> None (unattributed) or (name, type, region index|None, session index|None, base_url)."""
        try:
            return self._call(w, api, url, consume)
        except HarnessError:
            raise
        except Exception as e:
            return (RAISED, repr(e), None, None, None)

    def _call(self, w: World, api: str, url: str, consume: Optional[bool]):
        u = w.u
        if api == "mgr":
            cd = u.sm.resolve_cap(url)
        elif api[0] == "s":
            cd = u.sessions[int(api[1])].resolve_cap(url)
        else:
            reg = int(api[1])
            r = u.regions[reg].resolve_cap(url) if consume is None else u.regions[reg].resolve_cap(url, consume=consume)
            if r is None:
                return None
            name, base, ctype = r
            return (name, ctype.name, reg, reg // 2, base)
        if cd is None or not cd or cd.cap_name is None:
            return None
        region = cd.region() if cd.region is not None else None
        session = cd.session() if cd.session is not None else None
        return (cd.cap_name, cd.type.name, u.region_index(region), u.session_index(session), cd.base_url)

    @staticmethod
    def matches(res, reg: int, g, api: str) -> Dict[str, bool]:
        name, ctype, rreg, rsess, _base = res
        ok = {"name": name == g[0], "type": ctype == g[1]}
        if api[0] != "r" and is_asset(g[0]) and g[1] != "WRAPPER":
            # documented: plain asset caps are not tied to a region/session ("unless we go through a proxy wrapper")
            ok["region"] = rreg in (None, reg)
            ok["session"] = rsess in (None, reg // 2)
        else:
            ok["region"] = rreg == reg
            ok["session"] = rsess == reg // 2
        return ok

    def judge(self, w: World, api: str, url: str, res, cands, consume_note: str = ""):
        """Apply the attribution clauses to one lookup. Returns the matched candidate (or None)."""
        fn = {"m": "SessionManager.resolve_cap", "s": "Session.resolve_cap", "r": "ProxiedRegion.resolve_cap"}[api[0]] + consume_note
        if res is not None and res[0] == RAISED:
            kinds = sorted({g[1] for _, g in cands}) or ["none"]
            _bad(w, "lookup-raises", f"{fn}:{'+'.join(kinds)}", f"{api}({url!r}) raised {res[1]}; extends {cands}")
            return None
        if not cands:
            if res is not None:
                was_temp = any(url.startswith(c[2]) and res[0] == c[0] and res[1] == c[1] for i in scope_of(api) for c in w.consumed[i])
                if was_temp:
                    _bad(w, "temporary-resolves-once", fn + ":TEMPORARY", f"{api}({url!r}) -> {res} after the temporary grant was consumed")
                else:
                    _bad(w, "url-unrelated-attributed", fn, f"{api}({url!r}) extends no live grant in scope but -> {res}")
            return None
        if len(cands) == 1:
            reg, g = cands[0]
            site = f"{fn}:{g[1]}"
            if res is None:
                _bad(w, "url-unresolved", site, f"{api}({url!r}) -> nothing; extends only grant {g} of region {reg}")
                return None
            ok = self.matches(res, reg, g, api)
            for field in ("name", "type", "region", "session"):
                if not ok[field]:
                    _bad(w, f"url-{field}", site, f"{api}({url!r}) -> {res}; extends only grant {g} of region {reg} (session {reg // 2})")
            return cands[0] if all(ok.values()) else None
        if res is None:
            _bad(w, "url-unresolved", fn + ":several", f"{api}({url!r}) -> nothing; extends {cands}")
            return None
        hits = [(reg, g) for reg, g in cands if all(self.matches(res, reg, g, api).values())]
        if hits:
            # several candidates can agree on (name, type, region, session), e.g. two temporaries of one region on
            # prefix-related URLs; the returned base URL (not judged) tells the model which one the code picked
            for reg, g in hits:
                if g[2] == res[4]:
                    return (reg, g)
            return hits[0]
        _bad(w, "url-one-of-candidates", fn, f"{api}({url!r}) -> {res}; extends {cands} and matches none of them")
        return None

    # ---- the sweep (pure observations) ------------------------------------------------------------------------
    def sweep(self, w: World):
        u = w.u
        before = tuple(caps_snapshot(r) for r in u.regions)
        obs = []
        for url in self.request_urls(w):
            for api in APIS:
                scope = scope_of(api)
                cands = self.candidates(w, url, scope)
                has_temp = any(g[1] == "TEMPORARY" for _, g in cands)
                if not has_temp:
                    res = self.call(w, api, url)
                    self.judge(w, api, url, res, cands)
                    if api == "mgr":
                        obs.append((url, res[:4] if res else None))
                elif api[0] == "r":
                    snap = caps_snapshot(u.regions[scope[0]])
                    res = self.call(w, api, url, consume=False)
                    self.judge(w, api, url, res, cands, "(consume=False)")
                    if caps_snapshot(u.regions[scope[0]]) != snap:
                        _bad(w, "consume-false-consumes", "ProxiedRegion.resolve_cap(consume=False)",
                             f"{api}({url!r}, consume=False) changed the region's caps")
                    obs.append((url, api, res[:2] if res else None))
        for reg in range(N_REG):
            region = u.regions[reg]
            names = list(ALL_NAMES) + sorted({g[0] for g in w.grants[reg] + w.consumed[reg]} - set(ALL_NAMES))
            for name in names:
                exp = self.latest(w, reg, name)
                try:
                    got = region.caps.get(name)
                    got_n = (got[0].name, got[1]) if got is not None else None
                    got_u = region.cap_urls.get(name)
                except Exception as e:
                    _bad(w, "lookup-raises", "ProxiedRegion.caps[name]", f"region {reg} caps[{name!r}] raised {e!r}")
                    continue
                exp_n = (exp[1], exp[2]) if exp else None
                if got_n != exp_n:
                    _bad(w, "name-most-recent", f"ProxiedRegion.caps[name]:{exp[1] if exp else 'absent'}",
                         f"region {reg} caps[{name!r}] -> {got_n}, most recent live grant is {exp_n}; grants {w.grants[reg]}")
                if got_u != (exp[2] if exp else None):
                    _bad(w, "name-most-recent", f"ProxiedRegion.cap_urls[name]:{exp[1] if exp else 'absent'}",
                         f"region {reg} cap_urls[{name!r}] -> {got_u!r}, most recent live grant is {exp_n}; grants {w.grants[reg]}")
                obs.append(got_u)
        if tuple(caps_snapshot(r) for r in u.regions) != before:
            _bad(w, "lookup-mutates-state", "resolve_cap (non-temporary)", "a sweep of non-consuming lookups changed some region's caps")
        return tuple(obs)

    def strict_wrapper_check(self, w: World, reg: int, wurl: Any, site: str, clause: str, name: Optional[str] = None):
        if not isinstance(wurl, str) or not wurl.startswith("http"):
            _bad(w, clause, site, f"wrapper URL for region {reg} is {wurl!r}")
            return
        for suffix in ("", "/?mesh_id=1"):
            res = self.call(w, "mgr", wurl + suffix)
            if res is None or res[1] != "WRAPPER" or res[2] != reg or res[3] != reg // 2:
                _bad(w, clause, site, f"wrapper URL {wurl + suffix!r} handed out for region {reg} (session {reg // 2}) resolves to {res}")
            elif name is not None and res[0] != name:
                # the URL presented for asset cap X must be attributed to X's own wrapper (<X>ProxyWrapper), not to a sibling's
                _bad(w, "wrapper-resolves-to-own-cap", site,
                     f"wrapper URL {wurl + suffix!r} handed out as {name} for region {reg} resolves to cap {res[0]!r}")

    def check_all_wrappers(self, w: World, site: str, clause: str):
        owner: Dict[str, Tuple[int, str]] = {}
        for reg in range(N_REG):
            for g in w.grants[reg]:
                if g[1] != "WRAPPER":
                    continue
                if g[2] in owner:
                    if owner[g[2]] != (reg, g[0]):
                        _bad(w, "wrapper-url-unique", site,
                             f"wrapper URL {g[2]!r} was handed out as {owner[g[2]][1]} of region {owner[g[2]][0]} and as {g[0]} of "
                             f"region {reg}: it cannot resolve back to both")
                    continue
                owner[g[2]] = (reg, g[0])
                self.strict_wrapper_check(w, reg, g[2], site, clause, name=g[0])

    def guarded(self, w: World, site: str, fn, *args, **kw):
        """Call into the code under test; an exception is a verdict (clause call-raises), not a harness crash."""
        try:
            return True, fn(*args, **kw)
        except HarnessError:
            raise
        except Exception as e:
            _bad(w, "call-raises", site, f"{site}{args!r} raised {e!r}")
            return False, None

    # ---- transitions ----------------------------------------------------------------------------------------
    def step(self, w: World, ev):
        kind = ev[0]
        u = w.u
        w.last_out = None
        if kind == "grant":
            _, reg, pairs = ev
            self.guarded(w, "ProxiedRegion.update_caps", u.regions[reg].update_caps, {n: url for n, url in pairs})
            for n, url in pairs:
                w.grants[reg].append((n, "NORMAL", url))
        elif kind == "reseed":
            reg = ev[1]
            region = u.regions[reg]
            w.seed_gen[reg] += 1
            new = seed_url(reg // 2, reg % 2, w.seed_gen[reg])
            ok, got = self.guarded(w, "Session.register_region", u.sessions[reg // 2].register_region, region.circuit_addr, seed_url=new)
            if ok and got is not region:
                raise HarnessError("register_region(existing circuit) returned a different region object")
            w.grants[reg].append((SEED, "NORMAL", new))
            w.marks.add("reseed")
        elif kind == "temp":
            _, reg, url = ev
            self.guarded(w, "ProxiedRegion.register_cap", u.regions[reg].register_cap, TEMP_NAME, url, CapType.TEMPORARY)
            w.grants[reg].append((TEMP_NAME, "TEMPORARY", url))
        elif kind == "wrap":
            reg = ev[1]
            _ok, wurl = self.guarded(w, "ProxiedRegion.register_wrapper_cap", u.regions[reg].register_wrapper_cap, WRAPPED)
            w.last_out = wurl
            w.grants[reg].append((WRAPPER_NAME, "WRAPPER", wurl if isinstance(wurl, str) else repr(wurl)))
            self.check_all_wrappers(w, "ProxiedRegion.register_wrapper_cap", "wrapper-resolves-to-region")
            w.marks.add("wrapper")
        elif kind == "proxy":
            _, reg, name = ev
            region = u.regions[reg]
            prev = self.latest(w, reg, name)
            n_before = len(region.caps.getall(name, []))
            _ok, url = self.guarded(w, "ProxiedRegion.register_proxy_cap", region.register_proxy_cap, name)
            w.last_out = url
            n_after = len(region.caps.getall(name, []))
            if prev is not None and prev[1] == "PROXY_ONLY":
                w.marks.add("proxy-twice")
                if url != prev[2]:
                    _bad(w, "proxy-cap-same-url", "ProxiedRegion.register_proxy_cap",
                         f"region {reg}: register_proxy_cap({name!r}) returned {prev[2]!r} first, now {url!r}")
                if n_after != n_before:
                    _bad(w, "proxy-cap-second-entry", "ProxiedRegion.register_proxy_cap",
                         f"region {reg}: caps has {n_after} entries for {name!r} after the second registration (was {n_before})")
                if url != prev[2] or n_after != n_before:
                    w.grants[reg].append((name, "PROXY_ONLY", url))   # keep the model following the implementation
            else:
                w.grants[reg].append((name, "PROXY_ONLY", url))
        elif kind == "lookup":
            _, api, url = ev
            cands = self.candidates(w, url, scope_of(api))
            res = self.call(w, api, url)
            w.last_out = res[:4] if res else None
            if res is None or res[0] != RAISED:
                w.marks.add("temp-lookup")
            hit = self.judge(w, api, url, res, cands)
            if hit is not None and hit[1][1] == "TEMPORARY":
                reg, g = hit
                w.grants[reg].remove(g)
                w.consumed[reg].append(g)
                w.marks.add("temp-consumed")
        elif kind == "upload":
            self.step_upload(w, ev)
        elif kind == "seedreq":
            self.step_seedreq(w, ev)
        elif kind == "seedresp":
            self.step_seedresp(w, ev)
        else:
            raise HarnessError(f"unknown event {ev!r}")
        # observations
        key = None
        if self.memo is not None and not w.violations:
            key = digest(self.canon(w))
            if key in self.memo:
                w.obs = self.memo[key]
                return
        n0 = len(w.violations)
        w.obs = self.sweep(w)
        if key is not None and len(w.violations) == n0:
            self.memo[key] = w.obs

    def step_upload(self, w: World, ev):
        """("upload", reg, name, uploader_url): the viewer POSTs to the region's most recent URL of an upload-creating cap
        and the simulator answers {"state": "upload", "uploader": url}; both flows go through the real event manager,
        whose response branch is the only production code that registers one-shot caps (<name>Uploader)."""
        _, reg, name, up_url = ev
        u = w.u
        site = "MITMProxyEventManager._handle_response[upload-creating]"
        cap = self.latest(w, reg, name)
        if cap is None:
            raise HarnessError(f"upload through {name} which region {reg} was never granted")
        out = u.cap_request(cap[2], {"asset_type": "texture", "name": "x"})
        region = u.regions[reg]
        want_cap = (name, str(region.circuit_addr), str(u.sessions[reg // 2].id))
        got_cap = out["cap"]
        if got_cap is None or tuple(got_cap[:3]) != want_cap:
            _bad(w, "upload-request-attribution", "MITMProxyEventManager._handle_request[upload-creating]",
                 f"request to {cap[2]} attributed to {got_cap}, expected {want_cap}")
        if out["upstream_url"] != cap[2] or out["short_circuited"]:
            _bad(w, "upload-request-attribution", "MITMProxyEventManager._handle_request[upload-creating]",
                 f"request to {cap[2]} was redirected/answered by the proxy: {out['upstream_url']}")
        resp = u.cap_response(out["state"], {"state": "upload", "uploader": up_url})
        w.last_out = resp["body"]
        if u.pump_errors:
            _bad(w, "call-raises", site, f"upload exchange on {name} in region {reg} made the event manager raise {u.pump_errors}")
            u.pump_errors = []
        w.grants[reg].append((name + "Uploader", "TEMPORARY", up_url))
        w.marks.add("upload")

    def step_seedreq(self, w: World, ev):
        _, reg, gen, names = ev
        u = w.u
        url = seed_url(reg // 2, reg % 2, gen)
        site = "MITMProxyEventManager._handle_request[Seed]"
        po = self.proxy_only_names(w, reg)
        expected = [n for n in names if n not in po]
        out = u.seed_request(url, list(names))
        w.last_out = (out["upstream"], out["cap"])
        if u.pump_errors:
            _bad(w, "call-raises", site, f"seed request to {url} made the event manager raise {u.pump_errors}")
            u.pump_errors = []
        region = u.regions[reg]
        cap = out["cap"]
        want_cap = (SEED, str(region.circuit_addr), str(u.sessions[reg // 2].id))
        if cap is None or tuple(cap[:3]) != want_cap:
            _bad(w, "seed-request-attribution", site, f"seed request to {url} attributed to {cap}, expected {want_cap}")
        up = out["upstream"]
        if out["upstream_url"] != url or out["short_circuited"]:
            _bad(w, "seed-request-keeps-viewer-list", site, f"request to {url} was redirected/answered by the proxy: {out['upstream_url']}")
        if not isinstance(up, list):
            _bad(w, "seed-request-keeps-viewer-list", site, f"upstream body is not a list: {up!r}")
        else:
            left = [n for n in up if n in po]
            if left:
                _bad(w, "seed-request-strips-proxy-only", site,
                     f"region {reg}: proxy-only {left} still in upstream seed request {up} (viewer sent {list(names)})")
            if [n for n in up if n not in po] != expected:
                _bad(w, "seed-request-keeps-viewer-list", site,
                     f"region {reg}: viewer sent {list(names)}, proxy-only here {po}, upstream got {up}, expected {expected}")
        needed = [n for n in names if n in po]
        if needed:
            w.marks.add("seed-stripped")
        w.pending = {"reg": reg, "url": url, "viewer": list(names), "expected_upstream": expected, "needed": needed,
                     "needed_impl": out["needed"], "state": out["state"]}

    def step_seedresp(self, w: World, ev):
        grant = ev[1]
        u = w.u
        p = w.pending
        if p is None:
            raise HarnessError("seedresp without outstanding request")
        reg = p["reg"]
        site = "MITMProxyEventManager._handle_response[Seed]"
        out = u.seed_response(p["state"], {n: url for n, url in grant})
        w.pending = None
        if u.pump_errors:
            _bad(w, "call-raises", site, f"seed response for region {reg} made the event manager raise {u.pump_errors}")
            u.pump_errors = []
        body = out["body"]
        w.last_out = body
        for n, url in grant:
            w.grants[reg].append((n, "NORMAL", url))
        if not isinstance(body, dict) or out["status"] != 200:
            _bad(w, "seed-response-wellformed", site, f"rewritten seed response is {out['status']} {body!r}")
            return
        for n, url in grant:
            if n in WRAPPABLE:
                w.marks.add("seed-wrapped")
                wurl = body.get(n)
                if wurl == url:
                    _bad(w, "seed-response-wraps-asset", site, f"region {reg}: asset cap {n} passed to the viewer unwrapped ({url})")
                else:
                    w.grants[reg].append((n + "ProxyWrapper", "WRAPPER", wurl if isinstance(wurl, str) else repr(wurl)))
                    self.check_all_wrappers(w, site, "seed-response-wraps-asset")
            elif body.get(n) != url:
                _bad(w, "seed-response-preserves-grant", site,
                     f"region {reg}: simulator granted {n}={url!r}, viewer receives {body.get(n)!r}")
        for n in p["needed"]:
            urls = [g[2] for g in w.grants[reg] if g[0] == n and g[1] == "PROXY_ONLY"]
            if body.get(n) not in urls:
                _bad(w, "seed-response-adds-proxy-cap", site,
                     f"region {reg}: viewer asked for proxy-only {n} (registered as {urls}), rewritten response has {body.get(n)!r}; keys {sorted(body)}")


def allowed(w: World, ev) -> bool:
    """Preconditions of an event (used by the minimiser and by replay; independent of any search's menu)."""
    kind = ev[0]
    if kind == "wrap":
        return Harness.latest(w, ev[1], WRAPPED) is not None
    if kind == "reseed":
        return w.seed_gen[ev[1]] == 0
    if kind == "temp":
        return (TEMP_NAME, "TEMPORARY", ev[2]) not in w.grants[ev[1]]
    if kind == "seedreq":
        return w.pending is None and ev[2] <= w.seed_gen[ev[1]]
    if kind == "upload":
        return (w.pending is None and Harness.latest(w, ev[1], ev[2]) is not None
                and (ev[2] + "Uploader", "TEMPORARY", ev[3]) not in w.grants[ev[1]])
    if kind == "seedresp":
        return w.pending is not None and all(n in w.pending["expected_upstream"] for n, _ in ev[1])
    return True


def run_history(history, memo: bool = False) -> Tuple[World, List[Dict[str, Any]], bool]:
    """Plain execution: returns (world, violations of the last step, all preconditions held)."""
    h = Harness("first", memo=memo)
    w = h.fresh()
    last: List[Dict[str, Any]] = []
    for ev in history:
        ev = explore._tuplify(ev)
        if not allowed(w, ev):
            return w, [], False
        w.violations = []
        h.step(w, ev)
        last = list(w.violations)
    return w, last, True


def minimise(history, clause: str, site: str):
    hist = [explore._tuplify(e) for e in history]

    def fails(h2) -> bool:
        try:
            _, last, ok = run_history(h2)
        except Exception:
            return False
        return ok and any(v["clause"] == clause and v["site"] == site for v in last)

    changed = True
    while changed:
        changed = False
        for i in range(len(hist) - 1, -1, -1):
            cand = hist[:i] + hist[i + 1:]
            if cand and fails(cand):
                hist, changed = cand, True
                break
    return hist


# ---- exhaustive enumeration of the Seed clauses (viewer list x simulator grant) -------------------------------------
SEED_PREFIXES = (
    ("none", 0, 0, ()),
    ("one-proxy-cap", 0, 0, (("proxy", 0, "ProxyFoo"),)),
    ("two-proxy-caps", 0, 0, (("proxy", 0, "ProxyFoo"), ("proxy", 0, "ProxyBar"))),
    ("proxy-cap-twice", 0, 0, (("proxy", 0, "ProxyFoo"), ("proxy", 0, "ProxyFoo"))),
    ("proxy-cap-elsewhere", 0, 0, (("proxy", 1, "ProxyFoo"), ("proxy", 2, "ProxyBar"))),
    ("prior-grant-and-wrapper", 0, 0, (("grant", 0, ((GM2, A), (EQG, A1))), ("wrap", 0), ("proxy", 0, "ProxyFoo"))),
    ("reseeded-new-url", 0, 1, (("proxy", 0, "ProxyFoo"), ("reseed", 0))),
    ("reseeded-old-url", 0, 0, (("reseed", 0), ("proxy", 0, "ProxyBar"))),
    ("last-region", 3, 0, (("proxy", 3, "ProxyFoo"), ("proxy", 0, "ProxyBar"), ("grant", 0, ((GM2, A),)), ("wrap", 0))),
)
SEED_LIST_NAMES = (EQG, GM2, FOO, "ProxyFoo", "ProxyBar")
_SEED_URLS: Tuple[str, ...] = POOL


def _seed_cases():
    lists = []
    for k in range(len(SEED_LIST_NAMES) + 1):
        for sub in itertools.combinations(SEED_LIST_NAMES, k):
            lists.append(sub)
            if k >= 2:
                lists.append(tuple(reversed(sub)))
    for label, reg, gen, prefix in SEED_PREFIXES:
        for names in lists:
            yield (label, reg, gen, prefix, names)


def _seed_worker(case):
    label, reg, gen, prefix, names = case
    part = Part()
    # which names can the simulator answer? those the proxy is expected to forward (model), restricted to sim cap names
    w0, _, ok = run_history(list(prefix) + [("seedreq", reg, gen, names)], memo=False)
    if not ok:
        raise HarnessError(f"seed prefix {label} not executable")
    grantable = [n for n in w0.pending["expected_upstream"] if n in (EQG, GM2, FOO)]
    choices = [[None] + list(_SEED_URLS) for _ in grantable]
    for combo in itertools.product(*choices):
        grant = tuple((n, url) for n, url in zip(grantable, combo) if url is not None)
        history = list(prefix) + [("seedreq", reg, gen, names), ("seedresp", grant)]
        h = Harness("first", memo=False)
        w = h.fresh()
        got: List[Dict[str, Any]] = []
        for i, ev in enumerate(history):
            w.violations = []
            h.step(w, ev)
            if i >= len(prefix):     # prefix violations belong to the BFS, not to the seed enumeration
                got.extend(w.violations)
        part.count("evaluations")
        part.count("seed_cases")
        for v in got:
            part.violation(v["clause"], v["site"], {"history": history, "search": "seed-enum:" + label}, v["detail"])
        if w.marks & {"seed-stripped", "seed-wrapped"}:
            part.mark_nontrivial(("seed", label, names, grant))
        part.outcome(("seed", jsonable(w.last_out), w.obs))
        if len(names) == 3 and len(grant) == 2:
            part.sample({"search": "seed-enum:" + label, "history": history, "rewritten_response": w.last_out})
    return part.dump()


# ---- targeted scenario families (exhaustive over small stated products; collisions made on purpose) ------------------
_FAMILY_URLS: Tuple[str, ...] = POOL
_FAMILY_REGS: Tuple[int, ...] = (0, 1, 2, 3)


def _wrapper_route(reg: int, url: str, route: str):
    if route == "direct":
        return [("grant", reg, ((GM2, url),)), ("wrap", reg)]
    return [("seedreq", reg, 0, (EQG, GM2)), ("seedresp", ((GM2, url),))]


def _family_cases():
    """wrappers: two regions (every ordered pair; regions r of both sessions share a simulator address) are each given an
    asset cap (same / prefix-related / slash-terminated URLs) and a wrapper, directly or through a Seed response.
    one-shots: one or two temporaries on (slash-terminated, prefix-related) URLs in one region, then one consuming lookup
    per temporary through every API, bare and extended."""
    for i in range(N_REG):
        for j in range(N_REG):
            if i == j:
                continue
            for u in _FAMILY_URLS:
                for v in _FAMILY_URLS:
                    for ri in ("direct", "seed"):
                        for rj in ("direct", "seed"):
                            yield ("wrappers", _wrapper_route(i, u, ri) + _wrapper_route(j, v, rj))
    for reg in _FAMILY_REGS:
        apis = ("mgr", f"s{reg // 2}", f"r{reg}")
        looks = [(api, sfx) for api in apis for sfx in SUFFIXES]
        for u1 in POOL:
            for a1, s1 in looks:
                yield ("one-shots", [("temp", reg, u1), ("lookup", a1, u1 + s1), ("lookup", a1, u1 + s1)])
            for u2 in POOL:
                if u2 == u1:
                    continue
                for a1, s1 in looks:
                    for a2, s2 in looks:
                        yield ("one-shots", [("temp", reg, u1), ("temp", reg, u2), ("lookup", a1, u1 + s1), ("lookup", a2, u2 + s2)])


REPEAT_K = 8


def _g(n: int) -> str:
    return f"https://sim/cap/g{n}"       # g1..g8: pairwise distinct, none a prefix of another


def _repeated_cases():
    """repeated-grants: ONE name is granted REPEAT_K times with distinct URLs in one region, per kind; the step oracle
    (unchanged) resolves every URL granted so far at manager / session / region level and looks the name up after every
    grant.  Kinds: NORMAL via update_caps (plain and asset name), NORMAL via Seed responses (plain; asset => one WRAPPER
    per response as well), WRAPPER via register_wrapper_cap after each new asset URL, PROXY_ONLY first then NORMAL grants
    of the same name, and k = 1..REPEAT_K one-shots in flight that are then consumed oldest-first / newest-first through
    each API (bare and extended URL alternating)."""
    ns = range(1, REPEAT_K + 1)
    for reg in _FAMILY_REGS:
        for name in (EQG, GM2):
            yield ("repeated-grants", [("grant", reg, ((name, _g(n)),)) for n in ns])
            hist = []
            for n in ns:
                hist += [("seedreq", reg, 0, (EQG, GM2)), ("seedresp", ((name, _g(n)),))]
            yield ("repeated-grants", hist)
        hist = []
        for n in ns:
            hist += [("grant", reg, ((GM2, _g(n)),)), ("wrap", reg)]
        yield ("repeated-grants", hist)
        yield ("repeated-grants", [("proxy", reg, "ProxyFoo")] + [("grant", reg, (("ProxyFoo", _g(n)),)) for n in ns]
               + [("proxy", reg, "ProxyFoo")])
        for k in ns:
            temps = [("temp", reg, _g(n)) for n in range(1, k + 1)]
            for order in ("oldest-first", "newest-first"):
                seq = list(range(1, k + 1)) if order == "oldest-first" else list(range(k, 0, -1))
                for api in ("mgr", f"s{reg // 2}", f"r{reg}"):
                    yield ("repeated-grants", temps + [("lookup", api, _g(n) + SUFFIXES[i % 2]) for i, n in enumerate(seq)])


ASSET_NAMES = ("GetMesh", "GetMesh2", "GetTexture", "ViewerAsset")


def _shared_asset_cases():
    """shared-asset-urls: one Seed request/response pair per case through the real event manager; the simulator grants the
    four wrappable asset caps such that every 2-, 3- and 4-subset of them shares ONE upstream URL (the others absent, or
    present with pairwise distinct URLs), plus the all-distinct grant; map key order forwards and reversed; then a second
    Seed response repeats the grant (re-grant of every wrapper).  Oracle (unchanged sentences, now per cap): every URL
    presented for asset cap X resolves to X's own <X>ProxyWrapper, WRAPPER type, that region and session."""
    viewer = (EQG,) + ASSET_NAMES
    for reg in _FAMILY_REGS:
        for shared in _FAMILY_URLS:
            grants = [tuple((n, _g(i + 1)) for i, n in enumerate(ASSET_NAMES))]          # all distinct
            for k in (2, 3, 4):
                for sub in itertools.combinations(ASSET_NAMES, k):
                    grants.append(tuple((n, shared) for n in sub))
                    if k < 4:
                        grants.append(tuple((n, shared) if n in sub else (n, _g(i + 1)) for i, n in enumerate(ASSET_NAMES)))
            for grant in grants:
                for order in (grant, tuple(reversed(grant))):
                    full = ((EQG, A1),) + order
                    yield ("shared-asset-urls", [("seedreq", reg, 0, viewer), ("seedresp", full),
                                                 ("seedreq", reg, 0, viewer), ("seedresp", full)])


_UPLOAD_FULL = False


def _upload_cases():
    """uploads: for every name in MITMProxyEventManager.UPLOAD_CREATING_CAPS (read from the module) and region, the cap is
    granted, k = 1..3 creation responses arrive through the real _handle_response before any uploader is used, then the
    k uploader URLs are resolved in EVERY order (k! permutations), bare and extended alternating; quick rotates the lookup
    API (manager / session / region) over the cases and uses plain uploader URLs, thorough takes the product with all
    three APIs and also slash-terminated uploader URLs."""
    from hippolyzer.lib.proxy.http_event_manager import MITMProxyEventManager
    names = sorted(MITMProxyEventManager.UPLOAD_CREATING_CAPS)
    styles = ("", "/") if _UPLOAD_FULL else ("",)
    n = 0
    for reg in _FAMILY_REGS:
        apis = ("mgr", f"s{reg // 2}", f"r{reg}")
        for i, name in enumerate(names):
            for style in styles:
                ups = [f"https://sim/cap/u{j}{style}" for j in (1, 2, 3)]
                for k in (1, 2, 3):
                    head = [("grant", reg, ((name, f"https://sim/cap/up-{i}"),))] + [("upload", reg, name, ups[j]) for j in range(k)]
                    for perm in itertools.permutations(range(k)):
                        for api in (apis if _UPLOAD_FULL else (apis[n % 3],)):
                            n += 1
                            yield ("uploads", head + [("lookup", api, ups[j] + SUFFIXES[x % 2]) for x, j in enumerate(perm)])


def _family_worker(case):
    label, history = case
    part = Part()
    h = Harness("first", memo=False)
    w = h.fresh()
    for k, ev in enumerate(history):
        w.violations = []
        h.step(w, ev)
        for v in w.violations:
            part.violation(v["clause"], v["site"], {"history": history[:k + 1], "search": "family:" + label}, v["detail"])
        if w.violations:
            break
    part.count("evaluations")
    part.count("family_cases")
    part.mark_nontrivial(("family", label, tuple(history)))
    part.outcome(("family", jsonable(w.last_out), w.obs))
    if label == "wrappers" and history[0][1] == 0 and history[2][1] == 2 and history[0][0] != history[2][0]:
        part.sample({"search": "family:" + label, "history": history, "last_output": w.last_out})
    if label == "uploads" and len(history) == 7 and history[-1][2].endswith("u1"):
        part.sample({"search": "family:" + label, "history": history, "last_output": w.last_out}, limit=1)
    if label == "shared-asset-urls" and len(history[1][1]) == 5 and len({u for _, u in history[1][1]}) == 2:
        part.sample({"search": "family:" + label, "history": history[:2], "rewritten_response": w.last_out}, limit=1)
    if label == "repeated-grants":
        part.count("repeated_grant_steps", len(history))
        if history[0][0] == "proxy":
            part.sample({"search": "family:" + label, "history": history, "last_output": w.last_out}, limit=1)
    return part.dump()


# ---- entry points -------------------------------------------------------------------------------------------------
def run(run: Run):
    global _SEED_URLS, _FAMILY_URLS, _FAMILY_REGS, _UPLOAD_FULL
    quick = run.tier == "quick"
    depths = {"first": 4, "last": 3, "cross": 3} if quick else {"first": 5, "last": 4, "cross": 5}
    _SEED_URLS = (A, AS) if quick else POOL
    _FAMILY_URLS = (A, AS) if quick else POOL
    _FAMILY_REGS = (0, 3) if quick else (0, 1, 2, 3)
    _UPLOAD_FULL = not quick
    run.rule = ("explicit-state BFS on the real SessionManager/Session/ProxiedRegion/MITMProxyEventManager (2 sessions x 2 regions; "
                "region r of both sessions stands in the same simulator = same circuit address, own Seed URL) over {grant(1-2 "
                "entries), reseed, temp, wrap, proxy, consuming lookup, seedreq, seedresp} in three stated alphabets (first: full "
                "alphabet on region 0; last: full alphabet on region 3; cross: lite alphabet on all 4 regions); URL pool a, a1, a/, "
                "a/x; after every transition every known URL (bare and +'/x') is resolved through manager, both sessions and all "
                "regions and every name is looked up in every region; plus exhaustive viewer-list x simulator-grant enumeration of "
                "the Seed rewrite behind 9 prefixes; plus two scenario families enumerated exhaustively (wrappers for every ordered "
                "region pair x asset URL pair x {register_wrapper_cap, Seed response}; one or two one-shots per region x URL pair x "
                "lookup API x suffix; repeated grants: one name granted 8 times with distinct URLs per kind -- NORMAL via update_caps / "
                "Seed responses, WRAPPER, PROXY_ONLY then NORMAL, and 1..8 one-shots in flight consumed oldest-/newest-first per "
                "API -- with the full sweep after every grant; uploads: for every name in UPLOAD_CREATING_CAPS x region, 1..3 "
                "upload-creating responses through the real _handle_response before any uploader is used, then the uploader URLs "
                "resolved in every order; shared-asset-urls: Seed responses in which every 2-/3-/4-subset of GetMesh, GetMesh2, "
                "GetTexture, ViewerAsset shares one upstream URL (others absent or distinct) plus all-distinct, each presented URL "
                "must resolve to its own <Cap>ProxyWrapper). non-trivial = distinct (feature set, model) with a URL extending >= 2 live grants, a "
                "re-granted name, a consumed temporary, a second register_proxy_cap, a wrapper, a re-seed, a stripped seed request "
                "or a wrapped seed response; every family case")
    run.assumptions += [
        "simulator grants only names present in the upstream seed request and never a name the proxy registered itself "
        "(temporary / wrapper / proxy-only); who wins such a collision is not stated",
        "Seed URLs are unique per region/agent; circuit addresses are shared by the two sessions; granted URLs are http(s) strings",
        "a one-shot (temporary) URL is not registered again in the same region while it is still live (two identical live "
        "temporaries are indistinguishable, so 'most recent' after consuming one of them is not defined)",
        "plain asset caps (GetMesh2, NORMAL) may resolve with region/session None, as documented in Session.resolve_cap",
        "a URL extending several live grants (same URL twice, textual prefix, several regions) may resolve to any of them; "
        "'extends' is textual (str.startswith), so https://sim/cap/a does NOT extend a cap granted as https://sim/cap/a/",
        "wrapper URLs are exempt from the any-of-them rule: each must resolve to the region/session it was handed out for and "
        "to its own cap's wrapper entry (<Cap>ProxyWrapper, the documented naming the wrapper redirect relies on); one wrapper "
        "URL handed out for two regions or for two caps is a violation (wrapper-url-unique)",
        "an exception escaping resolve_cap / register_* / update_caps / the event manager's pump is a violation (lookup-raises, call-raises)",
        "trusted base: hippolyzer.lib.base.llsd for list/map-of-string bodies, mitmproxy flow (de)serialisation, "
        "in-memory stand-ins for multiprocessing queues/events, viewer cache-dir probing stubbed out",
        "lookups are oracle observations after every transition (consuming ones are events); sweep results are memoised per "
        "canonical state inside a worker (a state whose sweep passed and left the caps unchanged is not swept again)",
    ]
    for name in ("first", "last", "cross"):
        h = Harness(name, tier=run.tier)
        before = len(run.violations)
        explore.bfs(run, h, depth=depths[name], dev_bound=0, label=name + " ")
        for v in run.violations[before:]:
            if isinstance(v["witness"], dict) and "search" not in v["witness"]:
                v["witness"]["search"] = name
    run.coverage_extra["depths"] = depths
    # Seed enumeration
    cases = list(_seed_cases())
    for d in pmap(_seed_worker, cases, run.jobs):
        run.merge(d)
    run.coverage_extra["seed_enumeration"] = {"prefixes": len(SEED_PREFIXES), "viewer_lists": len(cases) // len(SEED_PREFIXES),
                                              "cases": run.counters.get("seed_cases", 0), "grant_urls": list(_SEED_URLS)}
    # scenario families
    fam = list(_family_cases()) + list(_repeated_cases()) + list(_upload_cases()) + list(_shared_asset_cases())
    for d in pmap(_family_worker, fam, run.jobs):
        run.merge(d)
    run.coverage_extra["families"] = {"wrappers": sum(1 for c in fam if c[0] == "wrappers"),
                                      "one-shots": sum(1 for c in fam if c[0] == "one-shots"),
                                      "repeated-grants": sum(1 for c in fam if c[0] == "repeated-grants"),
                                      "repeated_grants_k": REPEAT_K,
                                      "uploads": sum(1 for c in fam if c[0] == "uploads"),
                                      "shared-asset-urls": sum(1 for c in fam if c[0] == "shared-asset-urls"),
                                      "urls": list(_FAMILY_URLS), "one_shot_regions": list(_FAMILY_REGS)}
    # shrink witnesses
    for v in run.violations:
        wit = v["witness"]
        if isinstance(wit, dict) and "history" in wit:
            try:
                wit["history"] = jsonable(minimise(wit["history"], v["clause"], v["site"]))
            except Exception as e:  # best effort
                run.notes.append(f"minimise failed: {e!r}")


def replay(witness):
    out: List[Dict[str, Any]] = []
    h = Harness("first", memo=False)
    w = h.fresh()
    for ev in witness["history"]:
        w.violations = []
        h.step(w, explore._tuplify(ev))
        out.extend(w.violations)
    return out

"""C02 -- pass-through fidelity (bounded-exhaustive: datagrams x inspection histories, DESIGN §4 C02).

Datagrams (only those the header parser accepts are in scope; the rest are counted as `rejected_by_header_parser`):
  (a) every datagram of the C01 generator, laid out by the *reference* encoder (what arrives from the wire);
  (b) for a basis of templates: every truncation length, every single-byte substitution with {00,01,7F,80,FF} at every
      offset, extensions by 1..3 trailing bytes, ack-count tampering;
  (c) non-canonical zero-codings of zerocoded basis datagrams (run split, wrap form `00 00 n`, trailing lone zero) and
      wire-first text fields with several trailing NULs.
Histories: every sequence of length <= 3 (quick: 2) over {H: read header fields, B: touch msg.blocks, T: to_dict(),
S: serialize} ending in S, under deferred parsing; eager parsing adds {S, T S, S S}. For every generator datagram also
{XS, XBS, BXS, XBSS}, X = the same long-lived serializer / deserializers first reject unrelated work (half-built messages an addon
tried to send, undecodable datagrams): pass-through of this datagram must not depend on what the codec objects did before.

Take histories (every generator datagram, deferred parsing): an addon take()s the message (copy) before or after the body was touched,
then both objects are inspected in either order and both are serialized: {K Sc S, K Bc B S Sc, K B Bc S Sc, B K Bc S Sc}.

Clauses:
  take-original        after take(), the original still satisfies the clauses above (S == d when canonical and NaN-free)
  take-copy            the copy serializes to a datagram that decodes to the blocks a fresh parse of d gives (the copy and the original
                       must not share parse state)
  unparsed-identical   never inspected / header-only inspected: S == d
  failed-parse-forward body inspection raised: every later S == d (retrying B changes nothing)
  parsed-identical     parsed successfully, zero-coding canonical (or not zerocoded), no NaN decoded: S == d
  parsed-same-message  after a successful parse, deserialize(S) equals the parsed message (values, flags, id, acks, extra)
"""
from __future__ import annotations

import math
import struct
from typing import Any, Dict, List, Tuple

from hippolyzer.lib.base.datatypes import TupleCoord
from hippolyzer.lib.base.message.udpdeserializer import UDPMessageDeserializer
from hippolyzer.lib.base.message.udpserializer import UDPMessageSerializer
from hippolyzer.lib.base.settings import Settings

from hmc import msggen, refwire
from hmc.core import Part, Run, pmap

LEVEL = "exploration"

_G: msggen.Gen = None
_HLEN = 3

BASIS = ["ChatFromViewer", "ChatFromSimulator", "ObjectUpdate", "AgentUpdate", "PacketAck", "StartPingCheck", "TestMessage",
         "ImprovedTerseObjectUpdate", "ViewerEffect", "CoarseLocationUpdate", "UseCircuitCode", "ImprovedInstantMessage",
         "CloseCircuit", "ParcelProperties"]


def histories(n: int) -> List[str]:
    out = ["S"]
    ops = "HBTS"
    frontier = [""]
    for _ in range(n - 1):
        frontier = [p + o for p in frontier for o in ops]
        out += [p + "S" for p in frontier]
    return out


def _has_nan(msg) -> bool:
    for blocks in msg.blocks.values():
        for b in blocks:
            for v in b.vars.values():
                if isinstance(v, float) and math.isnan(v):
                    return True
                if isinstance(v, TupleCoord) and any(isinstance(c, float) and math.isnan(c) for c in v):
                    return True
    return False


def _strict(v: Any):
    """Hashable strict form of a decoded value (floats by bits, bytes vs str kept apart)."""
    if isinstance(v, float):
        return ("f", struct.pack("<d", v))
    if isinstance(v, TupleCoord):
        return (type(v).__name__,) + tuple(_strict(c) for c in v)
    if isinstance(v, (bytes, bytearray)):
        return ("b", bytes(v))
    return (type(v).__name__, v)


def _msg_sig(msg):
    return (msg.name, int(msg.send_flags), msg.packet_id, tuple(msg.acks), bytes(msg.extra),
            tuple((bn, tuple(tuple((k, _strict(v)) for k, v in b.vars.items()) for b in bl)) for bn, bl in msg.blocks.items()))


def canonical_zerocoding(d: bytes) -> bool:
    """True iff the datagram is not zerocoded or its body is exactly what the canonical encoder emits."""
    if not d[0] & 0x80:
        return True
    end = len(d)
    if d[0] & 0x10:
        end -= 1 + 4 * d[-1]
    body = d[6:end]
    try:
        return refwire.zero_compress(refwire.zero_expand(body)) == body
    except Exception:
        return False


def check_datagram(part: Part, d: bytes, origin: str, ser, de_lazy, de_eager, hists: List[str], de_check):
    """Runs every history on datagram d. `origin` names the generator family (goes into the violation site)."""
    try:
        de_lazy.deserialize(d)
    except Exception:
        part.count("rejected_by_header_parser")
        return
    part.count("datagrams_in_scope")
    canon_zc = canonical_zerocoding(d)
    outcome_bits = []
    for mode in ("deferred", "eager"):
        if mode == "eager":
            try:
                de_eager.deserialize(d)
            except Exception:
                part.count("eager_rejected")  # eagerly parsed and undecodable: never becomes a message object
                outcome_bits.append("eager-rejected")
                continue
            hs = ["S", "TS", "SS", "BS"]
        else:
            hs = hists
        for h in hs:
            part.count("evaluations")
            de = de_lazy if mode == "deferred" else de_eager
            msg = de.deserialize(d)
            witness = {"datagram": d, "history": h, "mode": mode, "origin": origin}
            inspected = mode == "eager"
            failed = False
            parsed_sig = None
            for op in h:
                if op == "X":
                    for _lab, fn in _rejects():
                        fn(ser, de_eager, de_lazy)
                elif op == "H":
                    _ = (msg.name, msg.send_flags, msg.packet_id, msg.acks, msg.extra, msg.reliable, msg.zerocoded, msg.resent)
                elif op in "BT":
                    inspected = True
                    try:
                        if op == "B":
                            _ = list(msg.blocks.items())
                        else:
                            msg.to_dict()
                    except Exception:
                        failed = True
                else:  # S
                    try:
                        out = bytes(ser.serialize(msg))
                    except Exception as e:
                        out = None
                        err = repr(e)
                    if failed:
                        if out != d:
                            part.violation("failed-parse-forward", f"parse_message_body:{origin}", witness,
                                           f"after a failed body parse serialize gave {'exception ' + err if out is None else out.hex()[:80]}"
                                           f" instead of the original {len(d)} bytes")
                        continue
                    if not inspected:
                        if out != d:
                            part.violation("unparsed-identical", f"serialize-raw:{origin}", witness,
                                           f"uninspected datagram re-encoded to {'exception ' + err if out is None else out.hex()[:80]}")
                        continue
                    # parsed successfully
                    if out is None:
                        part.violation("parsed-same-message", f"serialize:{msg.name}:{origin}", witness, f"serialize raised {err}")
                        continue
                    if parsed_sig is None:
                        parsed_sig = _msg_sig(msg)
                    nan = _has_nan(msg)
                    if out != d and canon_zc and not nan:
                        part.violation("parsed-identical", classify_diff(d, out, msg, origin), witness,
                                       f"parsed datagram re-encoded differently: in {d.hex()[:96]} out {out.hex()[:96]} (len {len(d)} -> {len(out)})")
                    try:
                        again = de_check.deserialize(out)
                        same = nan or _msg_sig(again) == parsed_sig
                    except Exception as e:
                        same = False
                    if not same:
                        part.violation("parsed-same-message", f"reparse:{msg.name}:{origin}", witness,
                                       "re-encoded datagram does not decode to the same message")
            outcome_bits.append((h, failed, inspected))
    part.outcome((origin.split(":")[0], tuple(outcome_bits)[:4], len(d) % 7))
    part.mark_nontrivial(d)


def classify_diff(d: bytes, out: bytes, msg, origin: str) -> str:
    """Root-cause family of a parsed-but-different re-encoding (keeps known findings from masking other bugs)."""
    end_d, end_o = len(d), len(out)
    if d[0] & 0x10:
        end_d -= 1 + 4 * d[-1]
        end_o -= 1 + 4 * out[-1]
    bd, bo = d[6:end_d], out[6:end_o]
    if d[0] & 0x80:
        try:
            bd, bo = refwire.zero_expand(bd), refwire.zero_expand(bo)
        except Exception:
            pass
    if d[:6] == out[:6] and len(bo) < len(bd) and bd.startswith(bo) and d[end_d:] == out[end_o:]:
        return f"unread-trailing-bytes:{msg.name}"
    # text field with several trailing NULs: output shorter, and removing NULs makes them equal
    if len(bo) < len(bd) and _nul_collapse_only(bd, bo):
        return f"text-trailing-NULs:{msg.name}"
    return f"reencode:{msg.name}:{origin}"


def _nul_collapse_only(bd: bytes, bo: bytes) -> bool:
    # walk both; the only allowed difference is that bd has extra 00 bytes where bo has none (length prefixes differ too),
    # so compare with all 00 bytes and the differing length prefix removed -- heuristic, used for site naming only.
    i = j = 0
    skipped = 0
    while i < len(bd) and j < len(bo):
        if bd[i] == bo[j]:
            i += 1
            j += 1
        elif bd[i] == 0:
            i += 1
            skipped += 1
        elif bd[i] - bo[j] in range(1, 8) and skipped == 0:  # the length prefix itself
            i += 1
            j += 1
        else:
            return False
    return True


# ---- generators -----------------------------------------------------------------------------------
def mutations(d: bytes, quick: bool) -> List[Tuple[str, bytes]]:
    out: List[Tuple[str, bytes]] = []
    for n in range(6, len(d)):
        out.append(("trunc", d[:n]))
    for off in range(len(d)):
        for v in (0x00, 0x01, 0x7F, 0x80, 0xFF):
            if d[off] != v:
                out.append(("subst", d[:off] + bytes([v]) + d[off + 1:]))
    for ext in (b"\x00", b"\x01", b"\xff\x00", b"\x00\x00\x00", b"\x07\x08\x09"):
        out.append(("extend", d + ext))
    return out


def noncanonical_zerocodings(body: bytes) -> List[bytes]:
    """Re-zero-code an *unencoded* body in non-canonical but valid ways."""
    canon = refwire.zero_compress(body)
    outs = []
    # split the first run of >= 2 zeros into two runs
    i = 0
    while i < len(canon):
        if canon[i] == 0:
            n = canon[i + 1]
            if n >= 2:
                outs.append(canon[:i] + bytes((0, 1, 0, n - 1)) + canon[i + 2:])
                break
            i += 2
        else:
            i += 1
    # wrap form for a long run: append 300 zeros to body as  00 00 2C  (256 + 44)
    outs.append(refwire.zero_compress(body.rstrip(b"\x00")) + b"\x00\x00\x2c")
    # trailing lone zero
    outs.append(refwire.zero_compress(body.rstrip(b"\x00")) + b"\x00")
    return outs


def _family_cases(name: str) -> List[Tuple[str, bytes]]:
    """All (origin, datagram) pairs of one template from the C01 generator, laid out by the reference encoder."""
    g = _G
    out = []
    for c in list(g.value_rows(name)) + list(g.count_variants(name)):
        ref = g.ref_message(c)
        if c["flags"] & 0x80 and len(refwire.encode_body(g.templates[name], ref["blocks"], ref["extra"])) > 0x3000:
            continue
        out.append((f"gen:{c['tag']}", refwire.encode(ref)))
    return out


TAKE_HISTS = ["KcS", "KbBSc", "KBbSc", "BKbSc"]     # K take; B / b touch blocks of original / copy; S / c serialize original / copy


def _blocks_sig(msg):
    return _msg_sig(msg)[5]


def check_take(part: Part, d: bytes, ser, de_lazy, de_check):
    try:
        fresh = de_check.deserialize(d)
        want = _blocks_sig(fresh)
        nan = _has_nan(fresh)
    except Exception:
        return      # undecodable body: covered by failed-parse-forward
    canon_zc = canonical_zerocoding(d)
    for h in TAKE_HISTS:
        part.count("evaluations")
        part.count("take_histories")
        witness = {"datagram": d, "history": h, "mode": "take", "origin": "gen"}
        msg = de_lazy.deserialize(d)
        copy_ = None
        try:
            for op in h:
                if op == "K":
                    copy_ = msg.take()
                elif op == "B":
                    list(msg.blocks.items())
                elif op == "b":
                    list(copy_.blocks.items())
                elif op == "S":
                    out = bytes(ser.serialize(msg))
                    if out != d and canon_zc and not nan:
                        part.violation("take-original", f"serialize-original:{'parsed' if 'B' in h else 'raw'}", witness,
                                       f"history {h}: the original re-encoded differently after take(): len {len(d)} -> {len(out)}")
                    elif nan or not canon_zc:
                        if not nan and _blocks_sig(de_check.deserialize(out)) != want:
                            part.violation("take-original", "serialize-original:reparse", witness, f"history {h}: original decodes differently")
                elif op == "c":
                    outc = bytes(ser.serialize(copy_))
                    got = _blocks_sig(de_check.deserialize(outc))
                    if not nan and got != want:
                        nb = {bn: len(bl) for bn, bl in got}
                        part.violation("take-copy", f"Message.take:{'parsed' if h.index('K') > 0 else 'unparsed'}-original", witness,
                                       f"history {h}: the taken copy serializes to a datagram that decodes to different blocks "
                                       f"(block counts {nb}, {len(outc)} bytes for a {len(d)}-byte original)")
        except Exception as e:
            part.violation("take-copy", "Message.take:raises", witness, f"history {h}: {type(e).__name__}: {e}")


_REJ = None


def _rejects():
    global _REJ
    if _REJ is None:
        g = _G or msggen.Gen(0)
        _REJ = msggen.rejected_ops(g, "ChatFromViewer") + msggen.rejected_ops(g, "TestMessage")
    return _REJ


X_HISTS = ["XS", "XBS", "BXS", "XBSS"]


def _work(unit):
    kind, name = unit
    g = _G
    part = Part()
    ser = UDPMessageSerializer()
    s_e = Settings()
    s_e.ENABLE_DEFERRED_PACKET_PARSING = False
    de_eager = UDPMessageDeserializer(settings=s_e)
    de_check = UDPMessageDeserializer(settings=s_e)
    de_lazy = UDPMessageDeserializer(settings=Settings())
    hists = histories(_HLEN)
    if kind == "gen":
        for origin, d in _family_cases(name):
            check_datagram(part, d, "gen", ser, de_lazy, de_eager, hists + X_HISTS, de_check)
            check_take(part, d, ser, de_lazy, de_check)
        part.sample({"family": "gen", "template": name, "histories": hists[:6]}, limit=1)
    elif kind == "mut":
        tmpl = g.templates[name]
        base_cases = [c for c in g.value_rows(name)][:2]
        for bi, c in enumerate(base_cases):
            c = dict(c, flags=c["flags"] & ~0x80, extra=b"" if bi == 0 else b"\x01\x02")
            if bi == 1:
                c["flags"] |= 0x10
                c["acks"] = (5, 6)
            else:
                c["flags"] &= ~0x10
                c["acks"] = ()
            d = refwire.encode(g.ref_message(c))
            short_h = histories(2)
            for fam, m in mutations(d, _HLEN < 3):
                check_datagram(part, m, f"mut-{fam}", ser, de_lazy, de_eager, short_h, de_check)
            if bi == 1:  # ack-count tampering
                for cnt in (0, 1, 3, 255):
                    check_datagram(part, d[:-1] + bytes([cnt]), "mut-ackcount", ser, de_lazy, de_eager, short_h, de_check)
        part.sample({"family": "mut", "template": name}, limit=1)
    elif kind == "zc":
        for c in [c for c in g.value_rows(name)][:3]:
            c = dict(c, flags=(c["flags"] | 0x80) & ~0x10, acks=(), extra=b"")
            ref = g.ref_message(c)
            body = refwire.encode_body(g.templates[name], ref["blocks"], b"")
            hdr = struct.pack(">BIB", c["flags"], c["packet_id"], 0)
            for z in noncanonical_zerocodings(body):
                check_datagram(part, hdr + z, "zc-noncanonical", ser, de_lazy, de_eager, hists, de_check)
    elif kind == "nul":
        # wire-first text/unknown byte fields with 0..3 trailing NULs and embedded NULs
        tmpl = g.templates[name]
        c0 = next(iter(g.value_rows(name)))
        c0 = dict(c0, flags=0, acks=(), extra=b"")
        ref = g.ref_message(c0)
        for bname, rows in ref["blocks"]:
            rb = next(b for b in tmpl.blocks if b.name == bname)
            for v in rb.vars:
                if v.type != "Variable":
                    continue
                for payload in (b"hello", b"hello\x00", b"hello\x00\x00", b"hello\x00\x00\x00", b"\x00\x00", b"a\x00b\x00", b"\xff\x00\x00"):
                    old = rows[0][v.name]
                    rows[0][v.name] = payload
                    d = refwire.encode(ref)
                    rows[0][v.name] = old
                    check_datagram(part, d, f"wire-text:{'NULs' if payload.endswith(bytes(2)) else 'plain'}", ser, de_lazy, de_eager,
                                   histories(2), de_check)
    return part.dump()


def run(run: Run):
    global _G, _HLEN
    _G = msggen.Gen(run.seed)
    _HLEN = 2 if run.tier == "quick" else 3
    names = list(_G.templates)
    units = [("gen", n) for n in names]
    units += [("mut", n) for n in BASIS]
    units += [("zc", n) for n in BASIS if _G.templates[n].blocks]
    units += [("nul", n) for n in (BASIS if run.tier == "quick" else names)]
    for d in pmap(_work, units, run.jobs, chunksize=1):
        run.merge(d)
    run.rule = ("datagrams: (a) every generator case of all %d templates laid out by the reference encoder; (b) on %d basis templates every "
                "truncation, every single-byte substitution with {00,01,7F,80,FF} at every offset, 5 extensions, ack-count tampering; "
                "(c) non-canonical zero-codings and wire-first byte fields with 0..3 trailing NULs; x every inspection history of length <= %d "
                "over {H,B,T,S} ending in S (deferred) + {S,TS,SS,BS} (eager) + for generator datagrams {XS,XBS,BXS,XBSS} where X = rejected "
                "serialize/deserialize calls on the same codec objects, and the take histories {KcS, KbBSc, KBbSc, BKbSc} (K = take(), lower case = the copy). distinct_nontrivial = distinct in-scope datagrams"
                % (len(names), len(BASIS), _HLEN))
    run.assumptions += ["datagrams the header parser rejects are out of scope (counted)",
                        "byte-identity after a successful parse is required only when the zero-coding is canonical and no float decodes to NaN",
                        "an eagerly-parsed undecodable datagram never becomes a message object (C06 covers its discard)"]


def replay(w):
    part = Part()
    if w.get("mode") == "take":
        s_e = Settings()
        s_e.ENABLE_DEFERRED_PACKET_PARSING = False
        check_take(part, bytes(w["datagram"]), UDPMessageSerializer(), UDPMessageDeserializer(settings=Settings()), UDPMessageDeserializer(settings=s_e))
        return list(part.viol.values())
    ser = UDPMessageSerializer()
    s_e = Settings()
    s_e.ENABLE_DEFERRED_PACKET_PARSING = False
    de_eager = UDPMessageDeserializer(settings=s_e)
    de_lazy = UDPMessageDeserializer(settings=Settings())
    check_datagram(part, bytes(w["datagram"]), w.get("origin", "replay"), ser, de_lazy, de_eager, [w["history"]], UDPMessageDeserializer(settings=s_e))
    return list(part.viol.values())

"""C11 -- human-readable message text round-trips to the same datagram (bounded-exhaustive enumeration, DESIGN §4 C11).

What is enumerated (all of it, no sampling):
  rows      every message of the template-driven generator (481 templates: value rows, count variants) over alphabets that
            are *extended* with a text-layer torture list for every byte variable (text / unknown / binary / Fixed): multi-line
            (>= 5 newlines -> the "(...\\n...)" form), 4 newlines, quotes of both kinds, backslashes, trailing backslash,
            "[[X]]"-, "<1,2,3>"-, UUID- and comment-looking strings, lines that look like assignments / block headers / eval
            operators, Unicode line separators, NUL-bearing / non-UTF-8 / trailing-NUL byte strings, strings the pretty printer
            wraps at width 100.  Each message is serialised with the real UDPMessageSerializer, decoded with the (deferred)
            UDPMessageDeserializer -- that is the object the proxy shows -- and then, for beautify {off,on} x replacement
            table {none, matching AGENT_ID/SESSION_ID/CIRCUIT_CODE, AGENT_ID-only, non-matching} x direction (by row parity):
                text = to_human_string(m, replacements, beautify);  m' = from_human_string(text, replacements, safe=True)
  hdr       14 basis templates x all 256 flag bytes (unknown low bits print as [n]) x direction x dropped/synthetic marks
  subfield  for each of the 34 structured subfield serializers with a byte payload: context value x fill {00,FF,01,80,ramp} x
            length 0..256; every payload the library's own beautifier decodes (pod=True, finite floats) is put into a full
            message and round-tripped beautified (the undecodable ones fall back to the plain `=` form; that path is
            exercised by the generator rows and a per-key sample of 8 rejected payloads)
  dense     for every integer-typed subfield serializer (IntEnum / IntFlag / dates / TimeDilation / State / Xfer packet):
            all 256 values for 8-bit types, all 65536 for TimeDilation, bit-pattern set for wider types (0, each single bit,
            all-ones, all-ones minus each bit, sign boundaries, generator alphabet), x context (PCode for State); round trip of
            a one-block message through the same two public functions, compared on the variable's packed wire bytes
  safe      text-level: for each template's row-0 text (plain and beautified) and each variable in it: the operator rewritten
            to =$, =|$, =$|, =$$, and the value replaced by each of ~30 expression-bearing payloads under `=` and `=|`
            (plus line-continuation smuggling).  A sentinel object (counting __call__/__repr__/__getattr__/...) sits in both
            `env` and `replacements`, and builtins.eval is wrapped by a counter for the duration of the call.

Clauses
  text-roundtrip        serialize(m') (same packet id / extra / acks as m) == serialize(m); parse and serialize must not raise
  text-roundtrip-wire   ... and equals the datagram m was decoded from (== serialize(m) of the lazily decoded message the
                        proxy holds); reported only when text-roundtrip itself holds, i.e. when the *decoder* lost information
                        the text then cannot carry (root cause shared with C02)
  text-header           direction and flag byte of m' equal those of m
  beautified-noncanonical-subfield   same failure as text-roundtrip, but for a subfield value that the subfield codec itself does
                        not reproduce (serialize(deserialize(v)) != v in native form: tolerated junk, non-canonical encodings);
                        kept apart because the root cause is the codec's (C09/C10), not the text layer's
  safe-mode-eval        from_human_string(..., safe=True) never calls eval / touches the sentinel, neither on formatter output
                        nor on hostile text; an expression payload is rejected or stored as data, never as its value

Sites are "<Message>.<Block>.<Var>:<value class>" (value class = torture label, generic type class, or payload shape),
"<Message>.<Block>:count0" for block lists, "operator:<op>" / "expression-under:=" / "expression-under:=|" for the safe-mode clause (payload label in witness + detail).

Deviations from DESIGN: C09's payload generator does not exist yet, so valid subfield payloads are found by the fill x length
enumeration above, filtered by the library's own decoder. +-inf rows are not run (Gen(finite_only=True)); payloads whose pretty
form contains a non-finite float are counted as skipped_nonfinite_subfield (literal syntax has no inf/nan: stated bound).
"""
from __future__ import annotations

import builtins
import math
import re
import struct
from typing import Any, Dict, List, Optional, Tuple

import hippolyzer.lib.base.templates  # noqa: F401  (registers the subfield serializers)
from hippolyzer.lib.base import serialization as se
from hippolyzer.lib.base.datatypes import Quaternion, TupleCoord, UUID, Vector3, Vector4
from hippolyzer.lib.base.message.data_packer import TemplateDataPacker
from hippolyzer.lib.base.message.message import Block, Message
from hippolyzer.lib.base.message.message_formatting import HumanMessageSerializer as HMS
from hippolyzer.lib.base.message.msgtypes import MsgBlockType, MsgType
from hippolyzer.lib.base.message.template_dict import DEFAULT_TEMPLATE_DICT
from hippolyzer.lib.base.message.udpdeserializer import UDPMessageDeserializer
from hippolyzer.lib.base.message.udpserializer import UDPMessageSerializer
from hippolyzer.lib.base.network.transport import Direction
from hippolyzer.lib.base.settings import Settings

from hmc import evalprobe, msggen
from hmc.core import Part, Run, pmap

LEVEL = "exploration"

# ------------------------------------------------------------------------------------------------------------------------
# torture alphabets for the text layer
# ------------------------------------------------------------------------------------------------------------------------
UUID_STR = "1f4ffb55-022e-49fb-8c63-6f159aed9b24"

# "wrapped by the printer" x "looks like the format's own syntax": values long enough for the >100-column wrap, and values with
# >= 5 newlines (parenthesised one-literal-per-line form), that carry the meta characters in the MIDDLE -- once the parser has
# joined the continuation lines the value starts with "(", not with a quote, so anything keyed on the first character or applied
# to the whole joined line (comment stripping, sniffing, operator look-alikes) sees the inside of the string.
_META_MIX = "=| x =$ 1+1 [[AGENT_ID]] <1,2,3> " + UUID_STR + " ( ) a-b-c"
_WRAPPED_META: List[Tuple[str, str]] = [
    ("long-wrap-space-hash", "lorem ipsum dolor " * 4 + "here # comes a comment look-alike " + "sit amet " * 6 + "end"),
    ("long-wrap-tab-hash", "lorem ipsum dolor " * 4 + "tab\t# comes a comment look-alike " + "sit amet " * 6 + "end"),
    ("long-wrap-meta-mix", "lorem ipsum dolor " * 3 + _META_MIX + " " + "sit amet " * 5 + "trailing \\"),
    ("multiline5-space-hash", "l1\nl2 # not a comment\nl3\nl4 #\nl5\nl6 # end"),
    ("multiline5-tab-hash", "l1\nl2\t# not a comment\nl3\nl4\nl5\t#\nl6"),
    ("multiline5-meta-mix", "l1 =| x\nl2 =$ 1+1 \\\nl3 [[AGENT_ID]] \\\n<1,2,3>\n" + UUID_STR + "\n( a-b-c\n) end"),
]

# characters a "helpful" parser might normalise: typographic quotes (all of U+2018..U+201F; repr() keeps them raw and picks the
# delimiter from the ASCII quotes only), and look-alikes of whitespace / operators / comment markers / line breaks
_TYPO_ALL = "\u2018a\u2019 \u201ab\u201b \u201cc\u201d \u201ed\u201f"
_NORMALISABLE = "a\u00a0b\u200bc\u2013d\u2014e\u2026f\uff1dg\uff03h\ufeffi\u0085j\u2028k\u2029l"
_NORMALISE_ME: List[Tuple[str, str]] = [
    ("typographic-apostrophe", "it\u2019s"),
    ("typographic-double-quotes", "\u201chi\u201d"),
    ("typographic-quote-block", _TYPO_ALL),
    ("typographic-mixed-with-ascii-quotes", "\u2018it's\u2019 \"q\" \u201cx\u201d \u201ey\u201f"),
    ("typographic-at-edges", "\u2019starts and ends\u201d"),
    ("typographic-multiline5", "\u2018l1\u2019\nit\u2019s l2\n\u201cl3\u201d\n'l4'\n\"l5\"\n\u201el6\u201f"),
    ("typographic-long-wrap", "lorem ipsum \u2018dolor\u2019 " * 3 + "it\u2019s \u201cquoted\u201d and 'ascii' \"too\" " + "sit amet " * 6 + "end\u201d"),
    ("normalisable-characters", _NORMALISABLE),
    ("normalisable-at-edges-and-operators", "\ufeff\u200bx \uff1d 1 \uff03 c \uff1d\uff04 2\u2026\u00a0\u200b"),
]
# the same characters inside pretty-printed subfields (payloads the subfield codecs reproduce; shown as `=|` dicts / lists)
_SUB_TEXTS = [("typographic", ("it\u2019s \u201cx\u201d \u2018y\u2019 \u201ez\u201f \u201aw\u201b").encode("utf8")),
              ("typographic-edges", "\u2019x\u201d".encode("utf8")),
              ("normalisable", _NORMALISABLE.encode("utf8"))]
_U16 = bytes(range(16))
EXTRA_PAYLOADS = {
    ("ObjectUpdate", "ObjectData", "NameValue"): [(None, l, b"Title STRING RW SV " + t + b"\x00") for l, t in _SUB_TEXTS],
    ("ImprovedInstantMessage", "MessageBlock", "BinaryBucket"):
        [(32, l, b"\x01\x09" + _U16 + t + b"\x00") for l, t in _SUB_TEXTS] + [(37, l, b"\x00\x00" + _U16 + t + b"\x00") for l, t in _SUB_TEXTS],
    ("TransferRequest", "TransferInfo", "Params"): [(1, l, t + b"\x00\x01") for l, t in _SUB_TEXTS],
    ("TransferInfo", "TransferInfo", "Params"): [(1, l, t + b"\x00\x01") for l, t in _SUB_TEXTS],
}

TORTURE_STR: List[Tuple[str, str]] = [
    ("multiline5", "l1\nl2\nl3\nl4\nl5\nl6"),
    ("multiline5-trailing-newline", "a\n\n\n\n\n"),
    ("only-newlines", "\n\n\n\n\n\n"),
    ("multiline4", "a\nb\nc\nd\ne"),
    ("quotes-both", "it's \"quoted\""),
    ("triple-single", "'''"),
    ("triple-double", '"""'),
    ("backslash", "back\\slash"),
    ("trailing-backslash", "trailing\\"),
    ("only-backslash", "\\"),
    ("backslash-n-literal", "a\\nb"),
    ("backslash-newline", "a\\\nb"),
    ("multiline-trailing-backslashes", "a\\\nb\\\nc\\\nd\\\ne\\\nf\\"),
    ("replacement-looking", "[[AGENT_ID]]"),
    ("replacement-sentinel-looking", "[[SENTINEL]]"),
    ("vector-looking", "<1,2,3>"),
    ("vector-looking-spaced", "<1.0, 2.0, 3.0>"),
    ("uuid-looking", UUID_STR),
    ("uuid-sniff-looking", "a-b-c"),
    ("hash", "#"),
    ("hash-comment-looking", "# not a comment"),
    ("inline-hash", "x # y"),
    ("multiline-hash-lines", "a\n#b\n#c\n#d\n#e\n#f"),
    ("eval-looking", "=$ 1+1"),
    ("multiline-assignment-lines", "x\nVar =$ SENTINEL()\n[Block]\nY = 1\nOUT Foo\nw"),
    ("long-spaces", "word " * 36),
    ("long-nospace", "x" * 150),
    ("long-backslash-words", "ab\\ " * 50),
    ("long-quote-words", "it's \"q\" " * 22),
    ("long-trailing-spaces", "a " * 60 + "   "),
    ("long-multiline", ("line of text number one " * 5 + "\n") * 6),
    ("leading-space", " leading"),
    ("trailing-space", "trailing "),
    ("tab", "\t"),
    ("space", " "),
    ("crlf-lines", "a\r\nb\r\nc\r\nd\r\ne\r\nf"),
    ("vt-ff", "a\x0bb\x0cc"),
    ("nel", "a\x85b"),
    ("unicode-linesep", "a\u2028b\u2029c"),
    ("fs-gs-rs", "a\x1cb\x1dc\x1ed"),
    ("nbsp-edges", "\xa0x\xa0"),
    ("astral", "smile \U0001f600 ✓"),
    ("leading-NUL", "\x00x"),
    ("long-unicode-wrap", "héllo wörld ✓ " * 12),
] + [(l, v) for l, v in _WRAPPED_META] + _NORMALISE_ME

TORTURE_BYTES: List[Tuple[str, bytes]] = [
    ("trailing-NULs", b"abc\x00\x00"),
    ("only-NULs", b"\x00\x00"),
    ("NUL-terminated-ascii", b"abc\x00"),
    ("non-utf8-NUL-terminated", b"\xff\xfe\x00"),
    ("non-utf8", b"\xc3\x28\xff"),
    ("bytes-multiline5", b"a\nb\nc\nd\ne\nf"),
    ("bytes-multiline5-NUL-terminated", b"a\nb\nc\nd\ne\nf\x00"),
    ("bytes-only-newlines", b"\n\n\n\n\n"),
    ("bytes-multiline4", b"a\nb\nc\nd\ne"),
    ("bytes-quotes", b"it's \"q\""),
    ("bytes-single-quote", b"it's"),
    ("bytes-backslash", b"a\\b"),
    ("bytes-trailing-backslash", b"trailing\\"),
    ("bytes-multiline-trailing-backslashes", b"a\\\nb\\\nc\\\nd\\\ne\\\nf\\"),
    ("bytes-replacement-looking", b"[[AGENT_ID]]"),
    ("bytes-vector-looking", b"<1,2,3>"),
    ("bytes-uuid-sniff-looking", b"a-b-c"),
    ("bytes-uuid-looking", UUID_STR.encode()),
    ("bytes-hash", b"# x"),
    ("bytes-long", bytes(((i * 7 + 1) % 255) + 1 for i in range(150))),
    ("bytes-long-ascii-spaces", b"word " * 36),
    ("bytes-long-multiline", (b"line of bytes number one " * 5 + b"\n") * 6),
    ("bytes-crlf", b"a\r\nb\r\nc\r\nd\r\ne\r\nf"),
    ("bytes-inner-NUL", b"a\x00b"),
] + [("bytes-" + l, v.encode("ascii")) for l, v in _WRAPPED_META] + [
    ("bytes-typographic-utf8", _TYPO_ALL.encode("utf8")), ("bytes-typographic-utf8-NUL-NUL", "it\u2019s".encode("utf8") + b"\x00\x00"),
    ("bytes-normalisable-utf8", _NORMALISABLE.encode("utf8")),
]

FIXED_PATTERNS: List[Tuple[str, bytes]] = [
    ("fixed-newlines", b"\n"), ("fixed-lines", b"a\n"), ("fixed-backslashes", b"\\"), ("fixed-quotes", b"'\""),
    ("fixed-hash", b"#"), ("fixed-backslash-newline", b"\\\n"), ("fixed-spaces", b" "),
]


def _fits(s: str, width: int) -> bool:
    return len(s.encode("utf8")) + 1 <= (255 if width == 1 else 65535)


class TGen(msggen.Gen):
    """The C01 generator with every byte-variable alphabet extended by the torture lists (labels kept per index)."""

    def __init__(self, seed: int = 0):
        super().__init__(seed, finite_only=True)
        self.labels: Dict[str, Dict[int, str]] = {}
        for width in (1, 2):
            for kind in ("TEXT", "UNK", "BIN"):
                key = f"{kind}{width}"
                base = list(self.alpha[key])
                lab = {}
                extra: List[Tuple[str, Any, bytes]] = []
                if kind != "BIN":
                    extra += [(l, s, s.encode("utf8") + b"\x00") for l, s in TORTURE_STR if _fits(s, width)]
                extra += [(l, b, b) for l, b in TORTURE_BYTES]
                for l, v, w in extra:
                    lab[len(base)] = l
                    base.append((v, w))
                self.alpha[key] = base
                self.labels[key] = lab

        # every vector-typed variable gets components that print in exponent notation (|x| < 1e-4, >= 1e16), f32-exact for the
        # f32 types, including a near-half-turn quaternion whose *derived* W (5.9e-05) is the only such component
        def f32(x):
            return struct.unpack("<f", struct.pack("<f", x))[0]
        ext = {
            "LLVector3": [(f32(1e-05), f32(-2.5e-07), f32(1e16)), (1.0, f32(-3e38), f32(1.5e-45))],
            "LLVector3d": [(5e-324, -1e-05, 1e16), (1e-300, 2.5, -1.7e308)],
            "LLVector4": [(f32(1e-05), 1.0, f32(-1e16), f32(2e-40)), (0.5, 0.25, 0.125, f32(-7e-06))],
        }
        for key, vals in ext.items():
            cls = Vector4 if key == "LLVector4" else Vector3
            lab = self.labels.setdefault(key, {})
            for v in vals:
                lab[len(self.alpha[key])] = cls.__name__ + ":exponent"
                self.alpha[key] = self.alpha[key] + [(cls(*v), v)]
        quats = [("Quaternion:exponent-derived-W", (0.6000000238418579, 0.7999999523162842, 0.00021019922860432416)),
                 ("Quaternion:exponent", (f32(1e-05), f32(-3e-08), 0.5))]
        lab = self.labels.setdefault("LLQuaternion", {})
        for l, v in quats:
            lab[len(self.alpha["LLQuaternion"])] = l
            self.alpha["LLQuaternion"] = self.alpha["LLQuaternion"] + [(Quaternion(*v), v)]

    def alphabet(self, key: str):
        if key.startswith("FIXED"):
            size = int(key[5:])
            base = msggen.fixed_alphabet(size, self.seed)
            lab = self.labels.setdefault(key, {})
            for l, p in FIXED_PATTERNS:
                lab[len(base)] = l
                base.append(((p * size)[:size], (p * size)[:size]))
            return base
        return self.alpha[key]

    def label(self, name: str, bname: str, vname: str, idx: int) -> Optional[str]:
        rb = next(b for b in self.templates[name].blocks if b.name == bname)
        rv = next(v for v in rb.vars if v.name == vname)
        key = msggen.var_key(name, bname, rv)
        self.alphabet(key)
        return self.labels.get(key, {}).get(idx)


# ------------------------------------------------------------------------------------------------------------------------
# sentinel / eval hook
# ------------------------------------------------------------------------------------------------------------------------
class Sentinel:
    """Every way an evaluated expression could touch it bumps the counter; nothing it does has any other effect."""

    def __init__(self):
        object.__setattr__(self, "n", 0)

    def _bump(self, *a, **k):
        object.__setattr__(self, "n", self.n + 1)
        return 0

    def __repr__(self):
        self._bump()
        return "SENTINEL"

    __str__ = __repr__

    def __format__(self, spec):
        self._bump()
        return "SENTINEL"

    def __call__(self, *a, **k):
        return self._bump()

    def __getattr__(self, item):
        if item.startswith("__") and item.endswith("__"):
            raise AttributeError(item)
        return self._bump()

    def __getitem__(self, item):
        return self._bump()

    def __iter__(self):
        self._bump()
        return iter(())

    def __neg__(self):
        return self._bump()

    def __add__(self, other):
        return self._bump()

    __radd__ = __add__


_REAL_EVAL = builtins.eval
_REAL_EXEC = builtins.exec
_EVALS = [0]


def _counting_eval(*a, **k):
    _EVALS[0] += 1
    return _REAL_EVAL(*a, **k)


def _counting_exec(*a, **k):
    _EVALS[0] += 1
    return _REAL_EXEC(*a, **k)


def _alias_sites():
    """Module-level names in the anchored modules that are bound to the real eval/exec (an alias captured at import time would
    bypass a patch of builtins alone)."""
    from hippolyzer.lib.base import helpers
    from hippolyzer.lib.base.message import message_formatting
    out = []
    for mod in (message_formatting, helpers):
        for k, v in list(vars(mod).items()):
            if v is _REAL_EVAL:
                out.append((mod, k, _counting_eval, v))
            elif v is _REAL_EXEC:
                out.append((mod, k, _counting_exec, v))
    return out


def guarded_parse(text: str, replacements: dict, env: dict, sentinel: Sentinel):
    """from_human_string(safe=True) with three independent detectors armed: the sentinel object (env / replacements), a counter
    around eval/exec (builtins and any module-level alias), and the import-based side-effect probe hmc.evalprobe (needs nothing
    from the evaluator's namespace).  Returns (message or None, exception or None, touches)."""
    _EVALS[0] = 0
    evalprobe.reset()
    n0 = sentinel.n
    aliases = _alias_sites()
    builtins.eval, builtins.exec = _counting_eval, _counting_exec
    for mod, k, new, _old in aliases:
        setattr(mod, k, new)
    try:
        try:
            msg, err = HMS.from_human_string(text, replacements=replacements, env=env, safe=True), None
        except Exception as e:  # noqa
            msg, err = None, e
    finally:
        builtins.eval, builtins.exec = _REAL_EVAL, _REAL_EXEC
        for mod, k, _new, old in aliases:
            setattr(mod, k, old)
    return msg, err, (sentinel.n - n0) + _EVALS[0] + evalprobe.hits()


# ------------------------------------------------------------------------------------------------------------------------
# round trip of one decoded message
# ------------------------------------------------------------------------------------------------------------------------
_G: TGen = None
_QUICK = True
_TD = DEFAULT_TEMPLATE_DICT

NON_MATCHING = {"AGENT_ID": UUID("9c4f6e2a-0000-4000-8000-00000000a6e7"), "SESSION_ID": UUID("9c4f6e2a-0000-4000-8000-00000000535e"),
                "CIRCUIT_CODE": 0x5A5A5A5B}
REPL_MODES = ("none", "match", "partial", "nomatch")


def matching_table(dm: Message) -> dict:
    tbl = dict(NON_MATCHING)
    ad = dm.blocks.get("AgentData")
    if ad:
        if "AgentID" in ad[0].vars:
            tbl["AGENT_ID"] = ad[0]["AgentID"]
        if "SessionID" in ad[0].vars:
            tbl["SESSION_ID"] = ad[0]["SessionID"]
    for bname, bl in dm.blocks.items():
        for blk in bl:
            for vn, v in blk.items():
                if "CircuitCode" in vn or ("Code" in vn and "Circuit" in bname):
                    tbl["CIRCUIT_CODE"] = v
                    return tbl
    return tbl


def vclass(v: Any) -> str:
    if isinstance(v, bool):
        return "bool"
    if isinstance(v, int):
        return "int-negative" if v < 0 else ("int-high-bit" if v >= 2 ** 31 else "int")
    if isinstance(v, float):
        return "float:exponent" if "e" in repr(v) else "float"
    if isinstance(v, TupleCoord):
        return type(v).__name__ + (":exponent" if "e" in str(v) else "")
    if isinstance(v, str):
        return "str"
    if isinstance(v, bytes):
        return "bytes" if type(v) is bytes else "stringy-bytes"
    return type(v).__name__


def _pack(name: str, bname: str, vname: str, v: Any) -> bytes:
    var = _TD[name].get_block(bname).get_variable(vname)
    return bytes(TemplateDataPacker.pack(v, var.type))


def locate(name: str, dm: Message, pm: Message, labeler):
    try:
        return _locate(name, dm, pm, labeler)
    except Exception:  # noqa  attribution must never turn a violation into a harness error
        return []


def _locate(name: str, dm: Message, pm: Message, labeler):
    """Where two messages differ: [(site, short detail)] (structure first, then first differing variables)."""
    out = []
    for bname, blist in dm.blocks.items():
        plist = pm.blocks.get(bname)
        if plist is None:
            out.append((f"{name}.{bname}:count{len(blist)}" if not blist else f"{name}.{bname}:block-missing",
                        f"block list {bname} (len {len(blist)}) absent after the round trip", None))
            continue
        if len(plist) != len(blist):
            out.append((f"{name}.{bname}:count", f"{len(blist)} blocks became {len(plist)}", None))
            continue
        for i, (b0, b1) in enumerate(zip(blist, plist)):
            for vn, v0 in b0.items():
                if vn not in b1.vars:
                    out.append((f"{name}.{bname}.{vn}:missing", f"block {i}: variable absent after the round trip", None))
                    continue
                v1 = b1[vn]
                try:
                    same = _pack(name, bname, vn, v0) == _pack(name, bname, vn, v1)
                    why = ""
                except Exception as e:  # noqa
                    same, why = False, f" (packing raised {e!r})"
                if not same:
                    out.append((f"{name}.{bname}.{vn}:{labeler(bname, i, vn, v0)}", f"block {i}: {v0!r:.120} came back as {v1!r:.120}{why}",
                                (bname, i, vn)))
    for bname in pm.blocks:
        if bname not in dm.blocks:
            out.append((f"{name}.{bname}:block-added", "block list appeared after the round trip", None))
    seen, structural, variables = set(), [], []
    for s, d, c in out:
        if s not in seen:
            seen.add(s)
            (variables if c else structural).append((s, d, c))
    # every structural site (count0 is an open known finding: it must never stand in for, or crowd out, a variable's own site)
    return variables[:6] + structural


def blame_parse(name: str, dm: Message, text, replacements, labeler, err, beautify):
    """The parser is sequential: bisect for the first variable whose inclusion makes the prefix of the text fail.
    Returns (site, fragment, coords) or None; attribution is best effort and must never raise (a parse failure always has to
    end up as a violation, if need be at the fallback site "<Msg>:parse-raises:<ExcType>")."""
    try:
        spans = list(text.spans.items())

        def fails(k):  # does the text up to and including variable k fail to parse?
            try:
                HMS.from_human_string(str(text[:spans[k][1][1]]), replacements=replacements, safe=True)
                return False
            except Exception:  # noqa
                return True
        if not spans or not fails(len(spans) - 1):
            return None
        lo, hi = 0, len(spans) - 1
        while lo < hi:
            mid = (lo + hi) // 2
            if fails(mid):
                hi = mid
            else:
                lo = mid + 1
        (mname, bname, i, vn), (a, b) = spans[lo]
        v0 = dm.blocks[bname][i][vn]
        return f"{name}.{bname}.{vn}:{labeler(bname, i, vn, v0)}", str(text[a:b])[:300], (bname, i, vn)
    except Exception:  # noqa
        return None


def canonical_for_codec(name: str, blk: Block, vn: str) -> bool:
    """Is the variable's value one the subfield codec itself reproduces (deserialize -> serialize, native form)?  Payloads for
    which that is false (tolerated junk, non-canonical encodings) are a C09 matter; they are reported under their own clause."""
    so = se.SUBFIELD_SERIALIZERS.get((name, blk.name, vn))
    if so is None:
        return True
    v = blk[vn]
    try:
        back = so.serialize(blk, so.deserialize(blk, v, pod=False))
        return bytes(back) == bytes(v) if isinstance(v, bytes) else int(back) == int(v)
    except Exception:  # noqa
        return False


def classify(name: str, dm: Message, coords, beautify: bool, site: str) -> Tuple[str, str]:
    """(clause, site) for a failure at `site`; non-canonical subfield values get their own clause and one site per variable."""
    if beautify and coords:
        bname, i, vn = coords
        try:
            if not canonical_for_codec(name, dm.blocks[bname][i], vn):
                return "beautified-noncanonical-subfield", f"{name}.{bname}.{vn}:noncanonical:beautified"
        except Exception:  # noqa
            pass
    return "text-roundtrip", site + (":beautified" if beautify else "")


def _same_header(pm: Message, dm: Message):
    pm.packet_id = dm.packet_id
    pm.acks = dm.acks
    pm.raw_extra = bytes(dm.extra)
    pm.offset = len(dm.extra)


def roundtrip(part: Part, ser: UDPMessageSerializer, dm: Message, wire: bytes, witness: dict, labeler, combos,
              template=None, cover: bool = True) -> None:
    """All (beautify, replacement table) combos for one decoded message."""
    name = dm.name
    dm.blocks  # force the deferred parse, as the formatter would
    try:
        d1 = bytes(ser.serialize(dm))
    except Exception as e:  # noqa
        part.violation("text-roundtrip", f"{name}:serialize-decoded", witness, f"serialize(decode(datagram)) raised {e!r}")
        return
    done: Dict[Tuple[str, str], bool] = {}
    match_tbl = None
    for beautify, mode in combos:
        part.count("evaluations")
        w = dict(witness, beautify=beautify, repl=mode)
        if mode == "none":
            tbl = {}
        elif mode == "match":
            tbl = match_tbl = match_tbl or matching_table(dm)
        elif mode == "partial":  # only AGENT_ID is the message's; a SessionID equal to it must still be written out literally
            match_tbl = match_tbl or matching_table(dm)
            tbl = dict(NON_MATCHING, AGENT_ID=match_tbl["AGENT_ID"])
        else:
            tbl = NON_MATCHING
        sentinel = Sentinel()
        ptbl = dict(tbl, SENTINEL=sentinel, RANDOM_KEY=sentinel, SELECTED_FULL=sentinel)
        try:
            text = HMS.to_human_string(dm, replacements=tbl, beautify=beautify, template=template)
        except Exception as e:  # noqa
            part.violation("text-roundtrip", f"{name}:to_human_string", w, f"formatter raised {e!r}")
            continue
        if cover and beautify:
            for (mname, bname, i, vn), (a, b) in text.spans.items():
                if (name, bname, vn) in se.SUBFIELD_SERIALIZERS and f"{vn} =| " in text[a:b]:
                    part.count(f"beautified:{name}.{bname}.{vn}")
        if "[[" in text:
            part.count("texts_with_replacement")
        key = (str(text), mode)
        if key in done:
            part.count("identical_text_reused")
            continue
        done[key] = True
        pm, err, touched = guarded_parse(text, ptbl, {"SENTINEL": sentinel}, sentinel)
        if touched:
            part.violation("safe-mode-eval", f"roundtrip:{name}", w, f"parsing the formatter's own output evaluated something ({touched} touches)")
        if err is not None:
            hit = blame_parse(name, dm, text, ptbl, labeler, err, beautify)
            site, frag, coords = hit if hit else (f"{name}:parse-raises:{type(err).__name__}", str(text)[:300], None)
            try:
                cl, st = classify(name, dm, coords, beautify, site)
            except Exception:  # noqa
                cl, st = "text-roundtrip", site + (":beautified" if beautify else "")
            part.violation(cl, st, w, f"from_human_string raised {err!r} on {frag!r}")
            part.outcome(("parse-raises", type(err).__name__))
            try:
                # do not let this variable hide the rest of the message: cut it out of the text and compare what remains
                # (if the same failure recurs in other variables the cut text fails again; those share this root cause)
                span = text.spans.get((name,) + tuple(coords)) if coords else None
                if span:
                    sa, sb = span
                    pm2, err2, _ = guarded_parse(str(text[:sa]) + str(text[sb:]), ptbl, {"SENTINEL": sentinel}, sentinel)
                    if err2 is None:
                        for site2, det2, c2 in locate(name, dm, pm2, labeler):
                            if c2 == coords or site2 == f"{name}.{coords[0]}.{coords[2]}:missing":
                                continue
                            part.violation(*classify(name, dm, c2, beautify, site2), w, f"(with the unparseable {coords[2]} cut out) {det2}")
                        part.count("masked_parse_failures_rechecked")
            except Exception as e2:  # noqa  attribution extras are best effort
                part.count("attribution_errors")
                part.outcome(("attribution-error", type(e2).__name__))
            continue
        if pm.direction != dm.direction:
            part.violation("text-header", "direction", w, f"{dm.direction} came back as {pm.direction}")
        if int(pm.send_flags) != int(dm.send_flags):
            part.violation("text-header", "flags", w, f"flags {int(dm.send_flags):#x} came back as {int(pm.send_flags):#x}")
            pm.send_flags = dm.send_flags
        _same_header(pm, dm)
        try:
            d2 = bytes(ser.serialize(pm))
        except Exception as e:  # noqa
            sites = locate(name, dm, pm, labeler) or [(f"{name}:serialize", "", None)]
            for site, det, coords in sites:
                part.violation(*classify(name, dm, coords, beautify, site), w, f"serialize(parsed) raised {e!r}; {det}")
            part.outcome(("serialize-raises", type(e).__name__))
            count0_residue(part, ser, name, dm, pm, d1, sites, beautify, w)
            continue
        if d2 != d1:
            sites = locate(name, dm, pm, labeler) or [(f"{name}:body", "", None)]
            for site, det, coords in sites:
                part.violation(*classify(name, dm, coords, beautify, site), w, f"datagram differs ({len(d1)} vs {len(d2)} bytes); {det}")
            part.outcome(("differs", len(d1) - len(d2)))
            count0_residue(part, ser, name, dm, pm, d1, sites, beautify, w)
        elif d2 != wire:
            # the text is faithful to the parsed message, but the parsed message no longer encodes to the datagram it came from
            try:
                wm = UDPMessageDeserializer(settings=_EAGER).deserialize(d2)
                owm = UDPMessageDeserializer(settings=_EAGER).deserialize(wire)
                sites = wire_sites(name, wire, d2, owm, wm, labeler)
            except Exception:  # noqa
                sites = []
            for site, det in sites or [(f"{name}:body", "")]:
                part.violation("text-roundtrip-wire", site, w, f"text round trip yields {len(d2)} bytes, the datagram on the wire had {len(wire)}; {det}")
            part.outcome(("differs-from-wire", len(wire) - len(d2)))
        else:
            part.outcome(("ok", len(text.splitlines()) > len(text.spans) + 6, "=|" in text, "[[" in text, " \\\n" in text))


def count0_residue(part, ser, name, dm, pm, d1, sites, beautify, w):
    """When the only located differences are lost empty block lists (":count0", an open known finding), give the parsed message
    those empty lists back and compare again: anything that still differs has another cause and gets a site of its own."""
    if not sites or not all(s.endswith(":count0") for s, _, _ in sites):
        return
    try:
        pm.blocks = {b: pm.blocks.get(b, type(dm.blocks[b])()) for b in dm.blocks}
        d3 = bytes(ser.serialize(pm))
    except Exception as e:  # noqa
        part.violation("text-roundtrip", f"{name}:body-besides-empty-block-lists" + (":beautified" if beautify else ""), w,
                       f"with the empty block lists restored, serialize(parsed) raised {e!r}")
        return
    part.count("count0_residue_checks")
    if d3 != d1:
        part.violation("text-roundtrip", f"{name}:body-besides-empty-block-lists" + (":beautified" if beautify else ""), w,
                       f"with the empty block lists restored the datagram still differs ({len(d1)} vs {len(d3)} bytes)")


_EAGER = Settings()
_EAGER.ENABLE_DEFERRED_PACKET_PARSING = False


def wire_sites(name, wire, d2, owm, wm, labeler):
    """Attribute a wire-level difference to the variables whose *raw* encodings differ (walk both bodies with the template)."""
    out = []
    tmpl = _TD[name]
    if (owm.send_flags & 0x80):
        wire = bytes(wire[:6]) + bytes(UDPMessageDeserializer.zero_code_expand(wire[6:len(wire) - (1 + 4 * len(owm.acks) if owm.has_acks else 0)]))
        d2 = bytes(d2[:6]) + bytes(UDPMessageDeserializer.zero_code_expand(d2[6:len(d2) - (1 + 4 * len(wm.acks) if wm.has_acks else 0)]))
    pos = [6 + len(tmpl.freq_num_bytes) + len(owm.extra)] * 2
    bufs = (wire, d2)

    def take(k, n):
        b = bufs[k][pos[k]:pos[k] + n]
        pos[k] += n
        return b

    for tb in tmpl.blocks:
        if pos[0] >= len(bufs[0]):
            break
        if tb.block_type == MsgBlockType.MBT_SINGLE:
            cnt = (1, 1)
        elif tb.block_type == MsgBlockType.MBT_MULTIPLE:
            cnt = (tb.number, tb.number)
        else:
            cnt = (take(0, 1)[0], take(1, 1)[0])
        if cnt[0] != cnt[1]:
            return [(f"{name}.{tb.name}:count", f"{cnt[0]} vs {cnt[1]}")]
        for i in range(cnt[0]):
            for tv in tb.variables:
                raw = []
                for k in (0, 1):
                    n = tv.size
                    if tv.type == MsgType.MVT_VARIABLE:
                        n = int.from_bytes(take(k, tv.size), "little")
                    raw.append(take(k, n))
                if raw[0] != raw[1]:
                    v0 = owm.blocks[tb.name][i][tv.name]
                    out.append((f"{name}.{tb.name}.{tv.name}:{wire_class(raw[0], labeler(tb.name, i, tv.name, v0))}",
                                f"block {i}: wire bytes {raw[0][:40]!r} shown as {v0!r:.60} re-encode as {raw[1][:40]!r}"))
                    if len(out) >= 4:
                        return out
    return out


def wire_class(raw: bytes, label: str) -> str:
    if raw.endswith(b"\x00\x00"):
        return "trailing-NULs"
    return label


# ------------------------------------------------------------------------------------------------------------------------
# case families
# ------------------------------------------------------------------------------------------------------------------------
def _codec():
    return UDPMessageSerializer(), UDPMessageDeserializer(settings=Settings())


def build_wire(ser, de, msg: Message):
    try:
        wire = bytes(ser.serialize(msg))
        dm = de.deserialize(wire)
        dm.blocks
        # decode again: the first object was only used to see that the datagram is in the decoder's domain
        dm = de.deserialize(wire)
    except Exception:  # noqa
        return None, None
    return wire, dm


def case_labeler(gen: TGen, case: dict):
    rows = dict(case["blocks"])

    def lab(bname, i, vn, v):
        try:
            idx = rows[bname][i][vn]
            return gen.label(case["name"], bname, vn, idx) or vclass(v)
        except Exception:  # noqa
            return vclass(v)
    return lab


def combos_for(tier_quick: bool, k: int):
    full = [(b, m) for b in (False, True) for m in REPL_MODES]
    return full


def check_case(part: Part, gen: TGen, case: dict, ser, de, combos=None, direction=None, marks=(), with_template=False):
    name = case["name"]
    msg = gen.lib_message(case)
    wire, dm = build_wire(ser, de, msg)
    if dm is None:
        part.count("skipped_outside_codec_domain")  # e.g. zero-coded body above the decoder's 0x3000 cap (C01/C03 own that)
        return
    dm.direction = direction if direction is not None else Direction.OUT
    if "dropped" in marks:
        dm.dropped = True
    if "synthetic" in marks:
        dm.synthetic = True
    witness = {"kind": "case", "seed": gen.seed, "case": case, "direction": dm.direction.name, "marks": list(marks),
               "with_template": with_template}
    roundtrip(part, ser, dm, wire, witness, case_labeler(gen, case), combos or combos_for(_QUICK, 0),
              template=_TD[name] if with_template else None)
    part.mark_nontrivial((name, case.get("tag"), tuple((b, len(r)) for b, r in case["blocks"]), dm.direction.name, tuple(marks), with_template))


def rows_unit(part: Part, gen: TGen, name: str, ser, de):
    tmpl = gen.templates[name]
    nbase = msggen.Gen.n_rows(_BASE_GEN, tmpl)  # rows below this index are the C01 generator's own, the rest are torture rows
    nvec = max([len(gen.alphabet(msggen.var_key(name, b.name, v))) for b in tmpl.blocks for v in b.vars
                if v.type in ("LLVector3", "LLVector3d", "LLVector4", "LLQuaternion")] or [0])
    nbase = max(nbase, nvec)  # the exponent-notation vector / quaternion rows are never thinned out in the quick tier
    sampled = False
    for c in gen.value_rows(name):
        m = re.match(r"row(\d+)(z?)$", c["tag"])
        row, twin = int(m.group(1)), bool(m.group(2))
        if _QUICK and row >= nbase and ((row - nbase) % 4 != _quick_phase(name) or twin):
            continue  # quick tier: every 4th torture row per template (phase by template name), all generator rows
        check_case(part, gen, c, ser, de, direction=Direction.IN if (row + twin) & 1 else Direction.OUT)
        if row >= nbase and not sampled:
            sampled = True
            part.sample({"name": name, "tag": c["tag"], "text": str(HMS.to_human_string(gen.lib_message(dict(c, extra=b"", acks=()))))[:600]}, limit=1)
    for c in gen.count_variants(name):
        check_case(part, gen, c, ser, de, combos=[(False, "none"), (True, "match")])
    # the GUI's template-annotated form ("[Block]  # Variable")
    for c in list(gen.value_rows(name))[:2]:
        check_case(part, gen, c, ser, de, combos=[(True, "match")], with_template=True)


def _quick_phase(name: str) -> int:
    return sum(name.encode()) % 4


_BASE_GEN: msggen.Gen = None


def hdr_unit(part: Part, gen: TGen, name: str, ser, de):
    tmpl = gen.templates[name]
    i = 0
    for flags in range(256):
        if _QUICK and (flags & 0x0F) not in (0, 1, 0x0F):
            continue
        for marks in ((), ("dropped",), ("synthetic",), ("dropped", "synthetic")):
            if marks and flags not in (0, 0xF0, 0x41):
                continue
            case = {"name": name, "flags": flags, "packet_id": msggen.PIDS[i % 3], "acks": (1, 0xFFFFFFFF) if flags & 0x10 else (),
                    "extra": msggen.EXTRAS[i % 3], "blocks": gen.blocks(tmpl, 1, {}), "tag": "hdr"}
            check_case(part, gen, case, ser, de, combos=[(False, "none"), (True, "match")],
                       direction=Direction.IN if i & 1 else Direction.OUT, marks=marks)
            i += 1


# ---- structured subfields -------------------------------------------------------------------------------------------------
def _ramp(n: int) -> bytes:
    return bytes(((i * 7 + 1) % 255) + 1 for i in range(n))


FILLS = {"z": lambda n: b"\x00" * n, "f": lambda n: b"\xff" * n, "p": _ramp, "o": lambda n: b"\x01" * n, "h": lambda n: b"\x80" * n}

EXAMPLE_TE = bytes.fromhex(
    "8955674724cb43ed920b47caed15465f08ca2a983a18022c0df41ec6f591015d8301340090692b1080a1aaa267116fa85dc6"
    "00000000000000000000803f000000803f0000000000000000000000000000000000000000000000000000000000000000000000000000")


def serializer_keys():
    """(reachable int keys, reachable bytes keys, unreachable keys) of the subfield registry."""
    ints, byts, unreach = [], [], []
    for key in sorted(se.SUBFIELD_SERIALIZERS):
        try:
            var = _TD[key[0]].get_block(key[1]).get_variable(key[2])
        except Exception:  # noqa
            unreach.append(key)
            continue
        (byts if var.type in (MsgType.MVT_VARIABLE, MsgType.MVT_FIXED) else ints).append(key)
    return ints, byts, unreach


def context_values(key, ser_obj) -> Tuple[Optional[str], List[Any]]:
    if key == ("TransferInfo", "TransferInfo", "Params"):
        return "TargetType", [0, 1, 2]
    f = getattr(ser_obj, "ENUM_FIELD", None)
    if f:
        return f, sorted({int(x) for x in ser_obj.TEMPLATES} | {0, 255})
    f = getattr(ser_obj, "FLAG_FIELD", None)
    if f:
        bits = 0
        for fl in ser_obj.TEMPLATES:
            bits |= int(fl)
        return f, [v for v in range(0, 256) if v & ~bits == 0] + [255]
    if key[2] == "State" and key[0] in ("ObjectUpdate", "ObjectAdd"):
        return "PCode", [0, 9, 47, 95, 111, 143, 255]
    return None, [None]


def _finite(x) -> bool:
    if isinstance(x, float):
        return math.isfinite(x)
    if isinstance(x, dict):
        return all(_finite(k) and _finite(v) for k, v in x.items())
    if isinstance(x, (list, tuple, set, frozenset)):
        return all(_finite(v) for v in x)
    if hasattr(x, "tolist"):
        return _finite(x.tolist())
    return True


def beautifier_accepts(key, ctx_field, ctx_val, payload) -> str:
    blk = Block(key[1])
    blk.message_name = key[0]
    if ctx_field:
        blk[ctx_field] = ctx_val
    blk[key[2]] = payload
    try:
        r = se.SUBFIELD_SERIALIZERS[key].deserialize(blk, payload, pod=True)
    except Exception:  # noqa
        return "rejected"
    if r is se.UNSERIALIZABLE:
        return "rejected"
    return "ok" if _finite(r) else "nonfinite"


def subfield_payloads(key):
    """Yield (ctx_field, ctx_val, payload, shape label, accepted?) over ctx x fill x length 0..256 (+ the repo's example TE)."""
    so = se.SUBFIELD_SERIALIZERS[key]
    ctx_field, ctx_vals = context_values(key, so)
    var = _TD[key[0]].get_block(key[1]).get_variable(key[2])
    maxlen = 256 if var.size >= 2 else 255
    for cv in ctx_vals:
        cands = [(f"{fill}{n}", FILLS[fill](n)) for fill in ("z", "f", "p", "o", "h") for n in range(0, maxlen + 1)]
        if key[2] == "TextureEntry":
            cands.append(("example-te", EXAMPLE_TE))
        cands += [(f"text:{l}", pl) for c, l, pl in EXTRA_PAYLOADS.get(key, ()) if c == cv]
        seen = set()
        for shape, p in cands:
            if p in seen:
                continue
            seen.add(p)
            yield ctx_field, cv, p, shape, beautifier_accepts(key, ctx_field, cv, p)


def subfield_message(gen: TGen, key, ctx_field, ctx_val, payload) -> Tuple[dict, Message]:
    name, bname, vname = key
    case = next(iter(gen.value_rows(name)))
    case = dict(case, flags=0, packet_id=1, acks=(), extra=b"", tag="subfield")
    msg = gen.lib_message(case)
    for blk in msg.blocks[bname]:
        if ctx_field:
            blk[ctx_field] = ctx_val
        blk[vname] = payload
    return case, msg


def subfield_unit(part: Part, gen: TGen, key, ser, de):
    name, bname, vname = key
    rejected_run = 0
    for ctx_field, cv, payload, shape, verdict in subfield_payloads(key):
        part.count(f"subfield_payload_{verdict}")
        if verdict == "nonfinite":
            part.count("skipped_nonfinite_subfield")
            continue
        if verdict == "rejected":
            rejected_run += 1
            if rejected_run > 8:
                continue
        if _QUICK and verdict == "ok" and len(payload) > 64 and (len(payload) % 8) and key[2] in ("Data", "Bitmap", "Throttles", "TextureID"):
            if key in (("ParcelOverlay", "ParcelData", "Data"), ("ParcelProperties", "ParcelData", "Bitmap"),
                       ("AgentThrottle", "Throttle", "Throttles"), ("ObjectProperties", "ObjectData", "TextureID")):
                continue  # quick tier: the accept-everything array serializers at every 8th length above 64
        check_subfield(part, gen, key, ctx_field, cv, payload, shape, ser, de)


def check_subfield(part, gen, key, ctx_field, cv, payload, shape, ser, de):
    name, bname, vname = key
    case, msg = subfield_message(gen, key, ctx_field, cv, payload)
    wire, dm = build_wire(ser, de, msg)
    if dm is None:
        part.count("skipped_outside_codec_domain")
        return
    label = f"payload[{ctx_field}={cv},{shape}]" if ctx_field else f"payload[{shape}]"
    witness = {"kind": "subfield", "seed": gen.seed, "key": list(key), "ctx_field": ctx_field, "ctx": cv, "payload": payload, "shape": shape}
    base = case_labeler(gen, case)

    def lab(b, i, v, val):
        return label if (b, v) == (bname, vname) else base(b, i, v, val)
    roundtrip(part, ser, dm, wire, witness, lab, [(True, "none"), (False, "none")])
    # the same payload in a one-block message: a failure of an *earlier* variable of the full message (ObjectUpdate.State) must not
    # hide this one
    check_dense(part, key, ctx_field, cv, payload, label=label)
    part.mark_nontrivial(("subfield", key, cv, shape))


# ---- dense integer subfields ----------------------------------------------------------------------------------------------
_INT_WIDTH = {MsgType.MVT_U8: (8, False), MsgType.MVT_S8: (8, True), MsgType.MVT_U16: (16, False), MsgType.MVT_S16: (16, True),
              MsgType.MVT_U32: (32, False), MsgType.MVT_S32: (32, True), MsgType.MVT_U64: (64, False), MsgType.MVT_S64: (64, True),
              MsgType.MVT_BOOL: (8, False), MsgType.MVT_IP_PORT: (16, False)}


def int_values(key, var) -> List[int]:
    bits, signed = _INT_WIDTH[var.type]
    full = (1 << bits) - 1
    if bits == 8 or (bits == 16 and key[2] == "TimeDilation" and not _QUICK):
        raw = list(range(full + 1))
    else:
        raw = {0, full, 1 << (bits - 1), (1 << (bits - 1)) - 1}
        for i in range(bits):
            raw.add(1 << i)
            raw.add(full ^ (1 << i))
            raw.add((1 << i) - 1)
        if bits == 16:
            raw |= set(range(256)) | {k * 257 for k in range(256)}
        raw |= {1600000000 & full, 1700000000123456 & full, 0x01020304 & full}
        raw |= set(range(64)) | {full - k for k in range(16)}
        ad = getattr(se.SUBFIELD_SERIALIZERS[key], "_adapter", None)
        cls = getattr(ad, "enum_cls", None) or getattr(ad, "flag_cls", None)
        if cls is not None:  # every named member has a pretty form: all of them must be present
            raw |= {int(m) & full for m in cls}
        raw = sorted(raw)
    if signed:
        raw = [v - (1 << bits) if v >> (bits - 1) else v for v in raw]
    return sorted(set(raw))


def dense_unit(part: Part, key, ser_unused=None, de_unused=None):
    name, bname, vname = key
    var = _TD[name].get_block(bname).get_variable(vname)
    so = se.SUBFIELD_SERIALIZERS[key]
    ctx_field, ctx_vals = context_values(key, so)
    for cv in ctx_vals:
        for v in int_values(key, var):
            check_dense(part, key, ctx_field, cv, v)


def check_dense(part: Part, key, ctx_field, cv, v, label=None):
    """One-block message holding the context variable and the subfield variable, through the two public functions."""
    name, bname, vname = key
    part.count("evaluations")
    part.count("dense_evaluations")
    witness = {"kind": "dense", "key": list(key), "ctx_field": ctx_field, "ctx": cv, "value": v, "label": label}
    kw = {ctx_field: cv} if ctx_field else {}
    kw[vname] = v
    msg = Message(name, Block(bname, **kw), packet_id=1, direction=Direction.OUT)
    sentinel = Sentinel()
    label = label or vclass(v)
    site = f"{name}.{bname}.{vname}:{label}:beautified:isolated"
    clause = "text-roundtrip"
    if not canonical_for_codec(name, msg.blocks[bname][0], vname):
        clause, site = "beautified-noncanonical-subfield", f"{name}.{bname}.{vname}:noncanonical:beautified"
    try:
        text = HMS.to_human_string(msg, replacements={}, beautify=True)
    except Exception as e:  # noqa
        part.violation("text-roundtrip", f"{name}.{bname}.{vname}:to_human_string", witness, f"formatter raised {e!r}")
        return
    if f"{vname} =| " in text:
        part.count(f"beautified:{name}.{bname}.{vname}")
        part.mark_nontrivial(("dense-beautified", key, cv, v))
    pm, err, touched = guarded_parse(text, {"SENTINEL": sentinel}, {"SENTINEL": sentinel}, sentinel)
    if touched:
        part.violation("safe-mode-eval", f"roundtrip:{name}", witness, "parsing the formatter's own output evaluated something")
    if err is not None:
        part.violation(clause, site, witness, f"from_human_string raised {err!r} on {str(text)[-200:]!r}")
        part.outcome(("dense-parse-raises", type(err).__name__))
        return
    try:
        v1 = pm.blocks[bname][0][vname]
        same = _pack(name, bname, vname, v) == _pack(name, bname, vname, v1)
        det = f"{v!r:.80} came back as {v1!r:.80}"
    except Exception as e:  # noqa
        same, det = False, f"{v!r}: re-encoding the parsed value raised {e!r}"
    if not same:
        part.violation(clause, site, witness, det + f"; text: {str(text).split(chr(10), 3)[-1].strip()[:200]!r}")
        part.outcome(("dense-differs", label))
    else:
        part.outcome(("dense-ok", "=|" in text, " \\\n" in text, label))


# ---- safe mode ------------------------------------------------------------------------------------------------------------
EVAL_OPS = ("=$", "=|$", "=$|", "=$$", "=|$|")

# (label, expression text, value it would have if evaluated -- or None when only the sentinel/eval counters can tell)
PAYLOADS: List[Tuple[str, str, Any]] = [
    ("import", "__import__('os').getcwd()", None),
    ("import-attr", "__import__('os').sep", "/"),
    ("fstring", "f'{SENTINEL}'", "SENTINEL"),
    ("fstring-call", "f'{SENTINEL()}'", "0"),
    ("fstring-const", "f'{1+1}'", "2"),
    ("lambda", "(lambda: SENTINEL())()", 0),
    ("lambda-uncalled", "lambda: 1", None),
    ("attribute", "SENTINEL.secret", 0),
    ("call", "SENTINEL()", 0),
    ("call-builtin", "str(SENTINEL)", "SENTINEL"),
    ("repr-call", "repr(SENTINEL)", "SENTINEL"),
    ("arith", "1+1", 2),
    ("str-mul", "'a'*3", "aaa"),
    ("len-call", "len('abc')", 3),
    ("listcomp", "[SENTINEL() for _ in (1,)]", [0]),
    ("subscript", "SENTINEL[0]", 0),
    ("block-local", "block.name", None),
    ("math-global", "math.pi", math.pi),
    ("uuid-ctor", "UUID()", UUID()),
    ("walrus", "(x := SENTINEL())", 0),
    ("dict-with-call", "{'a': SENTINEL()}", {"a": 0}),
    ("tuple-with-call", "(1, SENTINEL())", (1, 0)),
    ("unary-on-name", "-SENTINEL", 0),
    ("starred", "[*SENTINEL]", []),
    ("ifexp", "SENTINEL() if 1 else 0", 0),
    ("name-only", "SENTINEL", None),
    ("vector-with-call", "<SENTINEL(),1,2>", None),
    ("uuid-sniff-with-call", "a-b-SENTINEL()", None),
    ("replacement-then-call", "[[NULL_KEY]] + SENTINEL()", None),
    ("literal-then-call", "1; SENTINEL()", None),
    ("continuation-call", "'a' \\\n+ SENTINEL()", None),
    ("continuation-eval-line", "'a' \\\n  Other =$ SENTINEL()", None),
    # side-effect probe: observable without anything from the evaluator's namespace (hmc/evalprobe.py)
    ("probe", evalprobe.EXPR, 7),
    ("probe-in-dict", "{'a': %s}" % evalprobe.EXPR, {"a": 7}),
    ("probe-in-list-in-tuple", "([1, %s], 'x')" % evalprobe.EXPR, ([1, 7], "x")),
    ("probe-in-fstring", "f'{%s}'" % evalprobe.EXPR.replace("'", '"'), "7"),
    ("probe-after-literal-or", "0 or %s" % evalprobe.EXPR, 7),
    ("probe-continuation", "{'a': 1, \\\n    'b': %s}" % evalprobe.EXPR, {"a": 1, "b": 7}),
    ("probe-continuation-3-lines", "( \\\n    %s, \\\n    2)" % evalprobe.EXPR, (7, 2)),
    ("probe-ctor-call", "UUID(str(%s))" % evalprobe.EXPR, None),
    # literals that merely *contain* code: must come back as that very string / bytes (the "treated as data" side of the clause)
    ("quoted-call", "'SENTINEL()'", 0),
    ("quoted-import-bytes", "b\"__import__('os').getcwd()\"", None),
    ("tuple-of-quoted", "('SENTINEL()', 1)", (0, 1)),
]


def _is_value(got: Any, would: Any) -> bool:
    if would is None:
        return False
    try:
        return type(got) is type(would) and got == would
    except Exception:  # noqa
        return False


def safe_texts(gen: TGen, name: str, ser, de):
    """(beautify, head, [(key, fragment, gap-after)]) for the row-0 message; variables whose own text already fails to parse
    (a reported text-roundtrip finding, e.g. ObjectUpdate's `State =|`) are cut out so that they cannot mask the injected line."""
    case = next(iter(gen.value_rows(name)))
    wire, dm = build_wire(ser, de, gen.lib_message(dict(case, flags=0, acks=(), extra=b"")))
    if dm is None:
        return
    seen = set()
    for beautify in (False, True):
        text = HMS.to_human_string(dm, replacements={}, beautify=beautify)
        if str(text) in seen:
            continue
        seen.add(str(text))
        spans = list(text.spans.items())
        if not spans:
            continue
        head = str(text[:spans[0][1][0]])
        pieces = []
        for k, (key, (a, b)) in enumerate(spans):
            nxt = spans[k + 1][1][0] if k + 1 < len(spans) else len(text)
            pieces.append((key, str(text[a:b]), str(text[b:nxt])))
        for _ in range(8):
            def fails(k):
                try:
                    HMS.from_human_string(head + "".join(f + g for _, f, g in pieces[:k + 1]), safe=True)
                    return False
                except Exception:  # noqa
                    return True
            if not fails(len(pieces) - 1):
                break
            lo, hi = 0, len(pieces) - 1
            while lo < hi:
                mid = (lo + hi) // 2
                if fails(mid):
                    hi = mid
                else:
                    lo = mid + 1
            key, f, g = pieces[lo]
            pieces[lo] = (None, "", g)  # cut the unparseable variable, keep the line structure
        else:
            continue
        yield beautify, head, pieces


def safe_unit(part: Part, gen: TGen, name: str, ser, de):
    for beautify, head, pieces in safe_texts(gen, name, ser, de):
        idxs = [k for k, (key, f, g) in enumerate(pieces) if key is not None]
        part.count("safe_mode_variables_cut_because_unparseable", len(pieces) - len(idxs))
        if _QUICK and len(idxs) > 2:
            idxs = [idxs[0], idxs[-1]]
        for k in idxs:
            (mname, bname, i, vn), frag, gap = pieces[k]
            m = re.match(r"^(\s*)(\w+)(\s*)(=\|?)", frag)
            if not m:
                part.violation("safe-mode-eval", f"harness:span:{name}", {"kind": "safe", "text": head}, f"unexpected fragment {frag!r}")
                continue
            variants = []
            for op in EVAL_OPS:
                variants.append((f"operator:{op}", frag[:m.start(4)] + op + frag[m.end(4):], None))
            for label, expr, would in PAYLOADS:
                for op in ("=", "=|"):
                    variants.append((f"payload:{label}:{op}", f"  {vn} {op} {expr}", would))
            before = head + "".join(f + g for _, f, g in pieces[:k])
            after = gap + "".join(f + g for _, f, g in pieces[k + 1:])
            for site, newfrag, would in variants:
                check_safe(part, site, name, before + newfrag + after, bname, i, vn, would, newfrag)
        part.mark_nontrivial(("safe", name, beautify))


def safe_site(tag: str) -> str:
    """tag is "operator:<op>" or "payload:<label>:<op>"; the violation site is the parser branch (the payload label goes into
    the witness and the detail), so that a handful of sites describes any leak and all of them get printed."""
    parts = tag.split(":")
    return tag if parts[0] == "operator" else f"expression-under:{parts[-1]}"


def check_safe(part: Part, tag: str, name: str, text: str, bname: str, idx: int, vn: str, would: Any, frag: str = ""):
    part.count("evaluations")
    part.count("safe_mode_evaluations")
    sentinel = Sentinel()
    site = safe_site(tag)
    repl = {"SENTINEL": sentinel, "NULL_KEY": UUID(), "RANDOM_KEY": sentinel}
    witness = {"kind": "safe", "name": name, "text": text, "block": bname, "index": idx, "var": vn, "site": tag,
               "would": would if isinstance(would, (int, str, float)) else repr(would), "fragment": frag}
    msg, err, touched = guarded_parse(text, repl, {"SENTINEL": sentinel, "session": sentinel, "region": sentinel}, sentinel)
    if touched:
        part.violation("safe-mode-eval", site, witness,
                       f"[{tag}] safe=True evaluated text ({sentinel.n} sentinel touches, {_EVALS[0]} eval/exec calls, {evalprobe.hits()} probe "
                       f"hits); outcome {'raised ' + repr(err) if err else 'returned a message'}; injected: {frag[:160]!r}")
        part.outcome(("safe-evaluated", tag))
        return
    if err is not None:
        part.outcome(("safe-raises", type(err).__name__, tag.split(":")[0]))
        return
    try:
        got = msg.blocks[bname][idx][vn]
    except Exception:  # noqa
        got = None
    if _is_value(got, would) and tag.startswith("payload:"):
        part.violation("safe-mode-eval", site, witness, f"[{tag}] expression was evaluated to {got!r}")
        part.outcome(("safe-evaluated-value", tag))
    else:
        part.outcome(("safe-data", tag.split(":")[0], type(got).__name__))


# ------------------------------------------------------------------------------------------------------------------------
# driver
# ------------------------------------------------------------------------------------------------------------------------
def _work(unit):
    kind, arg = unit
    part = Part()
    ser, de = _codec()
    gen = _G
    if kind == "rows":
        rows_unit(part, gen, arg, ser, de)
    elif kind == "hdr":
        hdr_unit(part, gen, arg, ser, de)
    elif kind == "subfield":
        subfield_unit(part, gen, tuple(arg), ser, de)
    elif kind == "dense":
        dense_unit(part, tuple(arg))
    elif kind == "safe":
        safe_unit(part, gen, arg, ser, de)
    return part.dump()


def _setup(seed: int, quick: bool):
    global _G, _QUICK, _BASE_GEN
    _QUICK = quick
    _G = TGen(seed)
    _BASE_GEN = msggen.Gen(seed, finite_only=True)


def _order_for_display(run: Run, shown: int = 25):
    """Presentation only (no violation is added or dropped): hmc.core prints the first 25 distinct (clause, site) pairs and the
    mutant runner shows the tail of that.  With hundreds of open `:count0` sites the few safe-mode sites would never be printed,
    so order the list as: other sites (non-count0 first) up to 25 - K, then the K safe-mode sites, then everything else."""
    def key(v):
        return v["clause"], v["site"]
    safe = [v for v in run.violations if v["clause"] == "safe-mode-eval"]
    if not safe:
        return
    k = len({key(v) for v in safe})
    rest = [v for v in run.violations if v["clause"] != "safe-mode-eval"]
    rest.sort(key=lambda v: ":count0" in v["site"])  # stable: non-count0 first
    head, tail, seen = [], [], set()
    for v in rest:
        if key(v) in seen or len(seen) < max(0, shown - k):
            seen.add(key(v))
            head.append(v)
        else:
            tail.append(v)
    run.violations[:] = head + safe + tail


def run(run: Run):
    _setup(run.seed, run.tier == "quick")
    names = list(_G.templates)
    if len(names) < 480:
        raise RuntimeError("reference template parse found too few templates")
    int_keys, byte_keys, unreachable = serializer_keys()
    units = [("subfield", k) for k in byte_keys] + [("dense", k) for k in int_keys]
    units += [("rows", n) for n in names] + [("hdr", n) for n in msggen.HEADER_BASIS] + [("safe", n) for n in names]  # safe-mode last: see safe_site
    for d in pmap(_work, units, run.jobs, chunksize=1):
        run.merge(d)
    _order_for_display(run)
    covered = {k[len("beautified:"):] for k in run.counters if k.startswith("beautified:")}
    for k in [k for k in run.counters if k.startswith("beautified:")]:
        del run.counters[k]
    missing = [".".join(k) for k in int_keys + byte_keys if ".".join(k) not in covered]
    run.coverage_extra["templates"] = len(names)
    run.coverage_extra["subfield_serializers_registered"] = len(se.SUBFIELD_SERIALIZERS)
    run.coverage_extra["subfield_serializers_beautified_in_some_case"] = len(covered)
    run.coverage_extra["subfield_serializers_never_beautified"] = missing
    run.coverage_extra["subfield_serializers_unreachable_no_such_template_variable"] = [".".join(k) for k in unreachable]
    run.coverage_extra["torture_values"] = {"str": len(TORTURE_STR), "bytes": len(TORTURE_BYTES), "fixed": len(FIXED_PATTERNS)}
    if missing:
        run.notes.append("serializer keys for which no enumerated case produced a `=|` line: " + ", ".join(missing))
    run.rule = (
        "481 templates x (generator value rows + torture rows: every byte variable takes each of %d str / %d bytes / %d Fixed torture values"
        "%s; count variants; template-annotated form) x beautify{off,on} x replacements{none,matching,AGENT_ID-only,non-matching} x direction by row parity; "
        "14 basis templates x %s flag bytes x dropped/synthetic marks; 34 byte-payload subfield serializers x context x fill{00,FF,01,80,ramp} x "
        "length 0..256 filtered by the library's own pod decoder; %d integer subfield serializers x dense value sets (all 256 for 8-bit, %s for "
        "TimeDilation, bit patterns otherwise) x context; safe-mode: every template's row-0 text (plain+beautified) x %s variable(s) x "
        "(%d eval-operator rewrites + %d expression payloads x {=,=|}). distinct_nontrivial = distinct (template, row/variant, block counts, "
        "direction, marks) + (serializer key, context, payload shape) + beautified dense values" %
        (len(TORTURE_STR), len(TORTURE_BYTES), len(FIXED_PATTERNS), " (quick: every 4th torture row per template, without its zero-coded twin)" if _QUICK else "",
         "48 (low nibble in {0,1,15})" if _QUICK else "all 256", len(int_keys), "a 700-value subset" if _QUICK else "all 65536",
         "first+last" if _QUICK else "every", len(EVAL_OPS), len(PAYLOADS)))
    run.assumptions += [
        "messages are the ones the real decoder produces from generator datagrams (str for NUL-terminated UTF-8 text, JankStringyBytes "
        "otherwise, bytes for binary-looking names); datagrams the decoder rejects (zero-coded body above its 0x3000 cap) are out of domain",
        "floats are finite (the literal syntax has no inf/nan); subfield payloads whose pretty form contains a non-finite float are skipped and counted",
        "packet id, acks and the extra header bytes are carried only as comments by the text format, so the parsed message is given the "
        "original's before both are serialized (the property speaks about the body)",
        "`[[NAME]]` replacement lookups (including calling a callable replacement such as RANDOM_KEY) are the caller's data, not expressions "
        "of the text; the safe-mode clause therefore never writes `[[SENTINEL]]` as an unquoted value",
        "the dense integer enumeration compares the variable's packed wire bytes of a one-block message instead of a whole datagram "
        "(both functions treat variables independently apart from the current block, which is supplied)",
        "trusted: the template generator (hmc.msggen/refwire, validated by C01), UDPMessageSerializer/Deserializer as the encoder "
        "of both sides of the comparison, Python's ast.literal_eval",
    ]


# ------------------------------------------------------------------------------------------------------------------------
def _fix_case(c: dict) -> dict:
    c = dict(c)
    c["acks"] = tuple(c["acks"])
    c["blocks"] = [(b, rows) for b, rows in c["blocks"]]
    return c


def replay(w):
    _setup(int(w.get("seed", 0)), False)
    part = Part()
    ser, de = _codec()
    kind = w["kind"]
    if kind == "case":
        combos = [(bool(w["beautify"]), w["repl"])] if "beautify" in w else None
        check_case(part, _G, _fix_case(w["case"]), ser, de, combos=combos, direction=Direction[w.get("direction", "OUT")],
                   marks=tuple(w.get("marks", ())), with_template=bool(w.get("with_template")))
    elif kind == "subfield":
        check_subfield(part, _G, tuple(w["key"]), w["ctx_field"], w["ctx"], w["payload"], w["shape"], ser, de)
    elif kind == "dense":
        check_dense(part, tuple(w["key"]), w["ctx_field"], w["ctx"], w["value"], label=w.get("label"))
    elif kind == "safe":
        would = w.get("would")
        for label, expr, val in PAYLOADS:
            if w["site"].startswith(f"payload:{label}:"):
                would = val
        check_safe(part, w["site"], w["name"], w["text"], w["block"], w["index"], w["var"], would, w.get("fragment", ""))
    return list(part.viol.values())

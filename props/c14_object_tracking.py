"""C14 -- the tracked world stays self-consistent under any object update / kill history.

Explicit-state BFS (``hmc.explore.bfs``) over message histories delivered to a *real* proxy ``Session`` with real
``ProxiedRegion``/``ProxyObjectManager``/``ProxyWorldObjectManager`` objects (built as tests/proxy/test_object_manager.py
builds them, see ``hmc/worldharness.py``); every simulator message is serialized with ``UDPMessageSerializer`` and parsed
with ``UDPMessageDeserializer`` before it reaches ``session.message_handler`` / ``region.message_handler``.  asyncio is
the virtual loop of ``hmc/vloop.py`` (futures, the 0.2 s cache-miss debounce timer).  After every event the live indices
are compared with a plain-dict reference scene graph (``Ref``).

Universe: full IDs F0 (prim, announced by ObjectUpdate), F1 (prim, announced by ObjectUpdateCompressed and the object
the viewer object cache describes), F2 (avatar, ObjectUpdate); local IDs 1..3 per region; parents in {0, other locals};
1 or 2 regions, each can be torn down (``mark_dead``) and re-tracked (what UseCircuitCode + RegionHandshake do).
CRC 1 on the wire, CRC 2 in the viewer cache (one cache entry per local ID, so local IDs stay interchangeable).  The
viewer cache is a chain of two per-viewer caches (``_vo_chain``): the (local, CRC 2) entry sits behind an out-of-date
(local, CRC 3) entry of the first cache in every search ("stale-first"); profile "cache/<arrangement>" repeats the
cached-update events with the chain fresh-first, disjoint and with equal entries in both caches.  In searches with
cached-update events every teardown of a tracked region rewrites that region's cache file (CRC 2 <-> 4, same CacheID);
the re-track loads the current file through the real ``load_cache()``, and the simulator announces the current CRC.

Events (last element = scenario tag computed from the reference model; it names the violation site and carries the
deviation bit):
  ("A", r, f, l, p, tag)   ObjectUpdate / ObjectUpdateCompressed   tag new|same|reparent|relocal|move|return|late
  ("T", r, l, tag)         ImprovedTerseObjectUpdate               known|unknown|late
  ("C", r, l, crc, tag)    ObjectUpdateCached                      hit|miss|miss-stale|vohit-new|vohit-clobber|vohit-dup|late
  ("P", f, tag) ("PF", f, tag)  ObjectProperties / ObjectPropertiesFamily      known|unknown|limbo
  ("K", r, l, tag)         KillObject, one block                   known|unknown|orphanholder|late
  ("KM", r, a, b, "multi") KillObject, two blocks
  ("RQ", r, l, "-") ("RP", r, l, "-")   region.objects.request_objects / request_object_properties (at most 2 pending)
  ("TD", r, "-") ("RT", r, "-")         region.mark_dead() / open_circuit + track_region_objects + load_cache;
                           ("TD", r, "limbo") = mark_dead() of an untracked region whose handle limbo objects claim
  ("TICK", "-")            0.25 virtual seconds (fires the cache-miss debounce, which calls request_objects)
  ("Kx", r, l, "defer") ("TDx", r, "defer")   KillObject / mark_dead while a request is pending, and the next event
                           happens before the loop has run the done-callbacks of the futures just cancelled
Deviation = reparent, relocal, move, return, late, kill of an unknown local, multi kill, terse for an unknown local,
properties for an unknown/limbo object, cache hit that clobbers / duplicates, deferred done-callbacks.

Preconditions applied by ``enabled()`` from the reference model (the property's own): a local ID held by a live object
is never given to a different full ID; no parent cycle among live objects.  Symmetry: local IDs of a region are
introduced in increasing order (an unmentioned local is only offered if it is the lowest unmentioned one), region 1 is
only addressed after region 0 has been.  Multi-kills are offered for the local pairs (1,2),(2,1) only.

Where the reference model takes the code's documented side (the property statement does not settle these; nothing is
asserted about the choice itself, the model only needs *a* successor state):
  * cascading kills skip avatars (indra behaviour, tests/proxy test_hierarchy_avatar_not_killed): the seated avatar
    stays, still naming the killed local as parent (an orphan of it);
  * an update that moves a known object to a region handle that is not tracked leaves a "limbo" object in the session's
    full-ID index only (tests/proxy test_object_moved_to_bad_region, "same as indra"): the oracle requires exactly
    that -- the regionless object stays in the session's full-ID index (same LocalID / RegionHandle as last announced,
    counted by len / all_objects) although no region state owns it and the harness holds no reference to it (no Object is
    kept between events; gc.collect() before the oracle in such states); membership of the avatar view is not asserted
    for it.  It also requires that handlers keep working on them and that
    they are properly tracked again when an update brings them back to a tracked region, and that they are gone
    from every index once the region whose handle they claim is marked dead (tracked at that moment or not);
  * which update "answers" a request: a full/compressed update for (region, local) answers ``request_objects``,
    ObjectProperties(Family) for the object at (region, local) answers ``request_object_properties``; terse and cached
    updates are allowed to resolve UPDATE futures but not required to.
Oracle after every event (one clause per sentence; a later group is only evaluated when the earlier ones hold, so a
finding is reported at its root):
  no-handler-raises            nothing raised: exceptions swallowed by Event.notify are seen through a recorder that
                               stands in for events.LOG; direct API calls and loop callbacks are wrapped
  untracked-region-empty       a torn-down region holds no objects / orphans / missing locals
  local-index-vs-model         lookup_localid(l) (every region, every local) == model, incl. FullID/ParentID/RegionHandle
  full-index-vs-model          session lookup_fullid / all_objects / len and region lookup_fullid == model
  lookup-agreement             lookup_fullid(f) is the very object lookup_localid(l) returns
  children-vs-parent-links     ChildIDs (no duplicates) == tracked objects naming it as parent; Children pairwise == ChildIDs
  parent-link                  Parent is the tracked parent (live weak reference) / None when the parent is unknown
  orphan-held / orphans-exact  unknown parent => exactly once in _orphans[parent]; _orphans holds nothing else
  avatar-index-vs-model        all_avatars with an Object == live avatar objects (lookup by full ID through the avatar view)
  (missing_locals is internal bookkeeping the statement never mentions: "announced local still in missing_locals" and
   "unknown parent not in missing_locals" are recorded as observations -- outcome signature + coverage.observations --
   and are never violations; lead triage of former finding D6)
  future-cancelled-on-kill / future-done-on-untrack / future-done-on-region-clear / future-resolved-on-answer
  pending-future-registered    a pending future handed out by request_* is still in the region's _object_futures
Private state of the managers (orphan table, request-future registry, debounce timer, full-ID index, ...) is never
read by name in this module: hmc/worldharness.py locates it by known name first and by type/shape otherwise
(``orphan_map``, ``reachable_futures``), canon() uses a generic member-by-member dump (``generic_state``), and where
something cannot be located only the clause that needs it is dropped (orphan-held / orphans-exact; everything else is
stated through lookup_localid / lookup_fullid / all_objects / all_avatars / Object.Parent, ParentID, Children, ChildIDs
and the futures the harness holds).  Such misses are reported as coverage.introspection_fallbacks.
Sites name the handler of the event plus the scenario tag (or, for exceptions, the innermost library frame, exception
type and scenario tag), so findings with different causes do not share a key.

Search plan (``BOUNDS``): profile "graph" = {A, K, KM, TD, RT} only -- little auxiliary state, so the single-region
search runs until no new state appears; profile "requests" = request futures against announce / properties / kill /
teardown with one local ID (deep); profile "full" = every event, shallower because requests, properties,
missing locals and timers multiply the state.  Two-region searches use 2 local IDs per region.  The explorer does not
extend a history past a violation, so states that are only reachable through a reported defect are not explored.

Deviation from DESIGN: CRC is fixed per source instead of ranging over {1,2} on every message; the third region of the
design is dropped (each of the two regions can be torn down and re-tracked, which gives the same situations); depth 6
over the whole alphabet does not fit the budget (about 40-60 enabled events per state, 2.5-4 ms per transition because a
state is re-created by replaying its history on a fresh Session), hence the two profiles; measured rates are in the
evidence (``coverage.searches``).
"""
from __future__ import annotations

import gc
import os
from typing import Any, Dict, List, Optional

import lazy_object_proxy

from hippolyzer.lib.base.objects import Object
from hippolyzer.lib.base.templates import PCode
from hippolyzer.lib.client.object_manager import ObjectUpdateType
from hippolyzer.lib.proxy.vocache import ViewerObjectCacheEntry

from hmc import explore, introspect
from hmc import worldharness as wh
from hmc.core import Run

LEVEL = "model_checking"

NL = 3                      # local IDs per region
NF = 3                      # full IDs
AV = 2                      # index of the avatar full ID
MSG_KIND = ("ObjectUpdate", "ObjectUpdateCompressed", "ObjectUpdate")
MAX_PENDING = 2             # bound on simultaneously pending request futures (state-space bound, not a precondition)
SETTINGS = {"USE_VIEWER_OBJECT_CACHE": True, "AUTOMATICALLY_REQUEST_MISSING_OBJECTS": True}
DEV_TAGS = {"defer", "reparent", "relocal", "move", "return", "late", "unknown", "orphanholder", "multi", "limbo",
            "vohit-clobber", "vohit-dup"}

PROFILES = {
    # sub-alphabets: "graph" = scene-graph events only (small auxiliary state, searched deep);
    # "full" = everything (requests, properties, terse/cached updates, debounce timer)
    "graph": {"A", "K", "KM", "TD", "RT"},
    "full": {"A", "T", "C", "P", "PF", "K", "KM", "RQ", "RP", "TD", "RT", "TICK", "Kx", "TDx"},
    # "requests" = request futures against announce / properties / kill / teardown (+ deferred done-callbacks), run
    # with a single local ID so that it goes deep
    "requests": {"A", "P", "K", "Kx", "TD", "TDx", "RT", "RQ", "RP"},
    # "cache/<arrangement>" = announce / cached update / kill / teardown + re-track (which reloads the cache chain), run
    # once per arrangement of the two viewer caches; every other search uses the stale-first chain
    "cache": {"A", "C", "K", "TD", "RT"},
}

HANDLER = {
    "A0": "ClientWorldObjectManager._handle_object_update",
    "A1": "ClientWorldObjectManager._handle_object_update_compressed",
    "A2": "ClientWorldObjectManager._handle_object_update",
    "T": "ClientWorldObjectManager._handle_terse_object_update",
    "C": "ClientWorldObjectManager._handle_object_update_cached",
    "P": "ClientWorldObjectManager._handle_object_properties_generic",
    "PF": "ClientWorldObjectManager._handle_object_properties_generic",
    "K": "ClientWorldObjectManager._handle_kill_object",
    "KM": "ClientWorldObjectManager._handle_kill_object",
    "RQ": "ClientObjectManager.request_objects",
    "RP": "ClientObjectManager.request_object_properties",
    "TD": "BaseClientRegion.mark_dead",
    "TDx": "BaseClientRegion.mark_dead",
    "Kx": "ClientWorldObjectManager._handle_kill_object",
    "RT": "ClientWorldObjectManager.track_region_objects",
    "TICK": "ProxyObjectManager._request_missed_cached_objects",
}


VO_ARRANGEMENTS = ("stale-first", "fresh-first", "disjoint", "equal")


FRESH_CRC = (2, 4)      # CRC of the viewer-cache entries, by generation parity of the region's cache file


def _vo_chain(arrangement: str, gens: List[int]):
    """The viewer object cache of a region as a chain of TWO per-viewer caches (several viewers installed).  The entry the
    simulator's ObjectUpdateCached refers to is (local l, CRC c) -> F1 for every local l; depending on the arrangement
    the other cache holds an out-of-date entry for the same local (CRC 3, never announced), nothing relevant, or the same
    entry.  All four must behave alike: a (local, CRC) pair present in any cache of the chain is a hit.
    The viewer rewrites its cache file when a region goes away: c = FRESH_CRC[generation % 2], where ``gens[region]``
    counts the teardowns of that region (same CacheID); what is (re)loaded on a handshake is the *current* file."""
    def chain(region_index: int):
        crc = FRESH_CRC[gens[region_index] % 2]
        fresh = [ViewerObjectCacheEntry(local_id=l, crc=crc, data=wh.compressed_data(wh.FULLS[1], l, 0, crc))
                 for l in range(1, NL + 1)]
        stale = [ViewerObjectCacheEntry(local_id=l, crc=3, data=wh.compressed_data(wh.FULLS[1], l, 0, 3))
                 for l in range(1, NL + 1)]
        other = [ViewerObjectCacheEntry(local_id=l + 6, crc=crc, data=wh.compressed_data(wh.FULLS[1], l + 6, 0, crc))
                 for l in range(1, NL + 1)]
        return {"stale-first": [stale, fresh], "fresh-first": [fresh, stale], "disjoint": [other, fresh],
                "equal": [fresh, list(fresh)]}[arrangement]
    return chain


# =================================================================================================================
# reference model: a plain dict scene graph
# =================================================================================================================
class Ref:
    def __init__(self, nreg: int):
        self.nreg = nreg
        self.tracked = [True] * nreg
        self.gen = [0] * nreg                         # generation (parity) of the region's viewer cache file
        self.objs: Dict[int, Dict[str, int]] = {}     # full -> {r, l, p, crc}   live objects in tracked regions
        self.limbo: Dict[int, Dict[str, int]] = {}    # full -> {r, l, p}        moved to an untracked region handle
        self.hi = [0] * nreg                          # highest local ID mentioned so far, per region
        self.touched = [False] * nreg

    # ---- queries ----
    def at(self, r: int, l: int) -> Optional[int]:
        for f, o in self.objs.items():
            if o["r"] == r and o["l"] == l:
                return f
        return None

    def limbo_holds(self, r: int, l: int, f: int) -> bool:
        """A limbo object other than f was last announced under (r, l): it still owns that local ID."""
        return any(ff != f and o["r"] == r and o["l"] == l for ff, o in self.limbo.items())

    def children(self, r: int, l: int) -> List[int]:
        return sorted(o["l"] for o in self.objs.values() if o["r"] == r and o["p"] == l)

    def would_cycle(self, r: int, f: int, l: int, p: int) -> bool:
        if not p:
            return False
        pm = {o["l"]: o["p"] for ff, o in self.objs.items() if o["r"] == r and ff != f}
        pm[l] = p
        cur, n = p, 0
        while cur and cur in pm and n <= NL + 1:
            if cur == l:
                return True
            cur, n = pm[cur], n + 1
        return cur == l

    def mention(self, r: int, *locals_):
        self.touched[r] = True
        self.hi[r] = max([self.hi[r]] + [x for x in locals_ if x])

    def announce_tag(self, r: int, f: int, l: int, p: int) -> str:
        if not self.tracked[r]:
            return "late"
        o = self.objs.get(f)
        if o is None:
            return "return" if f in self.limbo else "new"
        if o["r"] != r:
            return "move"
        if o["l"] != l:
            return "relocal"
        return "same" if o["p"] == p else "reparent"

    # ---- transitions: each returns what the oracle should expect from this step ----
    def announce(self, r: int, f: int, l: int, p: int, crc: int) -> Dict[str, Any]:
        exp: Dict[str, Any] = {"must_done": []}
        self.mention(r, l, p)
        old = self.objs.get(f)
        if not self.tracked[r]:
            if old is not None:
                exp["must_done"].append((old["r"], old["l"], "future-done-on-untrack"))
                del self.objs[f]
                self.limbo[f] = {"r": r, "l": l, "p": p}
            elif f in self.limbo:
                self.limbo[f] = {"r": r, "l": l, "p": p}
            return exp
        if old is not None and (old["r"] != r or old["l"] != l):
            exp["must_done"].append((old["r"], old["l"], "future-done-on-untrack"))
        self.limbo.pop(f, None)
        self.objs[f] = {"r": r, "l": l, "p": p, "crc": crc}
        exp["answered"] = (r, l, int(ObjectUpdateType.UPDATE), f)
        exp["tracked_now"] = (r, l)
        if p and self.at(r, p) is None and not (old is not None and (old["r"], old["l"], old["p"]) == (r, l, p)):
            exp["orphan_parent"] = (r, p)     # (re)linked under an unknown parent in this step
        return exp

    def kill(self, r: int, locals_) -> Dict[str, Any]:
        exp: Dict[str, Any] = {"must_done": []}
        self.mention(r, *locals_)
        if not self.tracked[r]:
            return exp
        visited: List[int] = []

        def rec(l: int):
            if l in visited and self.at(r, l) is None:
                return
            visited.append(l)
            f = self.at(r, l)
            kids = [(ff, o["l"]) for ff, o in sorted(self.objs.items()) if o["r"] == r and o["p"] == l]
            for ff, kl in kids:
                if ff == AV:
                    continue        # indra / hippolyzer exempt avatars from the cascade
                rec(kl)
            if f is not None:
                del self.objs[f]

        for l in locals_:
            rec(l)
        exp["must_done"] = [(r, l, "future-cancelled-on-kill") for l in dict.fromkeys(visited)]
        return exp

    def teardown(self, r: int, rewrite_cache: bool = False):
        self.touched[r] = True
        if self.tracked[r] and rewrite_cache:
            self.gen[r] = (self.gen[r] + 1) % 2       # the viewer writes the region's cache file out again
        self.tracked[r] = False
        for f in [f for f, o in self.objs.items() if o["r"] == r]:
            del self.objs[f]
        for f in [f for f, o in self.limbo.items() if o["r"] == r]:
            del self.limbo[f]

    def canon(self):
        return (tuple(self.tracked), tuple(sorted((f, tuple(sorted(o.items()))) for f, o in self.objs.items())),
                tuple(sorted((f, tuple(sorted(o.items()))) for f, o in self.limbo.items())),
                tuple(self.hi), tuple(self.touched), tuple(self.gen))


# =================================================================================================================
class World:
    def __init__(self, nreg: int, vo: str = "stale-first"):
        self.ref = Ref(nreg)
        self.lw = wh.build_world(nreg, _vo_chain(vo, self.ref.gen), SETTINGS)
        self.futs: List[Dict[str, Any]] = []       # futures handed to the harness by request_* (still pending)
        self.loop_excs: List[BaseException] = []
        self.lw.loop.set_exception_handler(lambda loop, ctx: self.loop_excs.append(ctx.get("exception")
                                                                                    or RuntimeError(ctx.get("message"))))
        self.violations: List[Dict[str, Any]] = []
        self.notes: List[str] = []                 # observations of the last step (not violations)
        self.deferred = False                      # done-callbacks of cancelled futures have not run yet


def _pending_futures(w: World, r: int):
    """[(future, (local, type) or None)] not done, for region r: what the region state can still reach (found
    generically, see worldharness.reachable_futures) plus the futures handed to the harness, whose key is known."""
    out = {}
    for fut, key in wh.reachable_futures(wh.region_state(w.lw.regions[r])):
        if not fut.done():
            out[id(fut)] = [fut, key]
    for x in w.futs:
        if x["r"] == r and not x["fut"].done():
            e = out.setdefault(id(x["fut"]), [x["fut"], None])
            e[1] = (x["l"], x["t"])
    return [(f, k) for f, k in out.values()]


def _registered(w: World, r: int):
    """ids of the futures the region state of region r can still reach."""
    return {id(f) for f, _ in wh.reachable_futures(wh.region_state(w.lw.regions[r]))}


def _core(ev):
    return tuple(ev[:-1])


class Harness:
    copyable = False

    def __init__(self, nreg: int, profile: str = "full", nl: int = NL):
        self.nreg = nreg
        self.nl = nl              # local IDs offered per region (the oracle always inspects all NL)
        self.profile = profile
        # "cache/<arrangement>": the arrangement of the two-cache viewer object cache chain (default stale-first)
        base, _, vo = profile.partition("/")
        self.vo = vo or "stale-first"
        self.kinds = PROFILES[base]
        # searches without cached-update events keep one cache generation (it could not be observed there)
        self.rewrites_cache = "C" in self.kinds

    def fresh(self) -> World:
        return World(self.nreg, self.vo)

    def deviation(self, ev) -> int:
        return 1 if ev[-1] in DEV_TAGS else 0

    # ---- menu ---------------------------------------------------------------------------------------------------
    def _pending(self, w: World) -> int:
        return sum(len(_pending_futures(w, r)) for r in range(self.nreg))

    def enabled(self, w: World):
        return [e for e in self._menu(w) if e[0] in self.kinds]

    def _menu(self, w: World):
        m = w.ref
        evs: List[tuple] = []
        pending = self._pending(w)
        for r in range(self.nreg):
            if r > 0 and not m.touched[0]:
                continue        # region symmetry
            top = min(self.nl, m.hi[r] + 1)
            if m.tracked[r]:
                for f in range(NF):
                    for l in range(1, top + 1):
                        if m.at(r, l) not in (None, f) or m.limbo_holds(r, l, f):
                            continue                      # a live local ID is never given to a second full ID
                        ptop = min(self.nl, max(m.hi[r], l) + 1)
                        for p in range(0, ptop + 1):
                            if p == l or m.would_cycle(r, f, l, p):
                                continue                  # no parent cycle
                            evs.append(("A", r, f, l, p, m.announce_tag(r, f, l, p)))
                for l in range(1, top + 1):
                    holder = m.at(r, l)
                    evs.append(("T", r, l, "known" if holder is not None else "unknown"))
                    for crc in (1, FRESH_CRC[m.gen[r]]):
                        tag = self._cached_tag(m, r, l, crc)
                        if tag is not None:
                            evs.append(("C", r, l, crc, tag))
                    if holder is not None:
                        ktag = "known"
                    else:
                        ktag = "orphanholder" if m.children(r, l) else "unknown"
                    evs.append(("K", r, l, ktag))
                    if pending:
                        evs.append(("Kx", r, l, "defer"))
                    if l <= 2 and pending < MAX_PENDING:
                        evs.append(("RQ", r, l, "-"))
                        evs.append(("RP", r, l, "-"))
                if top >= 2:
                    evs.append(("KM", r, 1, 2, "multi"))
                    evs.append(("KM", r, 2, 1, "multi"))
                evs.append(("TD", r, "-"))
                if pending:
                    evs.append(("TDx", r, "defer"))
            else:
                for f in range(NF):
                    if f not in m.objs and f not in m.limbo:
                        continue      # an update for an unknown object and an unknown region is dropped at once
                    for l in range(1, top + 1):
                        ptop = min(self.nl, max(m.hi[r], l) + 1)
                        for p in range(0, ptop + 1):
                            if p != l:
                                evs.append(("A", r, f, l, p, "late"))
                if any(o["r"] == r for o in m.limbo.values()):
                    # mark_dead() for a region that is registered but not (or no longer) tracked while objects claim
                    # its handle: they go away with it
                    evs.append(("TD", r, "limbo"))
                evs.append(("T", r, 1, "late"))
                evs.append(("C", r, 1, 1, "late"))
                evs.append(("K", r, 1, "late"))
                evs.append(("RT", r, "-"))
        unknown_done = False
        for f in range(NF):
            tag = "known" if f in m.objs else ("limbo" if f in m.limbo else "unknown")
            if tag == "unknown":
                if unknown_done:
                    continue      # properties for an unknown object are dropped at once: one representative
                unknown_done = True
            evs.append(("P", f, tag))
            if f == 1 and tag != "unknown":
                evs.append(("PF", f, tag))
        if w.lw.loop.pending_timers():
            evs.append(("TICK", "-"))
        return evs

    @staticmethod
    def _cached_tag(m: Ref, r: int, l: int, crc: int) -> Optional[str]:
        holder = m.at(r, l)
        if holder is not None and m.objs[holder]["crc"] == crc:
            return "hit"
        if crc == 1:
            return "miss" if holder is None else "miss-stale"
        # the CRC of the current cache file: the viewer cache says local l is F1
        if holder not in (None, 1) or m.limbo_holds(r, l, 1):
            return None         # would hand a live local ID to a second full ID
        if holder == 1:
            return "vohit-clobber"
        return "vohit-dup" if (1 in m.objs or 1 in m.limbo) else "vohit-new"

    # ---- one transition -----------------------------------------------------------------------------------------
    def step(self, w: World, ev):
        ev = tuple(ev)
        kind, tag = ev[0], ev[-1]
        lw, m = w.lw, w.ref
        lw.recorder.raised.clear()
        w.loop_excs.clear()
        w.notes = []
        raised: List[Dict[str, str]] = []
        exp: Dict[str, Any] = {"must_done": []}
        hkey = kind
        prior_futs = list(w.futs)
        self._prebuild(ev)       # serializer trouble is a harness error, not a finding
        try:
            if kind == "A":
                _, r, f, l, p, _ = ev
                hkey = f"A{f}"
                pcode = PCode.AVATAR if f == AV else PCode.PRIMITIVE
                data = wh.wire(MSG_KIND[f], wh.HANDLES[r], wh.FULLS[f], l, p, pcode, 1)
                wh.deliver(lw, lw.regions[r], data)
                exp = m.announce(r, f, l, p, 1)
            elif kind == "T":
                _, r, l, _ = ev
                wh.deliver(lw, lw.regions[r], wh.wire("ImprovedTerseObjectUpdate", wh.HANDLES[r], l))
                m.mention(r, l)
            elif kind == "C":
                _, r, l, crc, _ = ev
                wh.deliver(lw, lw.regions[r], wh.wire("ObjectUpdateCached", wh.HANDLES[r], l, crc))
                if tag.startswith("vohit"):
                    exp = m.announce(r, 1, l, 0, crc)
                    exp.pop("answered", None)     # a cache probe is not the reply to RequestMultipleObjects
                else:
                    m.mention(r, l)
            elif kind in ("P", "PF"):
                _, f, _ = ev
                name = "ObjectProperties" if kind == "P" else "ObjectPropertiesFamily"
                o = m.objs.get(f)
                # properties arrive on the circuit of the region the object lives in (region 0 if there is none)
                r = o["r"] if o else 0
                wh.deliver(lw, lw.regions[r], wh.wire(name, wh.FULLS[f]))
                if o:
                    exp["answered"] = (o["r"], o["l"], int(ObjectUpdateType.PROPERTIES), f)
            elif kind in ("K", "Kx"):
                _, r, l, _ = ev
                wh.deliver(lw, lw.regions[r], wh.wire("KillObject", l))
                exp = m.kill(r, (l,))
            elif kind == "KM":
                _, r, a, b, _ = ev
                wh.deliver(lw, lw.regions[r], wh.wire("KillObject", a, b))
                exp = m.kill(r, (a, b))
            elif kind in ("RQ", "RP"):
                _, r, l, _ = ev
                m.mention(r, l)
                objs = lw.regions[r].objects
                if kind == "RQ":
                    futs, t = objs.request_objects(l), ObjectUpdateType.UPDATE
                else:
                    futs, t = objs.request_object_properties(l), ObjectUpdateType.PROPERTIES
                for fut in futs:
                    w.futs.append({"r": r, "l": l, "t": int(t), "fut": fut})
            elif kind in ("TD", "TDx"):
                _, r, _ = ev
                lw.regions[r].mark_dead()
                m.teardown(r, rewrite_cache=self.rewrites_cache)
            elif kind == "RT":
                _, r, _ = ev
                wh.connect_region(lw, lw.regions[r])
                m.touched[r] = True
                m.tracked[r] = True
            elif kind == "TICK":
                lw.loop.advance(0.25)
            else:
                raise KeyError(kind)
        except Exception as e:  # an API call raised directly (message handlers never do: Event.notify swallows)
            raised.append({"site": wh.exception_site(e), "detail": f"{HANDLER[hkey]} raised {e!r}"})
        if tag == "defer":
            # the caller goes on (next event) before the loop gets to run the done-callbacks of the futures this event
            # cancelled, e.g. code that re-opens the region and re-requests from the path that saw the region drop
            w.deferred = True
        elif w.deferred and kind == "RT":
            pass                # still the same synchronous code path: the loop has not run yet
        else:
            lw.loop.run_ready()
            w.deferred = False
        raised.extend(lw.recorder.raised)
        for e in w.loop_excs:
            raised.append({"site": wh.exception_site(e), "detail": f"loop callback raised {e!r}"})
        site = f"{HANDLER[hkey]}[{tag}]" if tag != "-" else HANDLER[hkey]
        if raised:
            # root cause first: once a handler has died half-way the indices are expected to be off
            for x in raised:
                w.violations.append({"clause": "no-handler-raises", "site": f"{x['site']}[{tag}]",
                                     "detail": f"event {list(ev)}: {x['detail']}"})
            w.futs = [x for x in w.futs if not x["fut"].done()]
            return
        if m.limbo:
            # nothing outside the library may keep a regionless object alive while the oracle looks.  An Object has no
            # strong cycles (Parent / Children are weak proxies), so reference counting frees it at once; a young-
            # generation pass is added for good measure (full collections here cost +60 % CPU on the quick tier).
            gc.collect(0)
        self.oracle(w, ev, exp, site, prior_futs)
        w.futs = [x for x in w.futs if not x["fut"].done()]

    @staticmethod
    def _prebuild(ev):
        kind = ev[0]
        if kind == "A":
            _, r, f, l, p, _ = ev
            wh.wire(MSG_KIND[f], wh.HANDLES[r], wh.FULLS[f], l, p, PCode.AVATAR if f == AV else PCode.PRIMITIVE, 1)
        elif kind == "T":
            wh.wire("ImprovedTerseObjectUpdate", wh.HANDLES[ev[1]], ev[2])
        elif kind == "C":
            wh.wire("ObjectUpdateCached", wh.HANDLES[ev[1]], ev[2], ev[3])
        elif kind == "P":
            wh.wire("ObjectProperties", wh.FULLS[ev[1]])
        elif kind == "PF":
            wh.wire("ObjectPropertiesFamily", wh.FULLS[ev[1]])
        elif kind in ("K", "Kx"):
            wh.wire("KillObject", ev[2])
        elif kind == "KM":
            wh.wire("KillObject", ev[2], ev[3])

    # ---- oracle -------------------------------------------------------------------------------------------------
    def oracle(self, w: World, ev, exp, site: str, prior_futs):
        lw, m = w.lw, w.ref
        tag = ev[-1]

        def bad(clause, site_, detail):
            w.violations.append({"clause": clause, "site": site_, "detail": f"event {list(ev)}: {detail}"})

        sess = lw.session.objects
        n0 = len(w.violations)
        link_checks: List[Any] = []
        for r in range(self.nreg):
            region = lw.regions[r]
            st = wh.region_state(region)
            if not m.tracked[r]:
                pend = len(_pending_futures(w, r))
                held_locals = sorted(o.LocalID for o in region.objects.all_objects)
                orphans = wh.orphan_map(st)
                if held_locals or orphans or region.objects.missing_locals:
                    bad("untracked-region-empty", site,
                        f"region {r} is torn down but holds locals={held_locals} "
                        f"orphans={dict(orphans or {})} missing={sorted(region.objects.missing_locals)}")
                if pend:
                    bad("future-done-on-region-clear", "RegionObjectsState.clear",
                        f"{pend} request future(s) still pending in torn-down region {r}")
                continue
            # -- local-ID index against the model
            for l in range(1, NL + 1):
                f = m.at(r, l)
                o = region.objects.lookup_localid(l)
                if (o is None) != (f is None):
                    bad("local-index-vs-model", site,
                        f"region {r} local {l}: model has {'F%d' % f if f is not None else 'nothing'}, "
                        f"lookup_localid gives {o.FullID if o is not None else None}")
                    continue
                if o is None:
                    continue
                mo = m.objs[f]
                if o.FullID != wh.FULLS[f] or o.LocalID != l or (o.ParentID or 0) != mo["p"] \
                        or o.RegionHandle != wh.HANDLES[r]:
                    bad("local-index-vs-model", site,
                        f"region {r} local {l}: model F{f} parent {mo['p']}; object has FullID={o.FullID} "
                        f"LocalID={o.LocalID} ParentID={o.ParentID} RegionHandle={o.RegionHandle}")
                    continue
                link_checks.append((r, l, o))
            held_locals = sorted(o.LocalID for o in region.objects.all_objects)
            extra = sorted(set(held_locals) - set(range(1, NL + 1)))
            if extra or len(region.objects) != len([1 for o in m.objs.values() if o["r"] == r]) \
                    or len(held_locals) != len(region.objects):
                bad("local-index-vs-model", site, f"region {r}: all_objects has local IDs {held_locals}")
        # -- full-ID index against the model, and agreement of the two lookups
        for f in range(NF):
            so = sess.lookup_fullid(wh.FULLS[f])
            mo = m.objs.get(f)
            if f in m.limbo:
                # announced, never killed, moved to a handle that is not tracked: the library's documented (and tested)
                # choice is to keep it as a regionless entry of the session-wide index -- it must still be there, as the
                # same record, when nobody but the library holds on to it (the harness keeps no Object between events)
                lo = m.limbo[f]
                if so is None:
                    bad("full-index-vs-model", site,
                        f"F{f} was moved to untracked region {lo['r']} (local {lo['l']}) and never killed, but the "
                        f"session lookup_fullid no longer knows it")
                elif (so.RegionHandle, so.LocalID) != (wh.HANDLES[lo["r"]], lo["l"]):
                    bad("full-index-vs-model", site,
                        f"F{f} (regionless, last announced as local {lo['l']} of region {lo['r']}) is indexed with "
                        f"LocalID={so.LocalID} RegionHandle={so.RegionHandle}")
                so = None
                continue
            if (so is None) != (mo is None):
                bad("full-index-vs-model", site,
                    f"F{f}: model {'live at %r' % (mo,) if mo else 'not tracked'}, session lookup_fullid gives "
                    f"{None if so is None else (so.LocalID, so.RegionHandle)}")
                continue
            for r in range(self.nreg):
                ro = lw.regions[r].objects.lookup_fullid(wh.FULLS[f])
                want = mo is not None and mo["r"] == r and m.tracked[r]
                if (ro is not None) != want:
                    bad("full-index-vs-model", site,
                        f"F{f}: region {r} lookup_fullid gives {None if ro is None else ro.LocalID}, "
                        f"model says {'live here' if want else 'not in this region'}")
            if so is not None:
                lo = lw.regions[mo["r"]].objects.lookup_localid(mo["l"])
                if lo is not None and lo is not so:
                    bad("lookup-agreement", site,
                        f"F{f}: lookup_fullid and lookup_localid({mo['l']}) in region {mo['r']} return different "
                        f"Object instances (full-ID side LocalID={so.LocalID} RegionHandle={so.RegionHandle})")
        n_all = len(list(sess.all_objects))
        n_model = len(m.objs) + len(m.limbo)
        if n_all != n_model or len(sess) != n_model:
            bad("full-index-vs-model", site,
                f"session tracks {n_all} objects, model {len(m.objs)} live + {len(m.limbo)} regionless")
        if len(w.violations) > n0:
            return      # the set of tracked objects is already wrong: link/orphan/future findings would be consequences
        # -- parent/child links and the orphan table
        for r, l, o in link_checks:
            self._check_links(w, r, l, o, bad, site)
        for r in range(self.nreg):
            if not m.tracked[r]:
                continue
            orphans = wh.orphan_map(wh.region_state(lw.regions[r]))
            for parent, lst in sorted((orphans or {}).items()):
                for l in lst:
                    f = m.at(r, l)
                    if f is None or m.objs[f]["p"] != parent or m.at(r, parent) is not None or lst.count(l) != 1:
                        bad("orphans-exact", site,
                            f"region {r}: _orphans[{parent}]={lst} but model says local {l} is "
                            f"{'not tracked' if f is None else 'F%d with parent %d' % (f, m.objs[f]['p'])}"
                            f"{', and the parent is tracked' if m.at(r, parent) is not None else ''}")
        # -- avatar view (lookup by full ID through all_avatars)
        if AV not in m.limbo:
            avs = [a for a in sess.all_avatars if a.Object is not None]
            want = [AV] if AV in m.objs else []
            got = sorted(wh.FULLS.index(a.FullID) for a in avs if a.FullID in wh.FULLS)
            if got != want:
                bad("avatar-index-vs-model", "ClientWorldObjectManager._rebuild_avatar_objects" + f"[{ev[0]}:{tag}]",
                    f"all_avatars with an Object: {['F%d' % x for x in got]}, model live avatars {['F%d' % x for x in want]}")
            elif want:
                a = avs[0]
                if a.Object is not sess.lookup_fullid(wh.FULLS[AV]) or a.RegionHandle != wh.HANDLES[m.objs[AV]["r"]]:
                    bad("avatar-index-vs-model", "ClientWorldObjectManager._rebuild_avatar_objects" + f"[{ev[0]}:{tag}]",
                        f"Avatar.Object / RegionHandle ({a.RegionHandle}) disagree with the tracked avatar object "
                        f"(model region {m.objs[AV]['r']})")
        # -- missing_locals: internal bookkeeping the property statement never mentions. Observed (part of the outcome
        #    signature, demonstration in coverage.observations), never a violation.
        w.notes = []
        if "tracked_now" in exp:
            r, l = exp["tracked_now"]
            if l in lw.regions[r].objects.missing_locals:
                w.notes.append("announced-local-still-in-missing_locals")
        if "orphan_parent" in exp:
            r, p = exp["orphan_parent"]
            if p not in lw.regions[r].objects.missing_locals:
                w.notes.append("unknown-parent-not-in-missing_locals")
        # -- request futures (found generically: whatever the region state can still reach + what the harness holds)
        for r in range(self.nreg):
            reg_ids = None
            for x in w.futs:
                if x["r"] != r or x["fut"].done():
                    continue
                if reg_ids is None:
                    reg_ids = _registered(w, r)
                if id(x["fut"]) not in reg_ids:
                    bad("pending-future-registered", f"RegionObjectsState.register_future[{ev[0]}:{tag}]",
                        f"a pending {ObjectUpdateType(x['t']).name} future for local {x['l']} of region {x['r']} is no "
                        f"longer reachable from the region state: nothing can resolve or cancel it any more")
        for r, l, clause in exp.get("must_done", ()):
            left = sorted({(k[0], k[1]) for f, k in _pending_futures(w, r) if k is not None and k[0] == l},
                          key=repr)
            if left:
                fsite = "RegionObjectsState.cancel_futures" + (f"[{ev[0]}:{tag}]")
                bad(clause, fsite,
                    f"local {l} of region {r} went away but futures "
                    f"{[(a, ObjectUpdateType(b).name if b else '?') for a, b in left]} are still pending")
        if "answered" in exp:
            r, l, t, f = exp["answered"]
            reg_ids = _registered(w, r)
            left = [fut for fut, k in _pending_futures(w, r) if k is not None and k[0] == l and k[1] in (t, None)]
            rsite = f"RegionObjectsState.resolve_futures[{ev[0]}:{tag}]"
            if any(id(fut) in reg_ids for fut in left):
                bad("future-resolved-on-answer", rsite,
                    f"{ObjectUpdateType(t).name} reply for local {l} of region {r} arrived, "
                    f"{sum(1 for fut in left if id(fut) in reg_ids)} future(s) for it still pending")
            for x in prior_futs:
                if (x["r"], x["l"], x["t"]) != (r, l, t) or x["fut"].cancelled():
                    continue
                if not x["fut"].done():
                    continue        # reported above (still registered) or by pending-future-registered
                res = x["fut"].result()
                if res is None or res.FullID != wh.FULLS[f] or res.LocalID != l:
                    bad("future-resolved-on-answer", rsite,
                        f"future for local {l} resolved with {None if res is None else (res.FullID, res.LocalID)}, "
                        f"expected F{f}")

    def _check_links(self, w: World, r: int, l: int, o, bad, site: str):
        m = w.ref
        region = w.lw.regions[r]
        try:
            child_ids = list(o.ChildIDs)
            children = [(c.LocalID, c.FullID) for c in o.Children]
        except ReferenceError:
            bad("children-vs-parent-links", site, f"region {r} local {l}: Children holds a dead weak reference")
            return
        want = m.children(r, l)
        if sorted(child_ids) != want or len(set(child_ids)) != len(child_ids):
            bad("children-vs-parent-links", site,
                f"region {r} local {l}: ChildIDs={child_ids}, tracked objects naming it as parent={want}")
        elif [c[0] for c in children] != child_ids or any(
                region.objects.lookup_localid(cl) is None or region.objects.lookup_localid(cl).FullID != cf
                for cl, cf in children):
            bad("children-vs-parent-links", site,
                f"region {r} local {l}: Children {[c[0] for c in children]} and ChildIDs {child_ids} disagree")
        p = m.objs[m.at(r, l)]["p"]
        try:
            par = o.Parent
            par_id = None if par is None else (par.LocalID, par.FullID)
        except ReferenceError:
            bad("parent-link", site, f"region {r} local {l}: Parent is a dead weak reference")
            return
        pf = m.at(r, p) if p else None
        if pf is not None:
            po = region.objects.lookup_localid(p)
            if par_id is None or par_id != (p, wh.FULLS[pf]) or po is None or l not in po.ChildIDs:
                bad("parent-link", site,
                    f"region {r} local {l}: model parent is local {p} (F{pf}); Parent={par_id}, "
                    f"parent's ChildIDs={None if po is None else po.ChildIDs}")
        else:
            if par_id is not None:
                bad("parent-link", site, f"region {r} local {l}: parent {p} is not tracked but Parent={par_id}")
            if p:
                orphans = wh.orphan_map(wh.region_state(region))
                if orphans is None:
                    # the orphan table cannot be located in this tree: the clause is dropped (counted), adoption is
                    # still checked through Parent / Children when the parent appears
                    introspect.note_fallback("orphan-held clause dropped")
                else:
                    held = orphans.get(p, [])
                    if list(held).count(l) != 1:
                        bad("orphan-held", site,
                            f"region {r} local {l} names unknown parent {p} but the orphan table has {p}: {list(held)}")

    # ---- canonical state ----------------------------------------------------------------------------------------
    def canon(self, w: World):
        """Reference model + implementation state.  The implementation part is a generic dump (no field names): the
        region object managers and the world object manager member by member (worldharness.generic_state), plus every
        public field of the tracked Objects."""
        lw = w.lw
        now = lw.loop.time()
        parts: List[Any] = [w.ref.canon()]
        for r, region in enumerate(lw.regions):
            objs = tuple((o.LocalID, _obj_sig(o)) for o in sorted(region.objects.all_objects, key=lambda o: o.LocalID))
            parts.append((objs, wh.generic_state(region.objects, now),
                          bool(region.circuit and region.circuit.is_alive)))
        parts.append(wh.generic_state(lw.session.objects, now))
        parts.append(tuple(sorted((x["r"], x["l"], x["t"]) for x in w.futs if not x["fut"].done())))
        parts.append(lw.loop.pending_timers())
        parts.append((len(lw.loop._ready), w.deferred))
        return tuple(parts)

    def nontrivial(self, w: World, hist):
        m = w.ref
        links = any(o["p"] for o in m.objs.values())
        if links or m.limbo or w.futs or not all(m.tracked):
            return self.canon(w)
        return None

    def observe(self, w: World):
        m = w.ref
        return (m.canon()[:3], tuple(tuple(sorted((k, tuple(v)) for k, v in (wh.orphan_map(wh.region_state(reg)) or {}).items()))
                                     for reg in w.lw.regions),
                tuple(tuple(sorted(reg.objects.missing_locals)) for reg in w.lw.regions),
                tuple(sorted((x["r"], x["l"], x["t"]) for x in w.futs)), bool(w.violations), tuple(w.notes))


_SIG_FIELDS = tuple(k for k in Object.__fields__ if k not in ('Parent', 'Children'))


def _obj_sig(o):
    """Every non-lazy field of the tracked Object (lazy TextureEntry proxies compare by identity in update_properties,
    so their content cannot influence a later transition)."""
    try:
        kids = tuple(c.LocalID for c in o.Children)
    except ReferenceError:
        kids = "DEAD"
    try:
        par = None if o.Parent is None else o.Parent.LocalID
    except ReferenceError:
        par = "DEAD"
    fields = []
    for k in _SIG_FIELDS:
        v = getattr(o, k)
        t = type(v)
        if v is None or t is int or t is str or t is bytes or t is float:
            fields.append(v)
        elif isinstance(v, int):            # IntEnum / IntFlag: repr() of a flag set is slow
            fields.append(int(v))
        elif isinstance(v, lazy_object_proxy.Proxy):
            fields.append("~")
        else:
            fields.append(repr(v))
    fields = tuple(fields)
    return (fields, kids, par)


# =================================================================================================================
def _retagged_replay(h: Harness, cores, want=None):
    """Replay event cores (tags recomputed from the model). Returns the violations of the last step or None if some
    event is not enabled."""
    w = h.fresh()
    for core in cores:
        match = [e for e in h.enabled(w) if _core(e) == tuple(core)]
        if not match:
            return None, None
        w.violations = []
        h.step(w, match[0])
        last = match[0]
    return w, last


def _minimise(h: Harness, history, clause: str, site: str):
    cores = [_core(tuple(e)) for e in history]

    def fails(cs):
        w, _ = _retagged_replay(h, cs)
        return w is not None and any(v["clause"] == clause and v["site"] == site for v in w.violations)

    if not fails(cores):
        return history
    changed = True
    while changed:
        changed = False
        for i in range(len(cores) - 2, -1, -1):
            cand = cores[:i] + cores[i + 1:]
            if cand and fails(cand):
                cores, changed = cand, True
                break
    # write the history back with its tags
    w = h.fresh()
    out = []
    for core in cores:
        ev = [e for e in h.enabled(w) if _core(e) == tuple(core)][0]
        h.step(w, ev)
        out.append(list(ev))
    return out


def _observations():
    """Demonstrations of the missing_locals observations (not violations), re-evaluated on the tree under test."""
    out = []
    for name, cores in (
            ("announced-local-still-in-missing_locals",
             [("C", 0, 1, 2), ("C", 0, 1, 1), ("A", 0, 1, 1, 0)]),):    # cache hit, stale-CRC miss, full update
        w, last = _retagged_replay(Harness(1, "full"), cores)
        out.append({"observation": name, "history": [list(c) for c in cores],
                    "seen_on_this_tree": bool(w is not None and name in w.notes)})
    return out


BOUNDS = {
    # tier: [(profile, regions, locals per region, depth, deviation bound)]
    "quick": [("graph", 1, 3, 5, 2), ("graph", 2, 2, 4, 2), ("full", 1, 3, 3, 2), ("full", 2, 2, 3, 2),
              ("requests", 1, 1, 8, 3), ("requests", 1, 2, 4, 2),
              ("cache/fresh-first", 1, 2, 4, 2), ("cache/disjoint", 1, 2, 4, 2), ("cache/equal", 1, 2, 4, 2)],
    "thorough": [("graph", 1, 3, 14, 3), ("graph", 2, 2, 6, 3), ("full", 1, 3, 4, 3), ("full", 1, 2, 5, 2),
                 ("full", 2, 2, 4, 2), ("requests", 1, 1, 10, 3), ("requests", 1, 2, 5, 2),
                 ("cache/stale-first", 1, 3, 5, 3), ("cache/fresh-first", 1, 3, 5, 3), ("cache/disjoint", 1, 3, 5, 3),
                 ("cache/equal", 1, 3, 5, 3)],
}


# ---- scale family: many distinct unknown parents at once (a BFS over 3 local IDs cannot get there) ----------------------------
FLOOD_SIZES = {"quick": [1, 99, 100, 101, 255, 256, 257, 1023, 1024, 1025], "thorough": [1, 99, 100, 101, 255, 256, 257, 1023, 1024, 1025, 4095, 4096, 4097, 20000]}


def _flood_case(n: int):
    """One closed-form history in region 0: child c (local 10) of unknown parent p (local 20); then n further prims (locals 1000+i), each
    naming its own never-seen parent (locals 500000+i); then p, the first flood parent and the last flood parent are announced.  However many
    parents are being waited for, an orphan is held until its parent appears, is then adopted (both directions), and a kill of the
    parent takes the adopted child with it.  Only public lookups are used."""
    from hmc.core import Part
    from hippolyzer.lib.base.datatypes import UUID
    import logging
    logging.getLogger("hippolyzer").setLevel(logging.CRITICAL)  # the library warns once per orphan above 100
    part = Part()
    part.count("evaluations")
    part.count("flood_scenarios")
    wit = {"family": "flood", "n": n}
    site = f"flood[n={n}]"
    lw = wh.build_world(1, _vo_chain("stale-first", [0]), SETTINGS)
    region = lw.regions[0]
    H = wh.HANDLES[0]

    def announce(local, parent, full_int):
        data = bytes(wh._SER.serialize(wh._build("ObjectUpdate", H, UUID(int=full_int), local, parent, PCode.PRIMITIVE, 1)))
        wh.deliver(lw, region, data)

    def expect_link(child_l, parent_l, when):
        c = region.objects.lookup_localid(child_l)
        p_ = region.objects.lookup_localid(parent_l)
        if c is None or p_ is None:
            part.violation("local-index-vs-model", site, wit, f"{when}: lookup_localid({child_l})={c is not None}, lookup_localid({parent_l})={p_ is not None}; both were announced and not killed")
            return False
        ok = True
        if c.Parent is None or c.Parent.LocalID != parent_l:
            part.violation("parent-link", site, wit, f"{when}: local {child_l} names parent {parent_l}, which is tracked, but Parent={c.Parent!r}")
            ok = False
        if list(p_.ChildIDs).count(child_l) != 1:
            part.violation("children-vs-parent-links", site, wit, f"{when}: parent {parent_l} ChildIDs={list(p_.ChildIDs)[:5]} should hold {child_l} exactly once")
            ok = False
        return ok

    try:
        announce(10, 20, 0xC0000)
        for i in range(n):
            announce(1000 + i, 500000 + i, 0xD00000 + i)
        lw.loop.run_ready() if hasattr(lw.loop, "run_ready") else None
        # everything announced is tracked, parents unknown
        missing = [l for l in [10] + [1000 + i for i in range(n)] if region.objects.lookup_localid(l) is None]
        if missing:
            part.violation("local-index-vs-model", site, wit, f"{len(missing)} announced objects are not tracked, e.g. local {missing[0]}")
        if len(lw.session.objects) != n + 1:
            part.violation("full-index-vs-model", site, wit, f"len(session.objects)={len(lw.session.objects)}, announced {n + 1}")
        announce(20, 0, 0xB0000)
        expect_link(10, 20, "parent of the oldest orphan appears")
        if n:
            announce(500000, 0, 0xB0001)
            expect_link(1000, 500000, "first flood parent appears")
            if n > 1:
                announce(500000 + n - 1, 0, 0xB0002)
                expect_link(1000 + n - 1, 500000 + n - 1, "last flood parent appears")
        wh.deliver(lw, region, bytes(wh._SER.serialize(wh._build("KillObject", 20))))
        if region.objects.lookup_localid(20) is not None or region.objects.lookup_localid(10) is not None:
            part.violation("local-index-vs-model", site, wit, f"KillObject(20): parent still tracked={region.objects.lookup_localid(20) is not None}, "
                                                               f"its child 10 still tracked={region.objects.lookup_localid(10) is not None} (a kill removes the descendants)")
        for exc in list(lw.recorder.raised):
            part.violation("no-handler-raises", site, wit, f"swallowed exception: {exc!r}"[:300])
            break
    except Exception as e:
        part.violation("no-handler-raises", site, wit, f"{type(e).__name__}: {str(e)[:200]} ({wh.exception_site(e)})")
    part.mark_nontrivial(("flood", n))
    part.outcome(("flood", n, len(lw.session.objects)))
    return part.dump()


def flood_family(run: Run, only=None):
    from hmc.core import pmap
    sizes = FLOOD_SIZES[run.tier] if only is None else [only]
    for d in pmap(_flood_case, sizes, run.jobs):
        run.merge(d)
    run.coverage_extra["flood_sizes"] = sizes


def run(run: Run):
    run.rule = ("explicit-state BFS over simulator messages (ObjectUpdate, ObjectUpdateCompressed, terse, cached hit/miss/"
                "viewer-cache hit, ObjectProperties(Family), KillObject single/multi), request_objects/"
                "request_object_properties, region teardown/re-track and the debounce timer, delivered to a real proxy "
                "Session through the real UDP (de)serializer; states deduplicated on reference model + all live indices; "
                "non-trivial = distinct states with a parent/orphan link, a limbo object, a pending request or a torn-down "
                "region; + scale family: one orphan, then n prims each waiting for its own never-seen parent, n in FLOOD_SIZES "
                "(around 100, 256, 1024; thorough to 20000), then the oldest / first / last awaited parents appear and the oldest is killed")
    run.assumptions += [
        "preconditions of the property applied from the reference model: a live local ID is never given to a second "
        "full ID; no parent cycle among live objects",
        "universe: 3 full IDs (F2 is the avatar), 3 local IDs per region introduced in increasing order (local-ID symmetry), "
        "parents in {0, other locals}, 1 or 2 regions (region 1 addressed only after region 0: region symmetry), "
        "multi-kill only for local pairs (1,2)/(2,1), at most 2 pending request futures",
        "proxy settings fixed: USE_VIEWER_OBJECT_CACHE=True, AUTOMATICALLY_REQUEST_MISSING_OBJECTS=True, "
        "ALLOW_AUTO_REQUEST_OBJECTS=True; viewer cache = chain of two caches holding (local l, CRC 2) -> F1 for every local "
        "behind / before a stale (l, CRC 3) entry, next to unrelated entries, or twice (arrangement uniform over locals)",
        "model sides with the code where the statement is silent: avatars are exempt from cascading kills; objects moved "
        "to an untracked region handle stay in the session full-ID index (asserted: tested library behaviour; the harness "
        "keeps no Object reference between events)",
        "trusted base: SessionManager built without HTTPFlowContext / multiprocessing.Event, viewer cache directory scan "
        "stubbed out, events.LOG replaced by a recorder to see exceptions swallowed by Event.notify",
        "missing_locals is not part of the property statement: its two step postconditions (announced local leaves "
        "missing_locals; a parent looked for and not found enters it) are observations only (coverage.observations)",
        "object property values other than ids/parent/region/CRC are constants; F0 is only ever announced by ObjectUpdate, "
        "F1 only by ObjectUpdateCompressed",
    ]
    bounds = BOUNDS[run.tier]
    if os.environ.get("C14_BOUNDS"):      # development aid: "profile:regions:locals:depth:dev,..." (never set by ./check users)
        bounds = [(b.split(":")[0],) + tuple(int(x) for x in b.split(":")[1:])
                  for b in os.environ["C14_BOUNDS"].split(",")]
        run.cap("C14_BOUNDS override in effect")
    for profile, nreg, nl, depth, devb in bounds:
        h = Harness(nreg, profile, nl)
        t_cpu = sum(os.times()[:4])
        info = explore.bfs(run, h, depth=depth, dev_bound=devb, label=f"{profile}/regions={nreg}/locals={nl} ")
        info = run.coverage_extra["searches"][-1]
        info["cpu_s"] = round(sum(os.times()[:4]) - t_cpu, 1)
        info["transitions_per_cpu_s"] = round(info["transitions"] / max(info["cpu_s"], 1e-9))
        info["transitions_per_s"] = round(info["transitions"] / max(info["wall_s"], 1e-9))
        for v in run.violations:
            if isinstance(v["witness"], dict) and "regions" not in v["witness"]:
                v["witness"]["regions"] = nreg
                v["witness"]["profile"] = profile
                v["witness"]["locals"] = nl
    flood_family(run)
    run.coverage_extra["observations"] = _observations()
    # private state that had to be located by type/shape instead of by its known name (workers are forked, so this is
    # measured on a fixed probe history in this process; misses depend on the tree, not on the history)
    _retagged_replay(Harness(1, "full"), [("A", 0, 2, 1, 2), ("RQ", 0, 1), ("C", 0, 3, 1), ("TICK",), ("K", 0, 2),
                                           ("A", 0, 0, 2, 0), ("TD", 0)])
    fb = dict(sorted(introspect.FALLBACKS.items()))
    run.count("introspection_fallbacks", len(fb))
    run.coverage_extra["introspection_fallbacks"] = {"attributes_located_by_shape_or_dropped": sorted(fb),
                                                     "lookups_in_probe": fb}
    run.coverage_extra["bounds"] = [{"profile": _p, "regions": a, "locals": _n, "depth": b, "deviation_bound": c} for _p, a, _n, b, c in bounds]
    for v in run.violations:
        wit = v["witness"]
        if isinstance(wit, dict) and wit.get("family") == "flood":
            continue
        try:
            wit["history"] = _minimise(Harness(int(wit["regions"]), wit.get("profile", "full"), int(wit.get("locals", NL))), wit["history"], v["clause"], v["site"])
        except Exception as e:  # best effort
            run.notes.append(f"minimise failed for {v['clause']}@{v['site']}: {e!r}")


def replay(witness):
    if witness.get("family") == "flood":
        return _flood_case(int(witness["n"]))["violations"]
    h = Harness(int(witness.get("regions", 2)), witness.get("profile", "full"), int(witness.get("locals", NL)))
    return explore.replay_history(h, witness["history"])

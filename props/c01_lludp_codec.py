"""C01 -- LLUDP codec round trip (bounded-exhaustive enumeration over the template-driven generator, DESIGN §4 C01).

Clauses (per generated case, value-first):
  ref-bytes     serialize(m) equals the independent reference encoder's bytes
  roundtrip     deserialize(serialize(m)) -- eager and deferred -- has the same name, flags, packet id, acks, extra,
                block names (in order), multiplicities and values (floats compared bit-exactly, vectors by class+components)
  fill-bytes    Block(fill_missing=True) with unset variables encodes each as its zero value at template width
  fill-decode   ... and the datagram decodes eagerly to zero values for the unset variables
                (also with exactly one block of a repeated block list marked -- first / middle / last -- and the others complete)
  encode-independent / decode-independent
                after any sequence of rejected serialize()/deserialize() calls on the same long-lived codec object (unset variable
                late in the body, unknown block, out-of-range value, wrong Multiple count; truncated / unknown-number datagrams),
                a conformant message still encodes to the reference bytes and decodes to its values
  instance-independent
                after a second serializer / LLSD serializer / TemplateDictionary has been built from a DIFFERENT template file through the
                documented message_template= constructors (an unknown message, and a known name with another layout), the default
                codec objects -- those created before and those created afterwards -- still encode and decode the stock messages
"""
from __future__ import annotations

import struct
from typing import Any, List

from hippolyzer.lib.base.datatypes import JankStringyBytes, TupleCoord, UUID
from hippolyzer.lib.base.message.udpdeserializer import UDPMessageDeserializer
from hippolyzer.lib.base.message.udpserializer import UDPMessageSerializer
from hippolyzer.lib.base.settings import Settings

from hmc import msggen, refwire
from hmc.core import Part, Run, pmap

LEVEL = "exploration"
ZERO_CAP = 0x3000

_G: msggen.Gen = None
_QUICK = True


def same_value(dec: Any, exp: Any) -> bool:
    if isinstance(exp, float):
        return isinstance(dec, float) and struct.pack("<d", dec) == struct.pack("<d", exp)
    if isinstance(exp, TupleCoord):
        return type(dec) is type(exp) and len(tuple(dec)) == len(tuple(exp)) and all(same_value(a, b) for a, b in zip(dec, exp))
    if isinstance(exp, tuple):
        return len(tuple(dec)) == len(exp) and all(same_value(a, b) for a, b in zip(dec, exp))
    if isinstance(exp, str):
        return isinstance(dec, (str, JankStringyBytes)) and bool(dec == exp)
    if isinstance(exp, bytes):
        return isinstance(dec, bytes) and bytes(dec) == bytes(exp)
    if isinstance(exp, bool):
        return isinstance(dec, int) and int(dec) == int(exp)
    if isinstance(exp, int):
        return isinstance(dec, int) and not isinstance(dec, bool) and dec == exp
    if isinstance(exp, UUID):
        return isinstance(dec, UUID) and dec == exp
    return type(dec) is type(exp) and dec == exp


def is_zero_value(dec: Any, rvar: refwire.RVar) -> bool:
    t = rvar.type
    if t == "Variable":
        return isinstance(dec, (bytes, str)) and len(dec) == 0
    if t == "Fixed":
        return isinstance(dec, bytes) and bytes(dec) == b"\x00" * rvar.size
    if t in ("LLVector3", "LLVector3d", "LLVector4"):
        return all(struct.pack("<d", c) == struct.pack("<d", 0.0) for c in dec)
    if t == "LLQuaternion":
        return (dec.X, dec.Y, dec.Z) == (0.0, 0.0, 0.0)
    if t == "LLUUID":
        return dec == UUID()
    if t == "IPADDR":
        return dec == "0.0.0.0"
    if t in ("F32", "F64"):
        return struct.pack("<d", dec) == struct.pack("<d", 0.0)
    return dec == 0 and isinstance(dec, int)


def compare_message(part: Part, dec, case: dict, expected, mode: str, witness) -> bool:
    ok = True

    def bad(clause, site, detail):
        nonlocal ok
        ok = False
        part.violation(clause, site, witness, detail)

    name = case["name"]
    if dec.name != name:
        bad("roundtrip", f"{name}:name", f"{mode}: decoded name {dec.name}")
        return False
    if int(dec.send_flags) != case["flags"]:
        bad("roundtrip", "header:flags", f"{mode}: flags {int(dec.send_flags):#x} != {case['flags']:#x}")
    if dec.packet_id != case["packet_id"]:
        bad("roundtrip", "header:packet_id", f"{mode}: {dec.packet_id} != {case['packet_id']}")
    if tuple(dec.acks) != tuple(case["acks"]):
        bad("roundtrip", "header:acks", f"{mode}: {tuple(dec.acks)[:6]} != {tuple(case['acks'])[:6]}")
    if bytes(dec.extra) != case["extra"]:
        bad("roundtrip", "header:extra", f"{mode}: {bytes(dec.extra)[:16]!r} != {case['extra'][:16]!r}")
    blocks = dec.blocks
    if list(blocks.keys()) != [b for b, _ in expected]:
        bad("roundtrip", f"{name}:blocks", f"{mode}: block names {list(blocks.keys())} != {[b for b, _ in expected]}")
        return False
    for bname, rows in expected:
        got = blocks[bname]
        if len(got) != len(rows):
            bad("roundtrip", f"{name}.{bname}:count", f"{mode}: {len(got)} blocks != {len(rows)}")
            continue
        for i, (gb, row) in enumerate(zip(got, rows)):
            if list(gb.vars.keys()) != list(row.keys()):
                bad("roundtrip", f"{name}.{bname}:vars", f"{mode}: {list(gb.vars.keys())} != {list(row.keys())}")
                continue
            for vname, exp in row.items():
                if not same_value(gb.vars[vname], exp):
                    bad("roundtrip", f"{name}.{bname}.{vname}", f"{mode}: block {i}: decoded {gb.vars[vname]!r} != encoded {exp!r}")
    return ok


def _body_len(case, gen) -> int:
    rm = gen.ref_message(case)
    return len(refwire.encode_body(gen.templates[case["name"]], rm["blocks"], rm["extra"]))


def check_case(part: Part, gen: msggen.Gen, case: dict, ser, de_eager, de_lazy, pre=None):
    name = case["name"]
    witness = {"kind": "case", "seed": gen.seed, "case": case}
    sfx = ""
    if pre:
        witness = {"kind": "history", "seed": gen.seed, "case": case, "pre": list(pre)}
        sfx = ":after-rejected-" + "+".join(sorted({p.split(":")[0] for p in pre}))
    if case["flags"] & 0x80 and _body_len(case, gen) > ZERO_CAP:
        part.count("skipped_zerocoded_over_cap")  # out of the decoder's stated domain (C03 size cap)
        return
    part.count("evaluations")
    msg = gen.lib_message(case)
    try:
        data = bytes(ser.serialize(msg))
    except Exception as e:
        part.violation("encode-independent" if pre else "roundtrip", f"{name}:serialize{sfx}", witness, f"serialize raised {e!r}")
        return
    ref = refwire.encode(gen.ref_message(case))
    if data != ref:
        i = next((j for j in range(min(len(data), len(ref))) if data[j] != ref[j]), min(len(data), len(ref)))
        site = _site_of_offset(gen, case, i) if not case["flags"] & 0x80 else f"{name}:zerocoded-body"
        part.violation("encode-independent" if pre else "ref-bytes", site + sfx, witness, f"first difference at offset {i}: impl {data[i:i + 8].hex()} ref {ref[i:i + 8].hex()} "
                                                  f"(len {len(data)} vs {len(ref)})")
    expected = gen.expected_values(case)
    for mode, de in (("eager", de_eager), ("deferred", de_lazy)):
        try:
            dec = de.deserialize(data)
            dec.blocks  # force the lazy parse
        except Exception as e:
            part.violation("decode-independent" if pre else "roundtrip", f"{name}:deserialize{sfx}", witness, f"{mode}: raised {e!r}")
            continue
        if pre:
            sub = Part()
            compare_message(sub, dec, case, expected, mode, witness)
            for v in sub.viol.values():
                part.violation("decode-independent", v["site"] + sfx, witness, v["detail"])
            continue
        ok = compare_message(part, dec, case, expected, mode, witness)
        if ok and not pre and mode == "eager":
            _check_edit_then_decode(part, gen, case, expected, data, dec, de, witness)
    part.outcome((len(data), data[:12]))
    nt = (name, case["flags"] & 0x90, tuple((b, len(r)) for b, r in case["blocks"]), case.get("tag"))
    part.mark_nontrivial(nt)


def _check_edit_then_decode(part: Part, gen, case: dict, expected, data: bytes, dec, de, witness):
    """Decoded coordinate values are mutable: no two variables of one decoded message may share one, and editing a decoded
    message in place must not change what the next decode of the same datagram returns (no sharing between results)."""
    coords = []
    for bl in dec.blocks.values():
        for b in bl:
            for k, v in b.vars.items():
                if isinstance(v, TupleCoord):
                    coords.append((b.name, k, v))
    if not coords:
        return
    part.count("edit_then_decode_cases")
    name = case["name"]
    seen = {}
    for bn, k, v in coords:
        if id(v) in seen:
            part.violation("decode-independent", f"{name}:decoded-values-aliased", dict(witness, kind="case"),
                           f"{bn}.{k} and {seen[id(v)]} of one decoded message are the same mutable {type(v).__name__} object")
        seen[id(v)] = f"{bn}.{k}"
    for _bn, _k, v in coords:
        try:
            first = list(v)[0]
            setattr(v, type(v)._fields[0] if hasattr(type(v), "_fields") else "X", (first if first == first else 0.0) + 17.0)
        except Exception:
            pass
    try:
        again = de.deserialize(data)
        again.blocks
    except Exception as e:
        part.violation("decode-independent", f"{name}:deserialize:after-editing-result", witness, f"raised {e!r}")
        return
    sub = Part()
    compare_message(sub, again, case, expected, "eager", witness)
    for v in sub.viol.values():
        part.violation("decode-independent", v["site"] + ":after-editing-earlier-result", witness,
                       "a decoded message was edited in place, then the same datagram was decoded again: " + v["detail"])


def _site_of_offset(gen, case, off) -> str:
    """Map a byte offset of an unencoded datagram back to header / variable name (best effort, via the reference)."""
    name = case["name"]
    tmpl = gen.templates[name]
    pos = 6 + len(tmpl.num_bytes)
    if off < 6:
        return "header"
    if off < pos:
        return f"{name}:msgnum"
    pos += len(case["extra"])
    if off < pos:
        return "header:extra"
    rm = gen.ref_message(case)
    bmap = {b.name: b for b in tmpl.blocks}
    for bname, rows in rm["blocks"]:
        rb = bmap[bname]
        if rb.kind == "Variable":
            pos += 1
            if off < pos:
                return f"{name}.{bname}:count"
        for row in rows:
            for v in rb.vars:
                pos += len(refwire.pack_var(v, row[v.name]))
                if off < pos:
                    return f"{name}.{bname}.{v.name}"
    return "trailer:acks"


def check_fill(part: Part, gen: msggen.Gen, name: str, ser, de_eager):
    tmpl = gen.templates[name]
    if not tmpl.blocks:
        return
    base = {"name": name, "flags": 0, "packet_id": 1, "acks": (), "extra": b"", "blocks": gen.blocks(tmpl, 1, {}), "tag": "fill"}
    variants: List[tuple] = [tuple((b.name, None, v.name) for b in tmpl.blocks for v in b.vars)]  # everything unset
    for b in tmpl.blocks:
        for v in b.vars:
            variants.append(((b.name, None, v.name),))  # exactly one variable unset (in every repeat of its block)
    for skip in variants:
        part.count("evaluations")
        part.count("fill_cases")
        site_vars = skip if len(skip) == 1 else ()
        witness = {"kind": "fill", "seed": gen.seed, "name": name, "skip": [list(s) for s in skip] if len(skip) == 1 else "ALL"}
        msg = gen.lib_message(base, skip_vars=set(skip), fill_missing=True)
        try:
            data = bytes(ser.serialize(msg))
        except Exception as e:
            part.violation("fill-bytes", f"{name}:serialize", witness, f"raised {e!r}")
            continue
        ref = refwire.encode(gen.ref_message(base, skip_vars=set(skip)))
        bad_sites = set()
        if data != ref:
            # attribute to the unset variable type(s)
            for (bn, _, vn) in skip:
                rv = next(v for b in tmpl.blocks if b.name == bn for v in b.vars if v.name == vn)
                if len(skip) == 1 or rv.type == "Fixed" or len(data) == len(ref):
                    bad_sites.add(f"fill:{rv.type}")
            for s in sorted(bad_sites) or ["fill:?"]:
                part.violation("fill-bytes", s if len(skip) > 1 else f"{s}:{name}.{skip[0][0]}.{skip[0][2]}", witness,
                               f"datagram {len(data)} bytes, template prescribes {len(ref)}")
            continue
        try:
            dec = de_eager.deserialize(data)
        except Exception as e:
            part.violation("fill-decode", f"{name}:deserialize", witness, f"raised {e!r}")
            continue
        for (bn, _, vn) in skip:
            rv = next(v for b in tmpl.blocks if b.name == bn for v in b.vars if v.name == vn)
            for gb in dec.blocks[bn]:
                if not is_zero_value(gb.vars[vn], rv):
                    part.violation("fill-decode", f"fill:{rv.type}:{name}.{bn}.{vn}", witness, f"decoded {gb.vars[vn]!r}, not the zero value")
        part.mark_nontrivial(("fill", name, site_vars))


def check_fill_mixed(part: Part, gen: msggen.Gen, name: str, ser, de_eager):
    """One block of a repeated block list marked for default-filling (all its variables unset), the others complete and unmarked."""
    tmpl = gen.templates[name]
    for b in tmpl.blocks:
        n = b.number if b.kind == "Multiple" else (3 if b.kind == "Variable" else 1)
        if n < 2 or not b.vars:
            continue
        base = {"name": name, "flags": 0, "packet_id": 1, "acks": (), "extra": b"", "blocks": gen.blocks(tmpl, 1, {b.name: n}), "tag": "fillmix"}
        for idx in sorted({0, n // 2, n - 1}):
            part.count("evaluations")
            part.count("fill_mixed_cases")
            skip = {(b.name, idx, v.name) for v in b.vars}
            witness = {"kind": "fillmix", "seed": gen.seed, "name": name, "block": b.name, "index": idx, "of": n}
            pos = "first" if idx == 0 else ("last" if idx == n - 1 else "middle")
            site = f"fill-mixed:{b.kind}:{pos}-marked"
            msg = gen.lib_message(base, skip_vars=skip, fill_blocks={(b.name, idx)})
            try:
                data = bytes(ser.serialize(msg))
            except Exception as e:
                part.violation("fill-bytes", site, witness, f"{name}.{b.name}[{idx} of {n}] marked fill_missing, others complete: raised {e!r}")
                continue
            ref = refwire.encode(gen.ref_message(base, skip_vars=skip))
            if data != ref:
                part.violation("fill-bytes", site, witness, f"{name}.{b.name}[{idx} of {n}]: datagram {len(data)} bytes differs from the "
                                                            f"template-prescribed {len(ref)} bytes")
                continue
            try:
                dec = de_eager.deserialize(data)
                got = dec.blocks[b.name][idx]
                for v in b.vars:
                    if not is_zero_value(got.vars[v.name], v):
                        part.violation("fill-decode", site, witness, f"{name}.{b.name}[{idx}].{v.name} decoded {got.vars[v.name]!r}, not the zero value")
            except Exception as e:
                part.violation("fill-decode", site, witness, f"raised {e!r}")
            part.mark_nontrivial(("fillmix", name, b.name, idx))


rejected_ops = msggen.rejected_ops


def check_history(part: Part, gen: msggen.Gen, name: str, ser, de_eager, de_lazy):
    """A conformant message after every single rejected call and after all of them in a row, on the same codec objects."""
    ops = rejected_ops(gen, name)
    tmpl = gen.templates[name]
    cases = [{"name": name, "flags": f, "packet_id": 3, "acks": (), "extra": b"", "blocks": gen.blocks(tmpl, 0, {}), "tag": "hist"} for f in (0, 0x80)]
    seqs = [[lab] for lab, _ in ops] + ([[lab for lab, _ in ops]] if len(ops) > 1 else [])
    fns = dict(ops)
    for seq in seqs:
        for case in cases:
            raised = [lab for lab in seq if fns[lab](ser, de_eager, de_lazy)]
            part.count("history_cases")
            part.count("history_rejections", len(raised))
            check_case(part, gen, case, ser, de_eager, de_lazy, pre=seq)
            if raised:
                part.mark_nontrivial(("hist", name, tuple(raised), case["flags"]))


ALT_TEMPLATE = """version 2.0

{
	OtherGridMsg Low 1 NotTrusted Unencoded
	{
		Data Single
		{	A	U32	}
	}
}

{
	StartPingCheck High 1 NotTrusted Unencoded
	{
		PingID Single
		{	PingID	U8	}
		{	Extra	U32	}
	}
}
"""


def check_other_template(part: Part, gen: msggen.Gen, ser, de_eager, de_lazy):
    """Builds codec objects from another template, uses them, then re-checks the stock messages on the default objects."""
    import io
    from hippolyzer.lib.base.message.llsd_msg_serializer import LLSDMessageSerializer
    from hippolyzer.lib.base.message.message import Block, Message
    from hippolyzer.lib.base.message.template_dict import TemplateDictionary
    pre = []
    for label, build in (("UDPMessageSerializer(message_template=)", lambda: UDPMessageSerializer(message_template=io.StringIO(ALT_TEMPLATE))),
                         ("LLSDMessageSerializer(message_template=)", lambda: LLSDMessageSerializer(message_template=io.StringIO(ALT_TEMPLATE))),
                         ("TemplateDictionary(message_template=)", lambda: TemplateDictionary(message_template=io.StringIO(ALT_TEMPLATE)))):
        try:
            obj = build()
            if isinstance(obj, UDPMessageSerializer):
                obj.serialize(Message("OtherGridMsg", Block("Data", A=5), packet_id=1))
                obj.serialize(Message("StartPingCheck", Block("PingID", PingID=5, Extra=7), packet_id=1))
            pre.append("other:" + label)
        except Exception:
            part.count("other_template_constructor_unavailable")
    if not pre:
        return
    s_e = Settings()
    s_e.ENABLE_DEFERRED_PACKET_PARSING = False
    codecs = [("old", ser, de_eager, de_lazy),
              ("new", UDPMessageSerializer(), UDPMessageDeserializer(settings=s_e), UDPMessageDeserializer(settings=Settings()))]
    for which, s2, e2, l2 in codecs:
        for name in msggen.HEADER_BASIS:
            tmpl = gen.templates[name]
            sub = Part()
            try:
                case = {"name": name, "flags": 0, "packet_id": 4, "acks": (), "extra": b"", "blocks": gen.blocks(tmpl, 1, {}), "tag": "other-" + which}
                check_case(sub, gen, case, s2, e2, l2)
            except Exception as e:   # the generator itself consults the library's default dictionary for variable kinds
                sub.violation("roundtrip", f"{name}:default-dictionary", {}, f"the default template dictionary no longer serves {name}: {e!r}")
            part.count("evaluations")
            part.count("other_template_cases")
            for v in sub.viol.values():
                part.violation("instance-independent", f"{name}:{which}-default-codec:after-other-template", {"kind": "other-template", "seed": gen.seed},
                               f"after {pre}: {v['clause']} @ {v['site']}: {v['detail']}")
            part.mark_nontrivial(("other-template", which, name))


def _work(names: List[str]):
    gen = _G
    part = Part()
    ser = UDPMessageSerializer()
    s_e = Settings()
    s_e.ENABLE_DEFERRED_PACKET_PARSING = False
    de_eager = UDPMessageDeserializer(settings=s_e)
    de_lazy = UDPMessageDeserializer(settings=Settings())
    for name in names:
        if name == "@other-template":
            check_other_template(part, gen, ser, de_eager, de_lazy)
            continue
        if name.startswith("@sweep:"):
            for c in gen.count_sweep(name[7:]):
                check_case(part, gen, c, ser, de_eager, de_lazy)
            continue
        if name.startswith("@hdr:"):
            for c in gen.header_variants(name[5:]):
                if _QUICK and (len(c["acks"]) > 3 or len(c["extra"]) > 16):
                    continue
                check_case(part, gen, c, ser, de_eager, de_lazy)
            continue
        n = 0
        for c in gen.value_rows(name):
            check_case(part, gen, c, ser, de_eager, de_lazy)
            if n == 1:
                part.sample(msggen.case_summary(c), limit=1)
            n += 1
        for c in gen.count_variants(name):
            check_case(part, gen, c, ser, de_eager, de_lazy)
        check_fill(part, gen, name, ser, de_eager)
        check_fill_mixed(part, gen, name, ser, de_eager)
        check_history(part, gen, name, ser, de_eager, de_lazy)
    return part.dump()


def run(run: Run):
    global _G, _QUICK
    _QUICK = run.tier == "quick"
    _G = msggen.Gen(run.seed, maximal=not _QUICK)
    names = list(_G.templates)
    if len(names) < 480:
        raise RuntimeError("reference template parse found too few templates")
    units = [[n] for n in names] + [["@hdr:" + n] for n in msggen.HEADER_BASIS] 
    if not _QUICK:  # every repeat count 0..255 on the basis templates that have Variable blocks
        units += [["@sweep:" + n] for n in msggen.HEADER_BASIS if any(b.kind == "Variable" for b in _G.templates[n].blocks)]
    for d in pmap(_work, units, run.jobs):
        run.merge(d)
    # in a process of its own: if the property is broken here the damage is process-wide and must not leak into the other units
    import multiprocessing as mp
    with mp.get_context("fork").Pool(1) as pool:
        run.merge(pool.apply(_work, (["@other-template"],)))
    run.rule = ("for each of the %d templates: value rows 0..L-1 (row k gives every variable the k-th element of its wire-type alphabet, "
                "so every alphabet element of every variable occurs) x each-choice header variants; Variable-block counts {0,2,255} + mixed "
                "counts; every trailing-block omission; full header cross product (16 flag subsets x 3 ids x 4 ack lists x 4 extras) on %d basis "
                "templates%s; thorough adds every repeat count 0..255 on the basis templates and 65535-byte Variable-2 fields; default-fill: all variables unset + each single variable unset per template + exactly one block (first/middle/last) of each repeated block list marked; a second codec built from a different template file through the message_template= constructors, then the stock basis messages on old and new default codec objects; codec histories: a conformant message (plain and zero-coded) after each of up to 7 kinds of rejected serialize/deserialize call and after all of them in a row on the same serializer/deserializer objects. distinct_nontrivial = distinct "
                "(template, ack/zerocode flags, block counts, row/variant tag) combinations" %
                (len(names), len(msggen.HEADER_BASIS), " (255-ack / 255-extra rows dropped in quick tier)" if _QUICK else ""))
    run.assumptions += [
        "value domain is the canonical one: text variables get str without trailing NUL or bytes, binary variables bytes, quaternions "
        "Quaternion(x,y,z) with f32-exact components, floats f32-exact and NaN-free; ACK flag set iff acks are written",
        "zerocoded bodies larger than the decoder's 0x3000 cap are out of domain (counted as skipped_zerocoded_over_cap)",
        "full value cross products of many-variable messages are replaced by each-choice rows (codec has no cross-variable state but the cursor)",
    ]
    run.coverage_extra["templates"] = len(names)


def replay(w):
    part = Part()
    gen = msggen.Gen(int(w.get("seed", 0)))
    ser = UDPMessageSerializer()
    s_e = Settings()
    s_e.ENABLE_DEFERRED_PACKET_PARSING = False
    de_eager = UDPMessageDeserializer(settings=s_e)
    de_lazy = UDPMessageDeserializer(settings=Settings())
    if w["kind"] == "other-template":
        check_other_template(part, gen, ser, de_eager, de_lazy)
    elif w["kind"] == "fill":
        check_fill(part, gen, w["name"], ser, de_eager)
    elif w["kind"] == "fillmix":
        check_fill_mixed(part, gen, w["name"], ser, de_eager)
    elif w["kind"] == "history":
        c = w["case"]
        c["acks"] = tuple(c["acks"])
        c["blocks"] = [(b, rows) for b, rows in c["blocks"]]
        fns = dict(rejected_ops(gen, c["name"]))
        for lab in w["pre"]:
            fns[lab](ser, de_eager, de_lazy)
        check_case(part, gen, c, ser, de_eager, de_lazy, pre=w["pre"])
    else:
        c = w["case"]
        c["acks"] = tuple(c["acks"])
        c["blocks"] = [(b, rows) for b, rows in c["blocks"]]
        check_case(part, gen, c, ser, de_eager, de_lazy)
    return list(part.viol.values())

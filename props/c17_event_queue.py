"""C17 -- event queue: no event lost, duplicated or reordered; injections delivered once (explicit-state BFS).

Seam: the real ``MITMProxyEventManager.pump_proxy_event`` fed through in-memory queues (``hmc.httpharness``), one session,
main region with an ``EventQueueGet`` cap and an open circuit, one addon object that swallows events, the real
``SLMITMAddon`` hooks on the mitmproxy side of the queue pair.  One BFS step is one complete poll round (viewer request ->
proxy -> [simulator] -> proxy -> viewer) or one side action.

Alphabet
  ("poll", ackmode, sim, swallow, delivery)
      ackmode  "cur"  viewer acknowledges the id of the last response it received (undef before the first one)
               "rep"  viewer repeats the acknowledgement of its immediately preceding poll although it has advanced  [dev]
      sim      what the simulator answers *if it is asked*: a menu entry naming 1-2 fresh events (plain EQ-only event,
               templated event in LLSD message form, region-announcing EstablishAgentCommunication / EnableSimulator /
               TeleportFinish / CrossedRegion incl. repeated announcements and announcements of an already known address),
               "undef" (200, no-events body), "502" / "499" / "404"                                                     [dev]
      swallow  "none" | "first" | "all": which of the response's events the addon's handle_eq_event returns True for
      delivery "ok" | "lost": the proxied response reaches the viewer / is lost on the way (viewer's ack does not advance) [dev]
               "tdok": the region is torn down (mark_dead) *between* the request leg and the simulator's answer of this very
               poll; the answer is then processed and delivered, the circuit is re-opened afterwards                      [dev]
  ("inject", "ev" | "msg")   proxy injects an event (eq_manager.inject_event / inject_message); at most 2 between polls
  ("regrant",)               (multi-region searches) the viewer fetched Seed again and the region was granted a second
                             EventQueueGet URL (region.update_caps); every later poll of that region goes through the new URL
  ("teardown",)              region torn down (mark_dead) and the viewer starts over on a new circuit with ack undef      [dev]
  In the multi-region search every event carries a trailing region index r: the session has 2 (thorough 3) regions, each with
  its own EventQueueGet cap, circuit and viewer-side ack; polls / injections / teardowns of different regions interleave and
  a response of any region may announce a further region (EstablishAgentCommunication -> a new ProxiedRegion is built).
  The two-sessions search has two sessions behind the proxy whose regions share one circuit address (two avatars in the same
  simulator); the queue index r then runs over (session, region) pairs and the oracle is per queue.
  Region announcements also include a known *handle* re-announced at a new address (region restarted on another simhost)
  and a known address announced with a new handle.

Reference model (plain Python): viewer ack, previous poll (ack, final body), simulator's next response id, pending
injection tags, announced regions {addr: [handle, seed]}.  Per poll it predicts the exact body the viewer must be sent.

Oracle (one clause per sentence of the property; see ``_classify``):
  replay-missing / replay-differs / spurious-replay : a poll repeating the previous poll's ack, whose previous answer carried a
      body, gets that body again and the simulator is not asked; any other poll is forwarded
  sim-event-lost / -duplicated / -reordered, swallowed-event-delivered : simulator events exactly once, in order, minus swallowed
  injected-not-delivered / injected-duplicated / injected-reordered : every injected event exactly once, in injection order, in the
      first simulator response that carries events after the injection (position relative to simulator events not prescribed)
  emptied-not-undef : a response whose events were all swallowed (nothing injected) has the undef body
  undef-passthrough, non200-passthrough : 200/undef and non-200 answers reach the viewer unchanged and consume no injection
      (observed through the *next* response that carries events)
  event-in-other-regions-response : an event injected into / sent by region r never shows up in another region's response
  region-* : after the round session.regions holds exactly one region per announced address with the announced
      handle / most recent seed; an announcement the addon swallowed registers nothing (as coded; own clause)

Sound reductions (documented, not sampling): "lost" is only enumerated where the model predicts a 200 answer with a body (the
proxy cannot observe delivery; for every other answer lost and delivered rounds leave proxy and viewer in the same state);
when the model predicts a replay the simulator is not asked, so only one ``sim`` entry is enumerated for that round.
Dropped from the DESIGN plan: a simulator answer with an *empty* event list (k=0).  The statement is silent about it and the
viewer treats it as an error; demanding either form would be an invented requirement (see final report, mutant c17_undef_rule).
The wake-up PlacesQuery sent at injection is recorded as an observation, not demanded (not part of the statement).
"""
from __future__ import annotations

from typing import Any, Dict, List, Optional, Tuple

from hippolyzer.lib.base import llsd
from hippolyzer.lib.base.datatypes import UUID
from hippolyzer.lib.base.message.message import Block, Message

from hmc import explore, vloop
from hmc.core import Run
from hmc.httpharness import CLIENT_ADDR, Env, REGION_ADDRS, REGION_HANDLES, cap_url, restore_uuid4, seed_url, session_uuid

LEVEL = "model_checking"

AGENT = session_uuid(0, 3)
SESSION = session_uuid(0, 1)
A0, H0 = REGION_ADDRS[0], REGION_HANDLES[0]
A1, H1 = ("10.0.0.7", 13007), (1007 << 40) | (1000 << 8)
A2, H2 = ("10.0.0.7", 13008), (1008 << 40) | (1000 << 8)   # same host as A1, other port
A3, H3 = ("10.0.0.9", 13009), (1009 << 40) | (1000 << 8)
EQ_URL = cap_url(0, 0, "EventQueueGet")

#: region-announcing kinds: name -> (wire kind, addr, handle, seed)
ANNOUNCE = {
    "eac": ("eac", A1, None, "http://sim7.test:12043/cap/seed-a"),
    "es": ("es", A1, H1, None),
    "tf": ("tf", A1, H1, "http://sim7.test:12043/cap/seed-b"),
    "cr": ("cr", A2, H2, "http://sim8.test:12043/cap/seed-c"),
    "tf0": ("tf", A0, H0, "https://sim0.test:12043/cap/seed-again"),
    # the region with handle H1 restarted on another simhost: same handle, new address (the old entry is never removed)
    "es_mv": ("es", A3, H1, None),
    "tf_mv": ("tf", A3, H1, "http://sim9.test:12043/cap/seed-d"),
    # the address A1 now hosts a different region
    "es_h3": ("es", A1, H3, None),
}
SIM_MENU: Dict[str, Tuple[str, ...]] = {
    "p": ("p",), "t": ("t",), "pt": ("p", "t"),
    "eac": ("eac",), "es": ("es",), "tf": ("tf",), "cr": ("cr",), "tf0": ("tf0",),
    "es_mv": ("es_mv",), "tf_mv": ("tf_mv",), "es_h3": ("es_h3",),
    "eac+es": ("eac", "es"), "tf+tf": ("tf", "tf"), "es+cr": ("es", "cr"), "p+eac": ("p", "eac"),
}
STATUS_BODIES = {
    "502": (502, b"<html><body>Upstream error: backend timed out</body></html>", "text/html"),
    "499": (499, b"", "text/plain"),
    "404": (404, b"<html><body>Not found</body></html>", "text/html"),
}

SITE_REQ = "MITMProxyEventManager._handle_request[EventQueueGet]"
SITE_RESP = "MITMProxyEventManager._handle_response[EventQueueGet]"
SITE_FILTER = SITE_RESP + ".filter"
SITE_UNDEF = SITE_RESP + ".undef-rule"
SITE_INJ = "EventQueueManager.take_injected_events"
SITE_CACHE = "EventQueueManager.get_cached_poll_response"
SITE_NON200 = "MITMProxyEventManager._handle_response[status!=200]"
SITE_REG = "MITMProxyEventManager._handle_eq_event.register_region"


def u64b(v: int) -> bytes:
    return v.to_bytes(8, "big")


def u32b(v: int) -> bytes:
    return v.to_bytes(4, "big")


def ipb(ip: str) -> bytes:
    return bytes(int(x) for x in ip.split("."))


# ---- simulator events in the form the simulator puts them on the wire (hand-written, independent of the serializer) ----
def wire_event(kind: str, tag: int) -> dict:
    if kind == "p":    # EQ-only event, no template
        return {"message": "ChatterBoxInvitation", "body": {"session_id": UUID(int=0xABC), "serial": tag,
                                                            "instantmessage": {"message": "hi"}}}
    if kind == "t":    # templated message in LLSD form: U64 is big-endian binary, BOOL / S32 native
        return {"message": "AgentGroupDataUpdate", "body": {
            "AgentData": [{"AgentID": AGENT}],
            "GroupData": [{"GroupID": UUID(int=0x9900 + (tag % 7)), "GroupPowers": u64b((1 << 40) | tag),
                           "AcceptNotices": True, "GroupInsigniaID": UUID(int=0), "Contribution": tag, "GroupName": "grp"}],
        }}
    wk, addr, handle, seed = ANNOUNCE[kind]
    if wk == "eac":
        return {"message": "EstablishAgentCommunication",
                "body": {"agent-id": AGENT, "sim-ip-and-port": f"{addr[0]}:{addr[1]}", "seed-capability": seed}}
    if wk == "es":
        return {"message": "EnableSimulator",
                "body": {"SimulatorInfo": [{"Handle": u64b(handle), "IP": ipb(addr[0]), "Port": addr[1]}]}}
    if wk == "tf":
        return {"message": "TeleportFinish", "body": {"Info": [{
            "AgentID": AGENT, "LocationID": u32b(4), "SimIP": ipb(addr[0]), "SimPort": addr[1],
            "RegionHandle": u64b(handle), "SeedCapability": seed, "SimAccess": 13, "TeleportFlags": u32b(1 << 4)}]}}
    if wk == "cr":
        return {"message": "CrossedRegion", "body": {
            "AgentData": [{"AgentID": AGENT, "SessionID": SESSION}],
            "Info": [{"LookAt": [1.0, 0.0, 0.0], "Position": [1.0, 2.0, 3.0]}],
            "RegionData": [{"RegionHandle": u64b(handle), "SeedCapability": seed, "SimIP": ipb(addr[0]), "SimPort": addr[1]}]}}
    raise KeyError(kind)


def injected_wire(kind: str, tag: int) -> dict:
    """What the viewer must be sent for injection number ``tag``."""
    if kind == "ev":
        return {"message": "HippoInjected", "body": {"n": tag}}
    return {"message": "AgentGroupDataUpdate", "body": {
        "AgentData": [{"AgentID": AGENT}],
        "GroupData": [{"GroupID": UUID(int=0x7700), "GroupPowers": u64b(1 << 33), "AcceptNotices": False,
                       "GroupInsigniaID": UUID(int=0), "Contribution": 1000 + tag, "GroupName": "inj"}]}}


def injected_message(tag: int) -> Message:
    return Message("AgentGroupDataUpdate", Block("AgentData", AgentID=AGENT),
                   Block("GroupData", GroupID=UUID(int=0x7700), GroupPowers=1 << 33, AcceptNotices=False,
                         GroupInsigniaID=UUID(int=0), Contribution=1000 + tag, GroupName="inj"))


def norm(x: Any) -> Any:
    """Canonical, hashable form of an LLSD value (maps sorted by key: map order carries no meaning in LLSD)."""
    if isinstance(x, dict):
        return ("map",) + tuple(sorted((k, norm(v)) for k, v in x.items()))
    if isinstance(x, (list, tuple)):
        return ("arr",) + tuple(norm(v) for v in x)
    if isinstance(x, (bytes, bytearray)):
        return ("bin", bytes(x).hex())
    if isinstance(x, bool):
        return ("bool", x)
    if isinstance(x, int):
        return ("int", x)
    if isinstance(x, float):
        return ("real", repr(x))
    if isinstance(x, str):
        return ("str", str(x))
    if x is None:
        return ("undef",)
    return (type(x).__name__, str(x))


def wire_norm(x: Any) -> Any:
    """Through the XML codec once, so expected values have the types a parsed body has."""
    return norm(llsd.parse_xml(llsd.format_xml(x)))


class SwallowAddon:
    def __init__(self):
        self.mode = "none"
        self.seen = 0

    def arm(self, mode: str):
        self.mode, self.seen = mode, 0

    def handle_eq_event(self, session, region, event):
        self.seen += 1
        if self.mode == "all" or (self.mode == "first" and self.seen == 1):
            return True
        return None


ID_BASE = [1]   # set by Harness.fresh() before a World is built (workers are single-threaded)


class RegionModel:
    """Reference model of one region's event queue."""

    def __init__(self, id_base: int = 1):
        self.ack: Optional[int] = None
        self.prev: Optional[Dict[str, Any]] = None     # {"ack":..., "body": normalised body or None} of the preceding poll
        self.next_id = id_base                         # first response id the simulator uses (real ones are large 32-bit values)
        self.pending: List[Tuple[int, str]] = []       # (tag, kind) injected and not yet delivered
        self.optional: List[Tuple[int, str]] = []      # dropped by a teardown: may never show up twice, need not show up
        self.inj_since_poll = 0
        self.torn_down = 0
        self.regrants = 0


class Model:
    """Session-level part of the reference model."""

    def __init__(self, n_regions: int):
        self.inj_n = 0
        self.regions: Dict[Tuple[str, int], List[Any]] = {
            REGION_ADDRS[i]: [REGION_HANDLES[i], seed_url(0, i)] for i in range(n_regions)}
        self.vetoed_only: set = set()                  # addresses only ever announced in swallowed events
        self.ever: Dict[Any, Any] = {}                 # every event key ever sent / injected -> ("sim"|"inj", region index)


class World:
    def __init__(self, n_regions: int = 1, n_sessions: int = 1):
        self.addon = SwallowAddon()
        self.env = Env(n_sessions=n_sessions, n_regions=n_regions, addons=[self.addon])
        self.session = self.env.sessions[0]
        # the event queues the viewers poll: every (session, region); sessions share the regions' circuit addresses
        # (two avatars in the same simulators), so cap data must be re-attached by session *and* address
        self.eq_regions, self.eq_urls = [], []
        for si, sess in enumerate(self.env.sessions):
            for ri in range(n_regions):
                self.eq_regions.append(sess.regions[ri])
                self.eq_urls.append(cap_url(si, ri, "EventQueueGet"))
        for region, url in zip(self.eq_regions, self.eq_urls):
            region.update_caps({"EventQueueGet": url})
        self.region = self.eq_regions[0]
        self.m = Model(n_regions)
        self.rm = [RegionModel(ID_BASE[0]) for _ in self.eq_regions]
        self.violations: List[Dict[str, Any]] = []
        self.last_obs: Any = None
        self.flags: set = set()



def _plain(v, depth=0):
    """Canonical form of plain data reachable from the event-queue manager; non-data objects (weak proxies, regions) -> type name."""
    if depth > 6:
        return "..."
    if v is None or isinstance(v, (bool, int, float, str, bytes)):
        return v
    if isinstance(v, dict):
        return ("map",) + tuple((str(k), _plain(x, depth + 1)) for k, x in v.items())
    if isinstance(v, (list, tuple)) or type(v).__name__ == "deque":
        return ("seq",) + tuple(_plain(x, depth + 1) for x in v)
    if hasattr(v, "_fields"):   # NamedTuple-like
        return ("nt",) + tuple(_plain(x, depth + 1) for x in v)
    import datetime as _dt
    import uuid as _uuid
    if isinstance(v, (_uuid.UUID, _dt.date, bytearray)):
        return norm(v)
    if hasattr(v, "__dict__") and type(v).__module__.startswith("hippolyzer") and type(v).__name__.startswith("_"):
        return (type(v).__name__,) + tuple(sorted((k, _plain(x, depth + 1)) for k, x in vars(v).items()))
    return type(v).__name__


class Harness:
    copyable = False

    def __init__(self, sims: Tuple[str, ...], statuses: Tuple[str, ...] = ("502", "499", "404"), undef: bool = True,
                 inject: Tuple[str, ...] = ("ev", "msg"), teardown: bool = True, rep: bool = True, lost: bool = True,
                 label: str = "", n_regions: int = 1, swallows: Tuple[str, ...] = ("none", "first", "all"),
                 midtd: Optional[bool] = None, midtd_sw: Tuple[str, ...] = ("all",),
                 midtd_sims: Optional[Tuple[str, ...]] = None, regrant: bool = False, n_sessions: int = 1, id_base: int = 1):
        self.id_base = id_base      # the simulator's first response id; 1 | far outside CPython's small-int cache | negative
        self.sims, self.statuses, self.undef = tuple(sims), tuple(statuses), undef
        self.inject, self.teardown, self.rep, self.lost = tuple(inject), teardown, rep, lost
        self.label, self.n_regions, self.swallows = label, n_regions, tuple(swallows)
        self.midtd = teardown if midtd is None else midtd      # teardown between the two legs of one poll ...
        self.n_sessions = n_sessions
        self.regrant = regrant      # the viewer re-fetches the Seed cap and is granted a new EventQueueGet URL (once per region)
        self.midtd_sw = tuple(midtd_sw)                        # ... enumerated for these swallow modes
        self.midtd_sims = tuple(midtd_sims) if midtd_sims is not None else self.sims      # ... and these answers

    def config(self) -> Dict[str, Any]:
        return {"sims": list(self.sims), "statuses": list(self.statuses), "undef": self.undef, "inject": list(self.inject),
                "teardown": self.teardown, "rep": self.rep, "lost": self.lost, "n_regions": self.n_regions,
                "swallows": list(self.swallows), "midtd": self.midtd, "midtd_sw": list(self.midtd_sw), "midtd_sims": list(self.midtd_sims), "regrant": self.regrant, "n_sessions": self.n_sessions}

    # ------------------------------------------------------------------------------------------ explorer API
    def fresh(self) -> World:
        ID_BASE[0] = self.id_base
        return World(self.n_regions, self.n_sessions)

    def deviation(self, ev) -> int:
        if ev[0] == "teardown":
            return 1
        if ev[0] == "poll":
            return int(ev[1] == "rep") + int(ev[2] in STATUS_BODIES) + int(ev[4] in ("lost", "tdok"))
        return 0

    def enabled(self, w: World):
        evs: List[tuple] = []
        n_queues = self.n_regions * self.n_sessions
        for r in range(n_queues):
            m = w.rm[r]
            suffix = (r,) if n_queues > 1 else ()
            ackmodes = ["cur"]
            if self.rep and m.prev is not None and m.prev["ack"] != m.ack:
                ackmodes.append("rep")
            for am in ackmodes:
                ack = m.ack if am == "cur" else m.prev["ack"]
                replay = m.prev is not None and m.prev["ack"] == ack and m.prev["body"] is not None
                if replay:
                    evs.append(("poll", am, self.sims[0], "none", "ok") + suffix)
                    if self.lost:
                        evs.append(("poll", am, self.sims[0], "none", "lost") + suffix)
                    continue
                for sim in self.sims:
                    k = len(SIM_MENU[sim])
                    for sw in (("none", "all") if k == 1 else ("none", "first", "all")):
                        if sw not in self.swallows:
                            continue
                        evs.append(("poll", am, sim, sw, "ok") + suffix)
                        emptied = sw == "all" and not m.pending
                        if self.lost and not emptied:
                            evs.append(("poll", am, sim, sw, "lost") + suffix)
                        if self.midtd and am == "cur" and m.torn_down < 1 and sw in self.midtd_sw and sim in self.midtd_sims:
                            evs.append(("poll", am, sim, sw, "tdok") + suffix)
                if self.undef:
                    evs.append(("poll", am, "undef", "none", "ok") + suffix)
                for st in self.statuses:
                    evs.append(("poll", am, st, "none", "ok") + suffix)
            if m.inj_since_poll < 2:
                for kind in self.inject:
                    evs.append(("inject", kind) + suffix)
            if self.teardown and m.torn_down < 1:
                evs.append(("teardown",) + suffix)
            if self.regrant and m.regrants < 1:
                evs.append(("regrant",) + suffix)
        return evs

    def canon(self, w: World):
        g = w.m
        regions = tuple((r.circuit_addr, r.handle, tuple(u for n, (t, u) in r.caps.items() if n == "Seed"),
                         bool(r.circuit and r.circuit.is_alive)) for r in w.session.regions)
        per_region = []
        for region, m in zip(w.eq_regions, w.rm):
            eq = region.eq_manager
            # the manager's whole instance state, found via vars() (no private field named; weak back-references to the region
            # and anything else that is not plain data are reduced to their type name)
            eq_state = tuple(sorted((k, _plain(v)) for k, v in vars(eq).items()))
            per_region.append((eq_state,
                               m.ack, (m.prev["ack"], m.prev["body"]) if m.prev else None, m.next_id, tuple(m.pending),
                               tuple(m.optional), m.inj_since_poll, m.torn_down, m.regrants))
        return (tuple(per_region), regions, g.inj_n, tuple((a, tuple(v)) for a, v in g.regions.items()),
                tuple(sorted(g.vetoed_only)))

    def observe(self, w: World):
        return w.last_obs

    def nontrivial(self, w: World, hist):
        if w.flags:
            return (tuple(sorted(w.flags)), self.canon(w))
        return None

    # ------------------------------------------------------------------------------------------ transitions
    def step(self, w: World, ev):
        w.flags = set()
        kind = ev[0]
        if kind == "inject":
            self._inject(w, ev[1], ev[2] if len(ev) > 2 else 0)
        elif kind == "teardown":
            self._teardown(w, ev[1] if len(ev) > 1 else 0)
        elif kind == "regrant":
            r = ev[1] if len(ev) > 1 else 0
            # what the Seed response handler does with the simulator's (second) grant: region.update_caps(parsed)
            new_url = cap_url(0, r, "regranted-EventQueueGet")      # (not prefix-related to the first URL)
            w.eq_regions[r].update_caps({"EventQueueGet": new_url})
            w.eq_urls[r] = new_url
            w.rm[r].regrants += 1
            w.last_obs = ("regrant",)
            w.flags.add("regrant")
        elif kind == "poll":
            self._poll(w, ev[1], ev[2], ev[3], ev[4], ev[5] if len(ev) > 5 else 0)
        else:
            raise ValueError(ev)

    def _bad(self, w: World, clause: str, site: str, detail: str):
        w.violations.append({"clause": clause, "site": site, "detail": detail})

    def _inject(self, w: World, kind: str, r: int):
        g, m, region = w.m, w.rm[r], w.eq_regions[r]
        g.inj_n += 1
        tag = g.inj_n
        before = len(w.env.transport.packets)
        try:
            if kind == "ev":
                region.eq_manager.inject_event(injected_wire("ev", tag))
            else:
                region.eq_manager.inject_message(injected_message(tag))
        except Exception as e:
            self._bad(w, "inject-raises", "EventQueueManager.inject_" + ("event" if kind == "ev" else "message"),
                      f"injection {tag} ({kind}) into region {r} raised {e!r}")
        m.pending.append((tag, kind))
        g.ever[wire_norm(injected_wire(kind, tag))] = ("inj", r)
        m.inj_since_poll += 1
        w.last_obs = ("inject", kind, len(w.env.transport.packets) - before)
        w.flags.add("inject")

    def _teardown(self, w: World, r: int):
        m, region = w.rm[r], w.eq_regions[r]
        region.mark_dead()
        region.session().open_circuit(CLIENT_ADDR, region.circuit_addr, w.env.transport)
        m.optional += m.pending
        m.pending = []
        m.ack, m.prev, m.inj_since_poll = None, None, 0
        m.torn_down += 1
        w.last_obs = ("teardown",)
        w.flags.add("teardown")

    def _poll(self, w: World, ackmode: str, sim: str, swallow: str, delivery: str, r: int):
        m, env = w.rm[r], w.env
        w.addon.arm("none")
        ack = m.ack if ackmode == "cur" else m.prev["ack"]
        oblig = m.prev is not None and m.prev["ack"] == ack and m.prev["body"] is not None
        flow = env.new_flow(w.eq_urls[r], "POST", llsd.format_xml({"ack": ack, "done": False}),
                            headers=[("Content-Type", "application/llsd+xml")])
        env.mitm_request(flow)
        exc = env.pump()
        cbs = [i for i in env.take_to_proxy() if i[0] == "callback" and i[1] == flow.id]
        if len(cbs) != 1:
            self._bad(w, "poll-not-handed-back", SITE_REQ, f"request pump produced {len(cbs)} callbacks (exception {exc!r})")
            return
        env.apply_callback(flow, cbs[0])
        faked = flow.response is not None
        if oblig and not faked:
            self._bad(w, "replay-missing", SITE_CACHE,
                      f"poll repeats ack {ack!r} of the previous poll whose answer carried a body, but the simulator was asked again")
        if faked and not oblig:
            self._bad(w, "spurious-replay", SITE_CACHE,
                      f"region {r}: poll with ack {ack!r} (previous poll: {m.prev and m.prev['ack']!r}) was answered from the "
                      f"replay cache: {flow.response.content[:200]!r}")
        if delivery == "tdok" and not faked:
            # the long poll's request leg is done; the region is torn down (circuit dies) before the simulator's answer arrives
            w.eq_regions[r].mark_dead()
            m.optional += m.pending
            m.pending = []
            m.torn_down += 1
            w.flags.add("teardown-mid-poll")
        exp_kind, exp_body, ctx = None, None, {}
        if faked:
            w.flags.add("replayed")
            if oblig:
                exp_kind, exp_body = "replay", m.prev["body"]
        else:
            exp_kind, exp_body, ctx = self._simulator_answers(w, flow, sim, swallow, r)
        m.inj_since_poll = 0
        # proxy sees the response (mitmproxy's response hook), then hands it back
        if env.mitm_response(flow):
            exc = env.pump()
            cbs = [i for i in env.take_to_proxy() if i[0] == "callback" and i[1] == flow.id]
            if len(cbs) != 1:
                self._bad(w, "poll-not-handed-back", SITE_RESP, f"response pump produced {len(cbs)} callbacks (exception {exc!r})")
                return
            env.apply_callback(flow, cbs[0])
        resp = flow.response
        status, content = resp.status_code, resp.content
        act_body, parse_err = None, None
        if status == 200:
            try:
                act_body = llsd.parse_xml(content)
            except Exception as e:
                parse_err = e
        # ---- oracle on the body the viewer is sent
        if exp_kind == "status":
            st, body, ctype = ctx["status"]
            if status != st or content != body or resp.headers.get("Content-Type") != ctype:
                self._bad(w, "non200-passthrough", SITE_NON200,
                          f"simulator answered {st} {body[:60]!r}; viewer was sent {status} {content[:120]!r}")
            w.flags.add("non200")
        elif parse_err is not None or status != 200:
            self._bad(w, "response-unparseable", SITE_RESP, f"status {status}, body {content[:200]!r}: {parse_err!r}")
        elif exp_kind == "replay":
            if norm(act_body) != exp_body:
                self._bad(w, "replay-differs", SITE_REQ, f"replayed body differs from the previous answer: {content[:300]!r}")
        elif exp_kind == "undef":
            if act_body is not None:
                self._bad(w, "undef-passthrough", SITE_RESP, f"simulator sent the no-events body, viewer was sent {content[:200]!r}")
        elif exp_kind == "events":
            self._classify(w, ctx, exp_body, act_body, content, r)
        # ---- reference model: what this poll's answer was, for the next round's replay obligation
        if exp_kind is not None:
            m.prev = {"ack": ack, "body": exp_body if exp_kind in ("replay", "events") else None}
        else:
            m.prev = {"ack": ack, "body": norm(act_body) if act_body is not None else None}
        # ---- regions
        self._check_regions(w)
        if delivery == "tdok" and not faked:
            w.eq_regions[r].session().open_circuit(CLIENT_ADDR, w.eq_regions[r].circuit_addr, w.env.transport)  # viewer comes back
        # ---- viewer
        if delivery in ("ok", "tdok"):
            if status == 200 and isinstance(act_body, dict) and "id" in act_body:
                m.ack = act_body["id"]
        else:
            w.flags.add("lost")
        n_ev = len(act_body["events"]) if isinstance(act_body, dict) and isinstance(act_body.get("events"), list) else -1
        w.last_obs = ("poll", status, faked, n_ev, exp_kind, bool(resp.headers.get("X-Hippo-Fake-EQ")), delivery,
                      len(w.session.regions))

    def _simulator_answers(self, w: World, flow, sim: str, swallow: str, r: int):
        """The simulator is asked: build its answer, put it on the flow, return the model's prediction."""
        g, m, env = w.m, w.rm[r], w.env
        if sim in STATUS_BODIES:
            st, body, ctype = STATUS_BODIES[sim]
            env.set_response(flow, st, body, {"Content-Type": ctype})
            return "status", None, {"status": STATUS_BODIES[sim]}
        if sim == "undef":
            env.set_response(flow, 200, llsd.format_xml(None), {"Content-Type": "application/llsd+xml"})
            return "undef", None, {}
        rid = m.next_id
        m.next_id += 1
        kinds = SIM_MENU[sim]
        events = [wire_event(k, (r * 1000 + rid) * 10 + i) for i, k in enumerate(kinds)]
        env.set_response(flow, 200, llsd.format_xml({"id": rid, "events": events}), {"Content-Type": "application/llsd+xml"})
        w.addon.arm(swallow)
        swallowed = [i for i in range(len(kinds)) if swallow == "all" or (swallow == "first" and i == 0)]
        keys = [wire_norm(e) for e in events]
        for k in keys:
            g.ever[k] = ("sim", r)
        kept = [keys[i] for i in range(len(kinds)) if i not in swallowed]
        inj = [wire_norm(injected_wire(kind, tag)) for tag, kind in m.pending]
        out = kept + inj
        for i, k in enumerate(kinds):
            if k in ANNOUNCE:
                _, addr, handle, seed = ANNOUNCE[k]
                if i in swallowed:
                    if addr not in g.regions:
                        g.vetoed_only.add(addr)
                    continue
                g.vetoed_only.discard(addr)
                ent = g.regions.setdefault(addr, [None, None])
                if handle is not None:
                    ent[0] = handle
                if seed is not None:
                    ent[1] = seed
                w.flags.add("announce")
        if swallowed:
            w.flags.add("swallow")
        if inj:
            w.flags.add("inject-merged")
        ctx = {"rid": rid, "kept": kept, "inj": inj, "swallowed": [keys[i] for i in swallowed],
               "optional": [wire_norm(injected_wire(kind, tag)) for tag, kind in m.optional]}
        m.pending = []
        if not out:
            w.flags.add("emptied")
            return "events", None, ctx
        return "events", ("map", ("events", ("arr",) + tuple(out)), ("id", ("int", rid))), ctx

    def _classify(self, w: World, ctx, exp_body, act_body, content: bytes, r: int):
        g, m = w.m, w.rm[r]
        kept, inj, swallowed = ctx["kept"], ctx["inj"], ctx["swallowed"]
        if exp_body is None:
            if act_body is not None:
                foreign = [e for e in (act_body.get("events") or []) if g.ever.get(norm(e), (None, r))[1] != r] \
                    if isinstance(act_body, dict) else []
                if foreign:
                    self._bad(w, "event-in-other-regions-response", SITE_INJ,
                              f"region {r}'s response carries an event that belongs to another region: {norm(foreign[0])[1:3]!r}")
                else:
                    self._bad(w, "emptied-not-undef", SITE_UNDEF,
                              f"every event was swallowed and nothing injected, viewer was sent {content[:200]!r} instead of undef")
            return
        if act_body is None:
            if kept:
                self._bad(w, "sim-event-lost", SITE_RESP, f"{len(kept)} simulator event(s) expected, viewer was sent undef")
            if inj:
                self._bad(w, "injected-not-delivered", SITE_INJ, f"{len(inj)} injected event(s) expected, viewer was sent undef")
            return
        if not isinstance(act_body, dict) or not isinstance(act_body.get("events"), list):
            self._bad(w, "response-malformed", SITE_RESP, f"viewer was sent {content[:200]!r}")
            return
        if act_body.get("id") != ctx["rid"]:
            self._bad(w, "response-id-changed", SITE_RESP, f"simulator id {ctx['rid']}, viewer was sent id {act_body.get('id')!r}")
        act = [norm(e) for e in act_body["events"]]
        # events dropped by a teardown may be delivered late, at most once each
        optional = list(ctx["optional"])
        still_optional = [(tag, kind) for tag, kind in m.optional]
        filtered = []
        for a in act:
            if a in optional and a not in inj:
                i = optional.index(a)
                optional.pop(i)
                still_optional.pop(i)
                continue
            filtered.append(a)
        m.optional = still_optional
        act = filtered
        exp = kept + inj
        if act == exp:
            return
        for a in act:
            if a in swallowed:
                self._bad(w, "swallowed-event-delivered", SITE_FILTER, f"addon returned True for {a[1:3]!r} but the viewer was sent it")
        for a in set(act):
            if act.count(a) > exp.count(a) and a not in swallowed:
                cat, owner = g.ever.get(a, (None, None))
                if cat is not None and owner != r:
                    self._bad(w, "event-in-other-regions-response", SITE_INJ if cat == "inj" else SITE_RESP,
                              f"region {r}'s response carries {a[1:3]!r}, which was {'injected into' if cat == 'inj' else 'sent by'} region {owner}")
                elif cat == "sim":
                    self._bad(w, "sim-event-duplicated", SITE_RESP, f"event {a[1:3]!r} sent {act.count(a)}x, expected {exp.count(a)}x")
                elif cat == "inj":
                    self._bad(w, "injected-duplicated", SITE_INJ, f"injected {a[1:3]!r} sent {act.count(a)}x, expected {exp.count(a)}x")
                else:
                    self._bad(w, "unexpected-event", SITE_RESP, f"event {a!r} was never sent nor injected")
        for e in set(kept):
            if act.count(e) < kept.count(e):
                self._bad(w, "sim-event-lost", SITE_RESP, f"simulator event {e[1:3]!r} missing from the body sent to the viewer")
        for e in set(inj):
            if act.count(e) < inj.count(e):
                self._bad(w, "injected-not-delivered", SITE_INJ,
                          f"region {r}: injected event {e[1:3]!r} missing from the first response carrying events")
        if sorted(act) == sorted(exp):
            # same multiset: the statement orders simulator events among themselves and (FIFO) injected events among
            # themselves; where injected events sit relative to simulator events is not prescribed
            if [a for a in act if a in kept] != kept:
                self._bad(w, "sim-event-reordered", SITE_RESP, "simulator events reached the viewer in a different order")
            if [a for a in act if a in inj and a not in kept] != inj:
                self._bad(w, "injected-reordered", SITE_INJ, "injected events reached the viewer in a different order than injected")

    def _check_regions(self, w: World):
        m = w.m
        actual: Dict[Any, List[Any]] = {}
        for r in w.session.regions:
            seeds = [u for n, (t, u) in r.caps.items() if n == "Seed"]
            if r.circuit_addr in actual:
                self._bad(w, "region-registered-twice", SITE_REG, f"two regions for address {r.circuit_addr!r}")
            actual.setdefault(r.circuit_addr, [r.handle, seeds[0] if seeds else None])
        for addr, (handle, seed) in m.regions.items():
            if addr not in actual:
                self._bad(w, "region-not-registered", SITE_REG, f"announced address {addr!r} has no region (have {list(actual)!r})")
                continue
            if actual[addr][0] != handle:
                self._bad(w, "region-handle", SITE_REG, f"{addr!r}: announced handle {handle!r}, region has {actual[addr][0]!r}")
            if actual[addr][1] != seed:
                self._bad(w, "region-seed", SITE_REG, f"{addr!r}: most recent announced seed {seed!r}, region has {actual[addr][1]!r}")
        for addr in actual:
            if addr not in m.regions:
                if addr in m.vetoed_only:
                    self._bad(w, "vetoed-announcement-registered", SITE_REG,
                              f"{addr!r} was only announced in events the addon swallowed, yet a region was registered")
                else:
                    self._bad(w, "region-unexpected", SITE_REG, f"region {addr!r} was never announced")


# ---------------------------------------------------------------------------------------------------- searches
def searches(tier: str):
    """(harness, depth, deviation bound). Quick is the same space with smaller bounds / menus."""
    ANN1 = ("eac", "es", "tf", "cr", "tf0")       # mid-poll teardown is enumerated for the single-announcement answers
    multi = dict(statuses=(), inject=("ev",), rep=False, lost=False, swallows=("none",), midtd_sw=("none",), regrant=True)
    if tier == "quick":
        return [
            (Harness(("p", "t", "pt"), midtd_sims=("p",), label="delivery "), 4, 3),
            (Harness(("t", "eac", "es", "tf", "cr", "tf0", "es_mv", "tf_mv", "es_h3", "eac+es", "tf+tf"), statuses=(), undef=False,
                     inject=(), teardown=False, midtd=True, midtd_sw=("none",), midtd_sims=ANN1, label="regions "), 3, 2),
            (Harness(("p", "eac"), n_regions=2, label="multi-region ", **multi), 4, 1),
            (Harness(("p",), n_regions=1, n_sessions=2, label="two-sessions ", **dict(multi, regrant=False)), 4, 1),
            (Harness(("p", "pt"), statuses=("502",), inject=("ev",), midtd=False, id_base=1_000_000, label="large-ids "), 4, 3),
            (Harness(("p",), statuses=(), inject=("ev",), teardown=False, midtd=False, id_base=-2_000_000_000, label="negative-ids "), 4, 3),
        ]
    return [
        (Harness(("p", "t", "pt"), midtd_sims=("p",), label="delivery "), 6, 3),
        (Harness(("t", "eac", "es", "tf", "cr", "tf0", "es_mv", "tf_mv", "es_h3", "eac+es", "tf+tf"), statuses=(),
                 undef=False, inject=(), teardown=False, midtd=True, midtd_sw=("none",), midtd_sims=ANN1, label="regions "), 4, 3),
        (Harness(("p", "eac"), n_regions=2, label="multi-region ", **multi), 5, 2),
        (Harness(("p", "eac"), n_regions=3, label="multi-region(3) ", **multi), 4, 1),
        (Harness(("p",), n_regions=1, n_sessions=2, label="two-sessions ", **dict(multi, regrant=False)), 5, 2),
        (Harness(("p", "t", "pt"), midtd_sims=("p",), id_base=1_000_000, label="large-ids "), 5, 3),
        (Harness(("p", "pt"), statuses=("502",), inject=("ev",), midtd=False, id_base=-2_000_000_000, label="negative-ids "), 5, 3),
    ]


def run(run: Run):
    import time
    run.rule = ("explicit-state BFS over poll rounds {ack cur|repeat} x {simulator answer} x {addon swallows none|first|all} x "
                "{delivered|lost}, injections and region teardown, driven through the real pump_proxy_event; non-trivial = "
                "distinct states whose last step replayed a cached answer, merged an injection, swallowed an event, emptied a "
                "response, passed a non-200 through, registered/updated a region, lost a response or tore the region down")
    run.assumptions += [
        "simulator response ids strictly increase; the simulator never re-sends an event and never sends an empty event list",
        "well-formed events only (binary U32/U64/IPADDR fields as the simulator encodes templated messages in LLSD)",
        "a stale poll repeats the ack of the immediately preceding poll (the scenario the replay cache is written for)",
        "no two distinct simulators share a seed capability URL",
        "teardown drops pending injections (they may be delivered at most once afterwards, need not be)",
        "queues are in-memory with pickle round trip; the mitmproxy side is the real SLMITMAddon hooks without a master",
    ]
    for h, depth, devb in searches(run.tier):
        info = explore.bfs(run, h, depth=depth, dev_bound=devb, label=h.label)
        run.coverage_extra.setdefault("configs", []).append({"label": h.label, "depth": depth, "deviation_bound": devb, **h.config()})
    # attach the configuration to every witness and shrink it
    for v in run.violations:
        hist = v["witness"]["history"]
        for h, depth, devb in searches(run.tier):
            try:
                got = explore.replay_history(h, hist)
            except Exception:
                continue
            if any(g["clause"] == v["clause"] and g["site"] == v["site"] for g in got):
                small = explore._minimise_tuples(h, hist, v["clause"], v["site"])
                v["witness"] = {"config": h.config(), "history": [list(e) for e in small]}
                break
    restore_uuid4()
    vloop.uninstall()
    run.coverage_extra["wall"] = round(time.time() - run.t0, 1)


def replay(witness):
    cfg = witness.get("config") or {"sims": list(SIM_MENU)}
    h = Harness(tuple(cfg["sims"]), statuses=tuple(cfg.get("statuses", ("502", "499", "404"))), undef=cfg.get("undef", True),
                inject=tuple(cfg.get("inject", ("ev", "msg"))), teardown=cfg.get("teardown", True), rep=cfg.get("rep", True),
                lost=cfg.get("lost", True), n_regions=int(cfg.get("n_regions", 1)), midtd=cfg.get("midtd"),
                midtd_sw=tuple(cfg.get("midtd_sw", ("all",))),
                midtd_sims=tuple(cfg["midtd_sims"]) if cfg.get("midtd_sims") is not None else None,
                regrant=bool(cfg.get("regrant", False)), n_sessions=int(cfg.get("n_sessions", 1)),
                swallows=tuple(cfg.get("swallows", ("none", "first", "all"))))
    return explore.replay_history(h, witness["history"])

"""C10 -- quantised floats / fixed point are bit-exact inverses on the wire domain (exhaustive per instance, DESIGN §4 C10).

Discovery (no hand-written list): ``hmc.objwalk`` walks the live objects reachable from ``se.SUBFIELD_SERIALIZERS`` and
from every attribute of ``hippolyzer.lib.base.templates``, ``llanim`` and ``mesh`` and collects every instance of
``QuantizedFloatBase`` (incl. subclasses such as PackedTERotation / QuantizedTime), ``FixedPoint`` and
``QuantizedNumPyArray``.  Instances are grouped by their parameters; each distinct parameterisation is one *site*,
e.g. ``QuantizedFloat(U16,-64.0,64.0,zero_median=True)``, ``PackedTERotation``, ``FixedPoint(U16,8.8,unsigned)``.

Enumerated per site: **every** raw value the 8/16-bit wire type can hold, through (a) ``Adapter.decode`` / ``encode`` and
(b) the wire path (``BufferReader.read(spec)`` of the packed raw value, ``BufferWriter.write(spec, value)``), in both
byte orders.  Context-dependent ranges (a QuantizedFloatBase subclass without its own lower/upper: QuantizedTime, range
[0, root.duration]) are swept for every raw value x a list of f32-exact durations (boundary list + powers of two x
mantissas; quick = every 16th exponent x 2 mantissas, thorough = every exponent x 4 mantissas); in addition the end and
middle raw values are evaluated (endpoint + inverse clauses, both modes, both tiers) for a dense duration list: every 1/8 s up
to 64 s, every whole second up to 600 s, every F32 with <= 8 mantissa bits in [2^-6, 2^9] (2,271 durations).  The vectorised
QuantizedNumPyArray is evaluated on the full ``arange`` of its dtype.

Reader modes: every clause below is evaluated twice per site -- ``pod=False`` and ``pod=True`` (``decode(raw, ctx, pod)``
and ``BufferReader(endian, data, pod)``).  A pod failure identical in (clause, raw, duration) to a non-pod failure of the same
instance is one root cause and stays at the base site; pod-specific failures are reported under ``<site>:pod``.
Wrapper layer: every ``EncodedTupleCoord`` instance AND every Adapter layered over one (``PackedQuat(Vector3U16(-1,1))`` of the
animation key-frames / puppetry, ``PackedQuat(Vector4U16/U8)`` of the object updates) is swept through the wrapper's own
decode/encode (wire path) with raw TUPLES: (r,..,r), (r,mid,..), (max,r,min,..), (mid-1,..,r), (r,max+min-r,mid,..) for every r of
the 16-bit domain, and every tuple over a 16-point boundary alphabet for 8-bit components; site e.g.
``PackedQuat[Vector3U16[QuantizedFloat(U16,-1.0,1.0,zero_median=True)]]``.  Quick runs two of the five 16-bit patterns on plain
vectors (independent element codecs) and all five on adapters; thorough runs all everywhere, in both byte orders.
Vector wrappers (every ``EncodedTupleCoord`` instance found by the same walk: Vector3U16(..), Vector4U8(..),
FixedPointVector3U16(..), ... as used by the ObjectUpdate HALF/LOW, ImprovedTerse and animation templates) are swept through
the wire path with each raw value in all components, in both modes (pod reads give tuples); site
``Vector3U16[<element site>]``; a failure an element shows on its own is left to the element's site.

Clauses (site = the parameterisation):
  inverse     encode(decode(raw)) == raw for every raw (direct and wire path); decode returns a float and never raises
  monotonic   decode(raw+1) > decode(raw); equality only for the -0.0 / +0.0 pair of a zero-preserving code
  endpoint    decode(min raw) == lower and decode(max raw) == upper exactly (``==`` on floats).  Encoding the ends back
              is the inverse clause at those two raw values.  Classes that override the quantisation step
              (``_float_to_quantized`` / ``_quantized_to_float`` overridden: PackedTERotation) are held to the lower end
              only (their top raw value is one own-sized step below ``upper`` by construction).  FixedPoint: ends are
              those of the declared ``int.frac`` format: min = -(2**int) if signed else 0, max = min + (2**bits-1)/2**frac
  zero-exact  closed ranges centred on zero (lower == -upper): some raw decodes to exactly 0.0 and encode(0.0),
              encode(-0.0) return raw values that decode to 0.0
  degenerate  duration 0.0 (range [0,0]; inverse is unsatisfiable there): decode gives 0.0 for every raw, encode(0.0)
              returns a value of the wire type, nothing raises
"""
from __future__ import annotations

import math
import struct
import types
from typing import Any, Dict, List, Optional

import numpy as np

import hippolyzer.lib.base.llanim as llanim
import hippolyzer.lib.base.mesh as mesh
import hippolyzer.lib.base.serialization as se
import hippolyzer.lib.base.templates as templates

from hmc import introspect, objwalk
from hmc.core import HarnessError, Part, Run, pmap

LEVEL = "exploration"

# wire types by struct format character: (name, min raw, max raw) -- stated here, not read from the library
WIRE = {"B": ("U8", 0, 0xFF), "b": ("S8", -0x80, 0x7F), "H": ("U16", 0, 0xFFFF), "h": ("S16", -0x8000, 0x7FFF)}
NP_WIRE = {("u", 1): ("U8", 0, 0xFF), ("u", 2): ("U16", 0, 0xFFFF), ("i", 1): ("S8", -0x80, 0x7F), ("i", 2): ("S16", -0x8000, 0x7FFF)}


def f32(x: float) -> float:
    return struct.unpack("<f", struct.pack("<f", x))[0]


F32_MAX = 3.4028234663852886e38
BASE_DURATIONS = [0.0, 1.401298464324817e-45, 1.1754943508222875e-38, f32(1e-3), 0.5, 1.0, f32(3.3333), 60.0, 1e4, F32_MAX]
MANT_QUICK = (1.0, 1.5)
MANT_THOROUGH = (1.0, 1.25, 1.5, f32(1.9999999))


def durations(tier: str) -> List[float]:
    out = list(BASE_DURATIONS)
    exps = range(-126, 128, 16) if tier == "quick" else range(-126, 128)
    for e in exps:
        for m in (MANT_QUICK if tier == "quick" else MANT_THOROUGH):
            d = f32(math.ldexp(m, e))
            if d not in out:
                out.append(d)
    return out


def end_durations() -> List[float]:
    """Dense, cheap duration list for the clauses that need only the end raw values (same in quick and thorough):
    every multiple of 1/8 s up to 64 s, every whole second up to 600 s, every F32 with <= 8 significant mantissa bits in
    [2**-6, 2**9], plus the boundary list."""
    out = {d for d in BASE_DURATIONS if d > 0.0}
    out.update(k / 8.0 for k in range(1, 64 * 8 + 1))
    out.update(float(k) for k in range(1, 601))
    for e in range(-6, 9):
        for m in range(128, 256):
            out.add(math.ldexp(m / 128.0, e))
    out.add(512.0)
    return sorted(f32(d) for d in out)


class Inst:
    def __init__(self, kind: str, obj: Any, ident: tuple, site: str):
        self.kind, self.obj, self.ident, self.site = kind, obj, ident, site
        self.paths: List[str] = []
        self.n = 0


_FMT_BY_SHAPE = {(1, False): "B", (1, True): "b", (2, False): "H", (2, True): "h"}
_IFACE = ("__init__", "encode", "decode", "default_value")  # the Adapter interface; overriding these is not "own arithmetic"


def _is_prim(v) -> bool:
    return isinstance(v, se.SerializablePrimitive)


def _is_target(o) -> bool:
    return isinstance(o, (se.QuantizedFloatBase, se.FixedPoint, se.QuantizedNumPyArray, se.EncodedTupleCoord)) or _tuple_child(o) is not None


def _tuple_child(o):
    """For an Adapter layered over a vector of quantisers (PackedQuat(Vector3U16(..)), ...): that vector spec, found by type
    among the adapter's own members (no attribute name involved); None for everything else."""
    if not isinstance(o, se.Adapter) or isinstance(o, (se.QuantizedFloatBase, se.QuantizedNumPyArray)):
        return None
    hits = [v for _, v in introspect.members(o) if isinstance(v, se.EncodedTupleCoord)]
    return hits[0] if len(hits) == 1 else None


def _fmt_of(prim) -> Optional[str]:
    """struct format character of an integer wire primitive, from its public shape (size, signedness)."""
    if prim is None:
        return None
    try:
        size = prim.calc_size()
        signed = introspect.resolve(prim, ("is_signed",), lambda v: isinstance(v, bool), None, "SerializablePrimitive.is_signed")
        if signed is None:
            signed = prim.min_val < 0
        if not isinstance(prim.max_val, int):
            return None
        fmt = _FMT_BY_SHAPE.get((size, bool(signed)))
        if fmt is None:
            return f"{size}-byte {'signed' if signed else 'unsigned'}"
        return fmt
    except Exception:
        return None


def _read_one(o, fmt: str, raw: int, ctx=None, pod=False):
    return se.BufferReader("<", struct.pack("<" + fmt, raw), pod).read(o, ctx=ctx)


def _probe_fmt(o, ctx=None) -> Optional[str]:
    """Wire type from behaviour alone: width from the public calc_size(), signedness from whether the bit pattern 0x80..
    reads below 0x7F.. (decoders are monotonic in the *typed* raw value)."""
    try:
        size = o.calc_size()
        if size not in (1, 2):
            return f"{size}-byte" if size else None
        ufmt = "B" if size == 1 else "H"
        top, below = (0x80, 0x7F) if size == 1 else (0x8000, 0x7FFF)
        signed = _read_one(o, ufmt, top, ctx) < _read_one(o, ufmt, below, ctx)
        return _FMT_BY_SHAPE[(size, bool(signed))]
    except Exception:
        return None


_PARAMS: Dict[int, dict] = {}


def params(o) -> dict:
    """Everything the sweeps need to know about one library object, read through hmc.introspect (known private name ->
    search by type among the object's members -> derived from behaviour).  ``fallbacks`` lists what was not read by name."""
    got = _PARAMS.get(id(o))
    if got is not None and got["obj"] is o:
        return got
    before = dict(introspect.FALLBACKS)
    p: Dict[str, Any] = {"obj": o, "cls": type(o).__name__}
    if isinstance(o, se.QuantizedFloatBase):
        prim = introspect.resolve(o, ("_child_spec",), _is_prim, None, "QuantizedFloatBase._child_spec")
        fmt = _fmt_of(prim)
        root, ctx = _make_ctx(1.0)
        needs_ctx = False
        if not isinstance(o, se.QuantizedFloat):
            try:
                o.decode(0, None)
            except Exception:
                needs_ctx = True
        if fmt is None:
            fmt = _probe_fmt(o, ctx if needs_ctx else None)
        p.update(kind="qctx" if needs_ctx else "qfloat", fmt=fmt)
        p["own"] = bool(introspect.overrides(type(o), se.QuantizedFloatBase, _IFACE))
        num = lambda v: isinstance(v, (int, float)) and not isinstance(v, bool)  # noqa: E731
        lower = upper = None
        if not needs_ctx:
            lower = introspect.resolve(o, ("lower",), num, None, "QuantizedFloat.lower")
            upper = introspect.resolve(o, ("upper",), num, None, "QuantizedFloat.upper")
        zm = introspect.resolve(o, ("zero_median",), lambda v: isinstance(v, bool), None, "QuantizedFloatBase.zero_median")
        step = introspect.resolve(o, ("step_mag",), num, None, "QuantizedFloatBase.step_mag")
        p["derived"] = []
        if fmt in WIRE and not needs_ctx and (lower is None or upper is None or zm is None):
            lo_raw, hi_raw = WIRE[fmt][1], WIRE[fmt][2]
            try:
                if lower is None:
                    lower = o.decode(lo_raw, None)
                    p["derived"].append("lower")
                if upper is None:
                    upper = o.decode(hi_raw, None)
                    p["derived"].append("upper")
                if zm is None:
                    zm = sum(1 for r in range(lo_raw, hi_raw + 1) if o.decode(r, None) == 0.0) >= 2
                    p["derived"].append("zero_median")
            except Exception:
                pass
        elif zm is None:
            zm = False
            p["derived"].append("zero_median")
        p.update(lower=None if lower is None else float(lower), upper=None if upper is None else float(upper),
                 zero_median=bool(zm), step=None if step is None else float(step))
        del root
    elif isinstance(o, se.FixedPoint):
        prim = introspect.resolve(o, ("_ser_spec",), _is_prim, None, "FixedPoint._ser_spec")
        fmt = _fmt_of(prim) or _probe_fmt(o)
        frac = introspect.resolve(o, ("_frac_bits",), None, None, "FixedPoint._frac_bits")
        signed = introspect.resolve(o, ("_signed",), None, None, "FixedPoint._signed")
        p["derived"] = []
        if fmt in WIRE and (not isinstance(frac, int) or signed is None):
            try:
                lo_raw = WIRE[fmt][1]
                d0, d1 = _read_one(o, fmt, lo_raw), _read_one(o, fmt, lo_raw + 1)
                if not isinstance(frac, int):
                    frac = int(round(-math.log2(d1 - d0)))
                    p["derived"].append("frac_bits")
                if signed is None:
                    signed = d0 < 0
                    p["derived"].append("signed")
            except Exception:
                pass
        p.update(kind="fixed", fmt=fmt, frac=frac if isinstance(frac, int) else None, signed=bool(signed))
    elif isinstance(o, se.QuantizedNumPyArray):
        dt = introspect.resolve(o, ("dtype",), lambda v: isinstance(v, np.dtype), None, "QuantizedNumPyArray.dtype")
        child = introspect.resolve(o, ("_child_spec",), lambda v: isinstance(v, se.NumPyArray), None, "QuantizedNumPyArray._child_spec")
        if dt is None and child is not None:
            dt = introspect.resolve(child, ("dtype",), lambda v: isinstance(v, np.dtype), None, "NumPyArray.dtype")
        elems = introspect.resolve(child, ("elems",), lambda v: isinstance(v, int) and 0 < v < 64, None, "NumPyArray.elems") if child is not None else None
        num = lambda v: isinstance(v, (int, float)) and not isinstance(v, bool)  # noqa: E731
        lower = introspect.resolve(o, ("lower",), num, None, "QuantizedNumPyArray.lower")
        upper = introspect.resolve(o, ("upper",), num, None, "QuantizedNumPyArray.upper")
        step = introspect.resolve(o, ("step_mag",), num, None, "QuantizedNumPyArray.step_mag")
        p["derived"] = []
        if dt is not None and (lower is None or upper is None) and (np.dtype(dt).kind, np.dtype(dt).itemsize) in NP_WIRE:
            _, lo_raw, hi_raw = NP_WIRE[(np.dtype(dt).kind, np.dtype(dt).itemsize)]
            try:
                ends = np.asarray(o.decode(np.array([lo_raw, hi_raw]).astype(dt), None))
                if lower is None:
                    lower = float(ends[0])
                    p["derived"].append("lower")
                if upper is None:
                    upper = float(ends[1])
                    p["derived"].append("upper")
            except Exception:
                pass
        p.update(kind="qnp", dtype=None if dt is None else np.dtype(dt), elems=elems or 12,
                 lower=None if lower is None else float(lower), upper=None if upper is None else float(upper),
                 step=None if step is None else float(step))
    elif _tuple_child(o) is not None:  # adapter over a vector of quantisers
        inner = _tuple_child(o)
        p.update(kind="tuple", elems=params(inner)["elems"], inner=inner, derived=[])
    else:  # EncodedTupleCoord
        elems = introspect.resolve(o, ("_elem_specs",),
                                   lambda v: isinstance(v, (tuple, list)) and len(v) > 0 and all(_is_target(e) for e in v),
                                   (), "EncodedTupleCoord._elem_specs")
        p.update(kind="tuple", elems=tuple(elems or ()), derived=[])
    p["fallbacks"] = sorted(k for k, n in introspect.FALLBACKS.items() if n != before.get(k, 0))
    _PARAMS[id(o)] = p
    return p


def describe(o) -> tuple:
    """(kind, ident tuple, default site string)"""
    p = params(o)
    cls = p["cls"]
    if p["kind"] in ("qfloat", "qctx"):
        fmt = p["fmt"]
        wname = WIRE.get(fmt, (f"fmt:{fmt}",))[0]
        if p["kind"] == "qfloat":
            ident = ("qfloat", cls, fmt, p["lower"], p["upper"], p["zero_median"], p["step"], p["own"])
            return "qfloat", ident, f"{cls}({wname},{p['lower']!r},{p['upper']!r},zero_median={p['zero_median']})"
        ident = ("qctx", cls, fmt, p["zero_median"], p["step"])
        return "qctx", ident, f"{cls}({wname})"
    if p["kind"] == "fixed":
        fmt = p["fmt"]
        wname = WIRE.get(fmt, (f"fmt:{fmt}",))[0]
        bits = struct.calcsize(fmt) * 8 if fmt in WIRE else 0
        frac, signed = p["frac"], p["signed"]
        int_bits = bits - (frac or 0) - int(signed)
        ident = ("fixed", fmt, frac, signed)
        return "fixed", ident, f"FixedPoint({wname},{int_bits}.{frac},{'signed' if signed else 'unsigned'})"
    dt = p["dtype"]
    dstr = dt.str if dt is not None else "?"
    ident = ("qnp", dstr, p["lower"], p["upper"], p["step"])
    return "qnp", ident, f"QuantizedNumPyArray({dstr},{p['lower']!r},{p['upper']!r})"


def discover() -> List[Inst]:
    roots = [(f"SUBFIELD_SERIALIZERS[{k!r}]", v) for k, v in sorted(se.SUBFIELD_SERIALIZERS.items(), key=repr)]
    roots += objwalk.module_roots(templates, llanim, mesh)
    found = objwalk.walk(roots, _is_target)
    by_ident: Dict[tuple, Inst] = {}
    wrappers = [(path, o) for path, o in found if isinstance(o, se.EncodedTupleCoord) or _tuple_child(o) is not None]
    for path, o in found:
        if isinstance(o, se.EncodedTupleCoord) or _tuple_child(o) is not None:
            continue
        kind, ident, site = describe(o)
        inst = by_ident.get(ident)
        if inst is None:
            inst = by_ident[ident] = Inst(kind, o, ident, site)
        inst.n += 1
        if len(inst.paths) < 2:
            inst.paths.append(path)
    insts = sorted(by_ident.values(), key=lambda i: repr(i.ident))
    # subclasses of QuantizedFloat with a single parameterisation are named by their class (e.g. "PackedTERotation")
    per_cls: Dict[str, int] = {}
    for i in insts:
        if i.kind == "qfloat" and type(i.obj) is not se.QuantizedFloat:
            per_cls[type(i.obj).__name__] = per_cls.get(type(i.obj).__name__, 0) + 1
    for i in insts:
        if i.kind == "qfloat" and type(i.obj) is not se.QuantizedFloat and per_cls[type(i.obj).__name__] == 1:
            i.site = type(i.obj).__name__
    sites = [i.site for i in insts]
    if len(set(sites)) != len(sites):  # same printed parameters, different hidden state (e.g. step): disambiguate
        for n, i in enumerate(insts):
            if sites.count(i.site) > 1:
                i.site = f"{i.site}#{n}"
    # vector / tuple wrappers around the element quantisers (Vector3U16(..), FixedPointVector3U16(..), ...)
    site_of = {i.ident: i.site for i in insts}
    by_w: Dict[tuple, Inst] = {}
    for path, o in wrappers:
        elems = params(o)["elems"]
        if not elems or not all(_is_target(e) and not isinstance(e, se.EncodedTupleCoord) for e in elems):
            continue
        eids = tuple(describe(e)[1] for e in elems)
        inner_spec = params(o).get("inner")
        cls_name = type(o).__name__ if inner_spec is None else f"{type(o).__name__}[{type(inner_spec).__name__}"
        ident = ("tuple", cls_name, eids)
        inst = by_w.get(ident)
        if inst is None:
            names = [site_of.get(e, describe(el)[2]) for e, el in zip(eids, elems)]
            inner = names[0] if len(set(names)) == 1 else " | ".join(names)
            inst = by_w[ident] = Inst("tuple", o, ident, f"{cls_name}[{inner}]" + ("]" if inner_spec is not None else ""))
        inst.n += 1
        if len(inst.paths) < 2:
            inst.paths.append(path)
    return insts + sorted(by_w.values(), key=lambda i: repr(i.ident))


# ---- evaluation ------------------------------------------------------------------------------------------------
def _make_ctx(duration: float):
    root = se.ParseContext(types.SimpleNamespace(duration=duration))
    return root, se.ParseContext({}, parent=root)


def _bits(f: float) -> bytes:
    return struct.pack("<d", f)


def eval_scalar(part, inst: Inst, duration: Optional[float] = None, wire: bool = True, pod: bool = False):
    """One full sweep of a QuantizedFloatBase instance (optionally under a duration context) in one reader mode."""
    o = inst.obj
    site = inst.site
    P = params(o)
    fmt = P["fmt"]
    wname, lo_raw, hi_raw = WIRE[fmt]
    root = ctx = None
    if inst.kind == "qctx":
        root, ctx = _make_ctx(duration)
        lower, upper = 0.0, duration
    else:
        lower, upper = P["lower"], P["upper"]
    own = P["own"]

    def wit(raw, path="direct"):
        w = {"site": site, "raw": raw, "path": path}
        if duration is not None:
            w["duration"] = duration
        return w

    dec, enc = o.decode, o.encode
    n = hi_raw - lo_raw + 1
    part.count("evaluations", n)
    degenerate = inst.kind == "qctx" and duration == 0.0
    prev = None
    zeros = []
    first = last = None
    bad = 0
    for raw in range(lo_raw, hi_raw + 1):
        try:
            f = dec(raw, ctx, pod)
        except Exception as e:
            part.violation("degenerate" if degenerate else "inverse", site, wit(raw), f"decode({raw}) raised {e!r}")
            bad += 1
            prev = None
            continue
        if type(f) is not float:
            part.violation("inverse", site, wit(raw), f"decode({raw}) returned {type(f).__name__} {f!r}, not a float")
            bad += 1
            prev = None
            continue
        if raw == lo_raw:
            first = f
        last = f
        if degenerate:
            if f != 0.0:
                part.violation("degenerate", site, wit(raw), f"duration 0.0: decode({raw}) = {f!r}, expected 0.0")
            continue
        try:
            r = enc(f, ctx)
        except Exception as e:
            part.violation("inverse", site, wit(raw), f"decode({raw}) = {f!r}; encode of that raised {e!r}")
            bad += 1
            r = raw
        if r != raw:
            part.violation("inverse", site, wit(raw), f"decode({raw}) = {f!r} re-encodes to {r!r}")
            bad += 1
        if prev is not None and not f > prev:
            signed_zero_pair = f == 0.0 and prev == 0.0 and math.copysign(1.0, prev) < 0 < math.copysign(1.0, f)
            if not signed_zero_pair:
                part.violation("monotonic", site, wit(raw), f"decode({raw - 1}) = {prev!r} but decode({raw}) = {f!r}")
        prev = f
        if f == 0.0:
            zeros.append(raw)
    tag = (site, duration, pod)
    if degenerate:
        try:
            r = enc(0.0, ctx)
            if not (isinstance(r, int) and lo_raw <= r <= hi_raw):
                part.violation("degenerate", site, wit(lo_raw), f"duration 0.0: encode(0.0) = {r!r} is not a {wname}")
        except Exception as e:
            part.violation("degenerate", site, wit(lo_raw), f"duration 0.0: encode(0.0) raised {e!r}")
        part.outcome((tag, "degenerate"))
        part.mark_nontrivial((tag, "degenerate"))
        return
    # endpoints
    if first is not None and not (first == lower):
        part.violation("endpoint", site, wit(lo_raw), f"decode(min raw {lo_raw}) = {first!r}, declared lower end {lower!r}")
    if not own and last is not None and not (last == upper):
        part.violation("endpoint", site, wit(hi_raw), f"decode(max raw {hi_raw}) = {last!r}, declared upper end {upper!r}")
    part.mark_nontrivial((tag, "end", lo_raw))
    part.mark_nontrivial((tag, "end", hi_raw))
    # zero
    if lower == -upper and lower != 0.0 and not own:
        if not zeros:
            part.violation("zero-exact", site, wit((lo_raw + hi_raw + 1) // 2), f"range [{lower!r},{upper!r}] is centred on zero but no raw value decodes to 0.0")
        else:
            for z in (0.0, -0.0):
                try:
                    r = enc(z, ctx)
                except Exception as e:
                    r = repr(e)
                if r not in zeros:
                    part.violation("zero-exact", site, wit(zeros[0]), f"encode({z!r}) = {r!r}, but the raw values decoding to 0.0 are {zeros}")
    for z in zeros:
        part.mark_nontrivial((tag, "zero", z))
    part.outcome((tag, _bits(first) if first is not None else None, _bits(last) if last is not None else None, tuple(zeros), bad))
    # wire path, both byte orders: packed raw -> read(spec) -> write(spec) must give the same bytes
    if wire:
        for endian in ("<", ">"):
            st = struct.Struct(endian + fmt)
            part.count("evaluations", n)
            part.count("wire_evaluations", n)
            for raw in range(lo_raw, hi_raw + 1):
                data = st.pack(raw)
                try:
                    val = se.BufferReader(endian, data, pod).read(o, ctx=ctx)
                    wr = se.BufferWriter(endian)
                    wr.write(o, val, ctx=ctx)
                    out = bytes(wr.buffer)
                except Exception as e:
                    part.violation("inverse", site, wit(raw, "wire" + endian), f"wire bytes {data.hex()} -> read/write raised {e!r}")
                    continue
                if out != data:
                    part.violation("inverse", site, wit(raw, "wire" + endian), f"wire bytes {data.hex()} read as {val!r} are written back as {out.hex()}")
    del root


def eval_ends(part, inst: Inst, durs: List[float], pod: bool = False):
    """Context-dependent range: endpoint clause (and inverse at the end raws + the middle raw) for many durations."""
    o = inst.obj
    site = inst.site
    fmt = params(o)["fmt"]
    wname, lo_raw, hi_raw = WIRE[fmt]
    mid_raw = (lo_raw + hi_raw + 1) // 2
    st = struct.Struct("<" + fmt)
    n_ok = 0
    for d in durs:
        root, ctx = _make_ctx(d)
        part.count("evaluations", 3)
        part.count("endpoint_duration_evaluations", 3)
        for raw, want in ((lo_raw, 0.0), (hi_raw, d), (mid_raw, None)):
            w = {"site": site, "raw": raw, "path": "direct", "duration": d}
            try:
                f = o.decode(raw, ctx, pod)
                r = o.encode(f, ctx)
            except Exception as e:
                part.violation("inverse", site, w, f"duration {d!r}: decode/encode of raw {raw} raised {e!r}")
                continue
            if want is not None and not (type(f) is float and f == want):
                which = "min" if raw == lo_raw else "max"
                part.violation("endpoint", site, w, f"duration {d!r}: decode({which} raw {raw}) = {f!r}, declared "
                                                    f"{'lower' if raw == lo_raw else 'upper'} end {want!r}")
            elif want is not None:
                n_ok += 1
            if r != raw:
                part.violation("inverse", site, w, f"duration {d!r}: decode({raw}) = {f!r} re-encodes to {r!r}")
            data = st.pack(raw)
            try:
                val = se.BufferReader("<", data, pod).read(o, ctx=ctx)
                wr = se.BufferWriter("<")
                wr.write(o, val, ctx=ctx)
                if bytes(wr.buffer) != data:
                    part.violation("inverse", site, dict(w, path="wire<"), f"duration {d!r}: wire bytes {data.hex()} read as {val!r} are "
                                                                          f"written back as {bytes(wr.buffer).hex()}")
            except Exception as e:
                part.violation("inverse", site, dict(w, path="wire<"), f"duration {d!r}: wire read/write of raw {raw} raised {e!r}")
        part.mark_nontrivial(((site, d, pod), "end", hi_raw))
        del root
    part.outcome(((site, "ends", pod), n_ok == 2 * len(durs)))


def eval_fixed(part, inst: Inst, pod: bool = False):
    o = inst.obj
    site = inst.site
    P = params(o)
    fmt = P["fmt"]
    wname, lo_raw, hi_raw = WIRE[fmt]
    bits = struct.calcsize(fmt) * 8
    frac, signed = int(P["frac"] or 0), bool(P["signed"])
    int_bits = bits - frac - int(signed)
    exp_min = -float(2 ** int_bits) if signed else 0.0
    exp_max = exp_min + (2 ** bits - 1) / float(2 ** frac)
    n = hi_raw - lo_raw + 1
    first = last = None
    for endian in ("<", ">"):
        st = struct.Struct(endian + fmt)
        part.count("evaluations", n)
        prev = None
        for raw in range(lo_raw, hi_raw + 1):
            w = {"site": site, "raw": raw, "path": "wire" + endian}
            data = st.pack(raw)
            try:
                f = se.BufferReader(endian, data, pod).read(o)
            except Exception as e:
                part.violation("inverse", site, w, f"deserialize({data.hex()}) raised {e!r}")
                prev = None
                continue
            if type(f) is not float:
                part.violation("inverse", site, w, f"deserialize({data.hex()}) returned {type(f).__name__} {f!r}")
                prev = None
                continue
            try:
                wr = se.BufferWriter(endian)
                wr.write(o, f)
                out = bytes(wr.buffer)
            except Exception as e:
                part.violation("inverse", site, w, f"raw {raw} decodes to {f!r}; serialize of that raised {e!r}")
                out = data
            if out != data:
                part.violation("inverse", site, w, f"raw {raw} ({data.hex()}) decodes to {f!r} which is written back as {out.hex()}")
            if prev is not None and not f > prev:
                part.violation("monotonic", site, w, f"decode({raw - 1}) = {prev!r} but decode({raw}) = {f!r}")
            prev = f
            if raw == lo_raw:
                first = f
            last = f
        if first is not None and first != exp_min:
            part.violation("endpoint", site, {"site": site, "raw": lo_raw, "path": "wire" + endian},
                           f"decode(min raw) = {first!r}; a {'signed' if signed else 'unsigned'} {int_bits}.{frac} fixed-point format starts at {exp_min!r}")
        if last is not None and last != exp_max:
            part.violation("endpoint", site, {"site": site, "raw": hi_raw, "path": "wire" + endian},
                           f"decode(max raw) = {last!r}; a {'signed' if signed else 'unsigned'} {int_bits}.{frac} fixed-point format ends at {exp_max!r}")
    tag = (site, None, pod)
    part.mark_nontrivial((tag, "end", lo_raw))
    part.mark_nontrivial((tag, "end", hi_raw))
    part.outcome((tag, first, last))


def eval_numpy(part, inst: Inst, pod: bool = False):
    o = inst.obj
    site = inst.site
    P = params(o)
    dt = P["dtype"]
    wname, lo_raw, hi_raw = NP_WIRE[(dt.kind, dt.itemsize)]
    lower, upper = P["lower"], P["upper"]
    n = hi_raw - lo_raw + 1
    raws = np.arange(lo_raw, hi_raw + 1, dtype=np.int64)
    arr = raws.astype(dt)
    part.count("evaluations", n)

    def wit(raw, path="direct"):
        return {"site": site, "raw": int(raw), "path": path}

    try:
        dec = np.asarray(o.decode(arr, None, pod))
        enc = np.asarray(o.encode(dec, None))
    except Exception as e:
        part.violation("inverse", site, wit(lo_raw), f"decode/encode of arange({n}) raised {e!r}")
        return
    if dec.shape != arr.shape or dec.dtype.kind != "f" or enc.shape != arr.shape:
        part.violation("inverse", site, wit(lo_raw), f"decode gave shape {dec.shape} dtype {dec.dtype}, encode shape {enc.shape}")
        return
    back = enc.astype(np.int64)
    badi = np.nonzero(back != raws)[0]
    for i in badi[:3]:
        part.violation("inverse", site, wit(raws[i]), f"decode({int(raws[i])}) = {float(dec[i])!r} re-encodes to {int(back[i])} "
                                                      f"({len(badi)} of {n} raw values differ)")
    if len(badi) > 3:
        part.count(f"failing:inverse@{site}", len(badi) - 3)
    mono = np.nonzero(~(np.diff(dec) > 0))[0]
    for i in mono[:1]:
        part.violation("monotonic", site, wit(raws[i + 1]), f"decode({int(raws[i])}) = {float(dec[i])!r} but decode({int(raws[i + 1])}) = {float(dec[i + 1])!r}")
    first, last = float(dec[0]), float(dec[-1])
    if first != lower:
        part.violation("endpoint", site, wit(lo_raw), f"decode(min raw {lo_raw}) = {first!r}, declared lower end {lower!r}")
    if last != upper:
        part.violation("endpoint", site, wit(hi_raw), f"decode(max raw {hi_raw}) = {last!r}, declared upper end {upper!r}")
    zeros = [int(r) for r in raws[np.nonzero(dec == 0.0)[0]]]
    if lower == -upper and lower != 0.0:
        if not zeros:
            mid = (lo_raw + hi_raw + 1) // 2
            near = [float(x) for x in dec[mid - lo_raw - 1: mid - lo_raw + 1]]
            part.violation("zero-exact", site, wit(mid), f"range [{lower!r},{upper!r}] is centred on zero but no raw value decodes to 0.0 "
                                                         f"(nearest: raw {mid - 1},{mid} -> {near}); encode(0.0) = {int(np.asarray(o.encode(np.array([0.0]), None))[0])}")
        else:
            for z in (0.0, -0.0):
                r = int(np.asarray(o.encode(np.array([z]), None))[0])
                if r not in zeros:
                    part.violation("zero-exact", site, wit(zeros[0]), f"encode({z!r}) = {r}, but the raw values decoding to 0.0 are {zeros}")
    # wire path through the child NumPyArray spec (rows of `elems` components; pad the tail row with the minimum raw value)
    elems = int(P["elems"])
    pad = (-n) % elems
    for endian in ("<",):  # the dtype carries its own byte order
        data = np.concatenate([arr, np.full(pad, lo_raw, dtype=dt)]).tobytes()
        part.count("evaluations", n)
        part.count("wire_evaluations", n)
        try:
            val = se.BufferReader(endian, data, pod).read(o)
            wr = se.BufferWriter(endian)
            wr.write(o, val)
            out = bytes(wr.buffer)
        except Exception as e:
            part.violation("inverse", site, wit(lo_raw, "wire"), f"wire read/write of all {n} raw values raised {e!r}")
            continue
        if out != data:
            a = np.frombuffer(data, dtype=dt)
            b = np.frombuffer(out, dtype=dt) if len(out) == len(data) else None
            if b is None:
                part.violation("inverse", site, wit(lo_raw, "wire"), f"wrote {len(out)} bytes for {len(data)} read")
            else:
                i = int(np.nonzero(a != b)[0][0])
                part.violation("inverse", site, wit(int(a[i]), "wire"), f"raw {int(a[i])} read through the array spec is written back as {int(b[i])}")
    tag = (site, None, pod)
    part.mark_nontrivial((tag, "end", lo_raw))
    part.mark_nontrivial((tag, "end", hi_raw))
    for z in zeros:
        part.mark_nontrivial((tag, "zero", z))
    part.outcome((tag, first, last, tuple(zeros), len(badi)))


class ModePart:
    """View of a Part for one reader mode.  pod=False: violations go to the base site.  pod=True: the site gets the suffix
    ``:pod`` and the witness ``pod: true`` -- but a failure whose (clause, raw, duration) already failed identically placed in the
    non-pod sweep of the same instance is attributed to the base site only (one root cause, one site), so only pod-specific
    failures appear under ``...:pod``."""

    def __init__(self, part, pod: bool, skip: Optional[set] = None):
        self.part, self.pod, self.skip = part, pod, skip or set()
        self.failed: set = set()

    def violation(self, clause, site, witness, detail=""):
        key = (clause, witness.get("raw"), witness.get("duration"), witness.get("pattern"))
        self.failed.add(key)
        if self.pod:
            if key in self.skip:
                self.part.count("pod_failures_same_as_nonpod")
                return
            witness = dict(witness, pod=True, site=site + ":pod")
            site = site + ":pod"
        self.part.violation(clause, site, witness, detail)

    def count(self, key, n=1):
        self.part.count(key, n)
        if self.pod and key == "evaluations":
            self.part.count("pod_evaluations", n)

    def mark_nontrivial(self, key):
        self.part.mark_nontrivial(key)

    def outcome(self, key):
        self.part.outcome(key)


def _elem_fmt(e) -> Optional[str]:
    return params(e).get("fmt")


PATTERNS_16 = ("all", "first", "max-r-min", "last", "anti")
PATTERNS_8 = ("all", "grid")


def _grid_alphabet(lo: int, hi: int) -> List[int]:
    mid = (lo + hi + 1) // 2
    q = (hi - lo + 1) // 4
    pts = [lo, lo + 1, lo + 2, lo + q - 1, lo + q, mid - 2, mid - 1, mid, mid + 1, mid + 2, hi - q, hi - q + 1, hi - 2, hi - 1, hi, lo + (hi - lo) // 3]
    return sorted(set(pts))


def raw_tuples(pattern: str, n: int, lo: int, hi: int):
    """Yield (key raw, tuple of component raws) for one pattern; r runs over the whole wire domain."""
    mid = (lo + hi + 1) // 2
    if pattern == "grid":
        import itertools
        for t in itertools.product(_grid_alphabet(lo, hi), repeat=n):
            yield t[0], t
        return
    for r in range(lo, hi + 1):
        if pattern == "all":
            t = (r,) * n
        elif pattern == "first":
            t = (r,) + (mid,) * (n - 1)
        elif pattern == "max-r-min":
            t = ((hi, r) + (lo,) * (n - 2))[:n] if n >= 2 else (r,)
        elif pattern == "last":
            t = (mid - 1,) * (n - 1) + (r,)
        else:  # anti
            t = ((r, hi + lo - r) + (mid,) * (n - 2))[:n] if n >= 2 else (r,)
        yield r, t


def tuple_patterns(inst: Inst, thorough: bool = True) -> tuple:
    """All patterns in the thorough tier and for adapters layered over a vector (PackedQuat: cross-component arithmetic is
    possible there); plain vectors of independent element codecs get the two cheapest 16-bit patterns in the quick tier."""
    fmt = _elem_fmt(params(inst.obj)["elems"][0])
    if struct.calcsize(fmt) == 1:
        return PATTERNS_8
    if thorough or params(inst.obj).get("inner") is not None:
        return PATTERNS_16
    return ("all", "max-r-min")


def _wire_roundtrip_ok(spec, endian: str, data: bytes, pod: bool) -> bool:
    try:
        v = se.BufferReader(endian, data, pod).read(spec)
        w = se.BufferWriter(endian)
        w.write(spec, v)
        return bytes(w.buffer) == data
    except Exception:
        return False


def eval_tuple(part, inst: Inst, pod: bool = False, endians=("<",), patterns: Optional[tuple] = None):
    """Wire path through a vector wrapper (Vector3U16(..), PackedQuat(Vector3U16(..)), ...), i.e. through the wrapper's own
    decode/encode: raw tuples of several shapes (same raw everywhere; one component swept with the others at the middle / at
    the ends; anti-diagonal; 8-bit: every tuple over a 16-point boundary alphabet) are read (tuple in pod mode, coord /
    quaternion object otherwise) and written back.  A failure that an inner layer (an element, or the vector under an
    adapter) shows on its own in the same mode is that layer's."""
    o = inst.obj
    site = inst.site
    elems = params(o)["elems"]
    inner = params(o).get("inner")
    fmt = _elem_fmt(elems[0])
    wname, lo_raw, hi_raw = WIRE[fmt]
    ncomp = len(elems)
    for pattern in (patterns or tuple_patterns(inst, True)):
        first = last = None
        bad = 0
        for endian in endians:
            st = struct.Struct(endian + fmt)
            n = 0
            for raw, t in raw_tuples(pattern, ncomp, lo_raw, hi_raw):
                n += 1
                parts = [st.pack(x) for x in t]
                data = b"".join(parts)
                detail = None
                try:
                    val = se.BufferReader(endian, data, pod).read(o)
                    wr = se.BufferWriter(endian)
                    wr.write(o, val)
                    out = bytes(wr.buffer)
                    if out != data:
                        back = [st.unpack(out[i:i + st.size])[0] for i in range(0, len(out) - st.size + 1, st.size)] if len(out) == len(data) else out.hex()
                        detail = f"raw components {list(t)} read as {val!r} are written back as {back}"
                    if first is None:
                        first = tuple(val)
                    last = tuple(val)
                except Exception as e:
                    detail = f"raw components {list(t)} -> read/write raised {e!r}"
                if detail is None:
                    continue
                bad += 1
                inner_fault = any(not _wire_roundtrip_ok(e, endian, pb, pod) for e, pb in zip(elems, parts))
                if not inner_fault and inner is not None:
                    inner_fault = not _wire_roundtrip_ok(inner, endian, data, pod)
                if inner_fault:
                    part.count("wrapper_failures_attributed_to_inner_layer")
                else:
                    part.violation("inverse", site, {"site": site, "raw": raw, "raws": list(t), "pattern": pattern, "path": "wire" + endian}, detail)
            part.count("evaluations", n)
            part.count("wrapper_evaluations", n)
        tag = (site, pattern, pod)
        part.mark_nontrivial((tag, "end", lo_raw))
        part.mark_nontrivial((tag, "end", hi_raw))
        part.outcome((tag, repr(first), repr(last), bad))


class WPart(Part):
    """Part that keeps up to three witnesses with *distinct* (raw, duration) per (clause, site), lowest raw first within a
    sweep, so a known finding pinned to one raw value (witness_regex) cannot mask other failing raw values at the same site."""

    def __init__(self):
        super().__init__()
        self.multi: Dict[tuple, list] = {}

    def violation(self, clause, site, witness, detail=""):
        key = (clause, site)
        self.count(f"failing:{clause}@{site}")  # total failing evaluations (Run.merge would drop witnesses if counts rode on "n")
        wk = (witness.get("raw"), witness.get("duration"), witness.get("pattern")) if isinstance(witness, dict) else None
        lst = self.multi.setdefault(key, [])
        if len(lst) < 3 and all(e["_wk"] != wk for e in lst):
            lst.append({"clause": clause, "site": site, "witness": witness, "detail": str(detail)[:2000], "n": 1, "_wk": wk})

    def flat(self) -> List[dict]:
        return [{k: v for k, v in e.items() if k != "_wk"} for lst in self.multi.values() for e in lst]

    def dump(self):
        d = super().dump()
        d["violations"] = self.flat()
        return d


_INSTS: List[Inst] = []
_THOROUGH = False


def _supported(inst: Inst) -> Optional[str]:
    """None if the wire type can be swept exhaustively, else the reason."""
    if inst.kind in ("qfloat", "qctx"):
        fmt = params(inst.obj)["fmt"]
        return None if fmt in WIRE else f"wire format {fmt!r} is not an 8/16-bit integer"
    if inst.kind == "fixed":
        fmt = params(inst.obj)["fmt"]
        if fmt in WIRE and params(inst.obj)["frac"] is None:
            return "fraction bits could neither be read nor derived"
        return None if fmt in WIRE else f"wire format {fmt!r} is not an 8/16-bit integer"
    if inst.kind == "tuple":
        fmts = {_elem_fmt(e) for e in params(inst.obj)["elems"]}
        return None if len(fmts) == 1 and fmts <= set(WIRE) else f"element wire formats {sorted(map(repr, fmts))} not one 8/16-bit integer"
    dt = params(inst.obj)["dtype"]
    if dt is None:
        return "dtype could not be resolved"
    if params(inst.obj)["lower"] is None or params(inst.obj)["upper"] is None:
        return "range could neither be read nor derived"
    return None if (dt.kind, dt.itemsize) in NP_WIRE else f"dtype {dt.str} is not an 8/16-bit integer"


def _eval_unit(unit) -> dict:
    idx, duration, wire = unit
    inst = _INSTS[idx]
    part = WPart()
    _eval_both_modes(part, inst, duration, wire)
    return part.dump()


def _eval_both_modes(part, inst: Inst, duration, wire: bool):
    skip = None
    for pod in (False, True):
        mp = ModePart(part, pod, skip)
        if isinstance(duration, (tuple, list)):  # ("ends", [durations]): dense endpoint sweep of a context-dependent range
            eval_ends(mp, inst, list(duration[1]), pod)
        elif inst.kind in ("qfloat", "qctx"):
            eval_scalar(mp, inst, duration, wire, pod)
        elif inst.kind == "fixed":
            eval_fixed(mp, inst, pod)
        elif inst.kind == "tuple":
            eval_tuple(mp, inst, pod, ("<", ">") if _THOROUGH else ("<",), (duration,) if isinstance(duration, str) else None)
        else:
            eval_numpy(mp, inst, pod)
        skip = mp.failed


def _probe_ctx(inst: Inst) -> Optional[str]:
    """Can the context-dependent quantiser be driven with a root object exposing `duration`?"""
    root, ctx = _make_ctx(1.0)
    try:
        lo = WIRE[params(inst.obj)["fmt"]][1]
        inst.obj.decode(lo, ctx)
        return None
    except (AttributeError, KeyError, TypeError) as e:
        return repr(e)
    finally:
        del root


def run(run: Run):
    global _INSTS, _THOROUGH
    _INSTS = discover()
    _THOROUGH = run.tier != "quick"
    if len(_INSTS) < 5:
        raise HarnessError(f"object walk found only {len(_INSTS)} quantiser parameterisations")
    durs = durations(run.tier)
    n_end_durs = 0
    units = []
    listing = []
    for idx, inst in enumerate(_INSTS):
        why = _supported(inst)
        listing.append({"site": inst.site, "instances": inst.n, "first_path": inst.paths[0][:160]})
        if why:
            run.cap(f"{inst.site}: {why}; not swept")
            continue
        if inst.kind == "qctx":
            err = _probe_ctx(inst)
            if err:
                run.cap(f"{inst.site}: context-dependent quantiser needs a context this harness does not know how to build ({err}); not swept")
                continue
            for d in durs:
                units.append((idx, d, d in BASE_DURATIONS))
            ends = end_durations()
            n_end_durs = len(ends)
            for k in range(0, len(ends), 250):
                units.append((idx, ("ends", tuple(ends[k:k + 250])), False))
        elif inst.kind == "tuple":
            for pat in tuple_patterns(inst, _THOROUGH):
                units.append((idx, pat, True))
        else:
            units.append((idx, None, True))
    # longest units first
    units.sort(key=lambda u: (0 if u[2] else 1, u[0], repr(u[1])))
    for d in pmap(_eval_unit, units, run.jobs, chunksize=1):
        run.merge(d)
    for i in _INSTS[:2] + [x for x in _INSTS if x.kind not in ("qfloat", "tuple")][:2] + [x for x in _INSTS if x.kind == "tuple"][:2]:
        run.sample({"site": i.site, "instances_sharing_it": i.n, "reached_via": i.paths[0][:200]})
    scal = [i for i in _INSTS if i.kind != "tuple"]
    wrap = [i for i in _INSTS if i.kind == "tuple"]
    run.rule = (f"object walk from SUBFIELD_SERIALIZERS + templates/llanim/mesh found {sum(i.n for i in scal)} quantiser / fixed-point instances "
                f"= {len(scal)} distinct parameterisations, and {sum(i.n for i in wrap)} vector wrappers around them = {len(wrap)} distinct; each swept "
                "over every raw value of its wire type in BOTH reader modes (pod=False and pod=True: decode(raw, ctx, pod) -> encode, and the "
                f"BufferReader(pod)/BufferWriter path in both byte orders; wrappers incl. PackedQuat-style adapters over vectors: raw-tuple patterns "
                f"(all-equal, one component swept against mid / max,min, anti-diagonal; 8-bit: all tuples over a 16-point alphabet) through the wrapper's own "
                f"decode/encode, {'both byte orders' if _THOROUGH else 'little-endian'}); "
                f"context-dependent ranges: all raws x {len(durs)} f32-exact durations, plus the end and middle raws x {n_end_durs} durations "
                "(every 1/8 s to 64 s, every second to 600 s, every F32 with <= 8 mantissa bits in [2^-6, 2^9]; endpoint + inverse clauses). distinct_nontrivial = per (site, duration, mode): the two end raw "
                "values and every raw value that decodes to +-0.0 (the zero-preserving path)")
    run.assumptions += [
        "sites are parameterisations (class, wire type, lower, upper, rounding mode, step) found by walking live objects; a quantiser only "
        "constructed lazily inside a function body at parse time would not be seen",
        "classes overriding the quantisation arithmetic (PackedTERotation) are held to inverse + monotonic + lower end; their upper end is "
        "one own-sized step below `upper` by construction",
        "FixedPoint ends are those of the declared int.frac format (the top of the clamp range, 2**int, is not representable and is not demanded)",
        "duration 0.0 gives the degenerate range [0,0] on which inverse is unsatisfiable for any decoder into floats; only totality is demanded there",
        "durations are positive finite f32-exact values (the animation header stores an F32)",
        "decode(raw) == end compares Python floats with ==; encode of the ends is the inverse clause at the end raw values",
        "pod mode: every clause is evaluated again with pod=True; a failure identical in (clause, raw, duration) to one of the non-pod sweep is "
        "attributed to the base site only, pod-specific failures are reported under '<site>:pod'",
        "wrappers (vectors and adapters over vectors such as PackedQuat) are driven with the stated raw-tuple patterns, not the full cross product of "
        "16-bit components; raw triples whose decoded vector is longer than 1 are in scope (any raw the wire type can hold)",
    ]
    fb_sites = {i.site: sorted(set(params(i.obj)["fallbacks"]) | {"derived:" + d for d in params(i.obj).get("derived", [])})
                for i in _INSTS if params(i.obj)["fallbacks"] or params(i.obj).get("derived")}
    run.count("introspection_fallbacks", sum(introspect.FALLBACKS.values()))
    run.coverage_extra["introspection_fallbacks"] = {"total": sum(introspect.FALLBACKS.values()), "by_attribute": dict(sorted(introspect.FALLBACKS.items())),
                                                     "sites_using_fallbacks": fb_sites}
    if fb_sites:
        run.notes.append(f"{len(fb_sites)} sites were identified through introspection fallbacks (renamed private attributes); parameters "
                         "derived from behaviour make the endpoint clause vacuous for those parameters")
    run.coverage_extra.update({"instances_found": sum(i.n for i in scal), "distinct_parameterisations": len(scal),
                               "wrapper_instances_found": sum(i.n for i in wrap), "distinct_wrappers": len(wrap),
                               "sites": listing, "durations": len(durs), "endpoint_durations": n_end_durs, "units": len(units),
                               "failing_evaluations": {k[8:]: n for k, n in sorted(run.counters.items()) if k.startswith("failing:")}})


def replay(w):
    insts = discover()
    want = w["site"]
    base = want[:-4] if want.endswith(":pod") else want
    inst = next((i for i in insts if i.site == base), None)
    if inst is None:
        return []
    global _INSTS, _THOROUGH
    _INSTS, _THOROUGH = insts, True
    part = WPart()
    _eval_both_modes(part, inst, w.get("duration"), True)
    if inst.kind == "qctx" and w.get("duration"):
        _eval_both_modes(part, inst, ("ends", (w["duration"],)), False)
    return [v for v in part.flat() if v["site"] == want]
